#![no_main]
//! libFuzzer target for C16: the semantic oracle of the property lives in vp::props::c16::fuzz_entry
//! (the same function the `fuzz_raw` replay sub-check uses). A violation aborts the process so that
//! libFuzzer saves the input; known findings and budget overruns are tolerated in-target.
use libfuzzer_sys::fuzz_target;
use std::sync::OnceLock;
use vp::engine::{Ctx, Verdict};

static CTX: OnceLock<CtxBox> = OnceLock::new();
struct CtxBox(Ctx);
unsafe impl Sync for CtxBox {}
unsafe impl Send for CtxBox {}

fuzz_target!(|data: &[u8]| {
    // The first call replaces libFuzzer's abort-on-panic hook by the harness hook: panics of the code
    // under test are caught and judged by the oracle (a panic is a violation for totality properties).
    let ctx = &CTX.get_or_init(|| CtxBox(vp::engine::fuzz_ctx("C16"))).0;
    if let Verdict::Fail(m) = vp::props::c16::fuzz_entry(ctx, data) {
        eprintln!("VP-VIOLATION C16: {}", m);
        std::process::abort();
    }
});
