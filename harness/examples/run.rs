//! Runs TeX source given on the command line (escapes \n for newline) in the harness VM and prints the tokens delivered.
//! usage: cargo run --release --example run -- 'source with \\n for newlines'
use vp::texvm::{self, VmOptions};
fn main() {
    vp::engine::panics::install_hook();
    for src in std::env::args().skip(1) {
        let text = src.replace("\\n", "\n");
        let mut o = VmOptions::default();
        o.count_and_continue = true;
        let r = texvm::run_program(&o, &text);
        println!("{:?}\n  => {:?}  error={:?}", text, texvm::render(&r.out), r.error);
    }
}
