use vp::engine::{drive, Args, Tier};

fn main() {
    let argv: Vec<String> = std::env::args().collect();
    if argv.len() < 2 {
        eprintln!("usage: vp <Cxx> [--tier quick|thorough] [--replay FILE] [--seed N]");
        std::process::exit(2);
    }
    let prop = argv[1].clone();
    let mut tier = match std::env::var("VERIF_TIER").ok().as_deref() {
        Some("thorough") => Tier::Thorough,
        _ => Tier::Quick,
    };
    let mut seed: u64 = std::env::var("VERIF_SEED").ok().and_then(|s| s.trim().parse::<i128>().ok()).map(|v| v as u64).unwrap_or(0);
    let mut replay = None;
    let mut i = 2;
    while i < argv.len() {
        match argv[i].as_str() {
            "--tier" => {
                i += 1;
                tier = match argv.get(i).map(|s| s.as_str()) {
                    Some("quick") => Tier::Quick,
                    Some("thorough") => Tier::Thorough,
                    other => {
                        eprintln!("bad tier {:?}", other);
                        std::process::exit(2);
                    }
                };
            }
            "--replay" => {
                i += 1;
                replay = argv.get(i).cloned();
            }
            "--seed" => {
                i += 1;
                seed = argv.get(i).and_then(|s| s.parse::<i128>().ok()).map(|v| v as u64).unwrap_or(0);
            }
            other => {
                eprintln!("unknown argument {other}");
                std::process::exit(2);
            }
        }
        i += 1;
    }
    let verif_dir = std::env::var("VP_VERIF_DIR").map(std::path::PathBuf::from).unwrap_or_else(|_| std::path::PathBuf::from("/verif"));
    let args = Args { prop: prop.clone(), tier, seed, replay, verif_dir };
    for (name, f) in vp::props::table() {
        if name == prop {
            let code = drive(name, f, &args);
            std::process::exit(code);
        }
    }
    eprintln!("unknown property {prop}");
    std::process::exit(2);
}
