//! Harness-owned Texlang state: same components as `StdLibState`, plus an in-memory file
//! system, a scripted terminal, output sinks, token-exact output capture, harness probes
//! and an expansion budget.

use std::cell::{Cell, RefCell};
use std::collections::HashMap;
use std::rc::Rc;
use texlang::command;
use texlang::prelude as txl;
use texlang::token::{self, Token, Value};
use texlang::traits::*;
use texlang::types::{self, CatCode};
use texlang::vm::{self, implement_has_component};
use texlang_common::{InMemoryFileSystem, MockTerminalIn};
use texlang_stdlib::*;

#[derive(Clone, Debug, PartialEq, Eq, serde::Serialize, serde::Deserialize)]
pub enum OutTok {
    /// character and category code number
    Ch(char, u8),
    /// control sequence name (without escape char) — unexpanded command or captured token
    Cs(String),
    /// active character
    Active(char),
    /// probe output: (probe id, value)
    Probe(i32, i64),
}

pub fn render(toks: &[OutTok]) -> String {
    let mut s = String::new();
    for t in toks {
        match t {
            OutTok::Ch(c, cat) => {
                if *cat == 11 || *cat == 12 {
                    s.push(*c);
                } else if *cat == 10 {
                    s.push('␣');
                } else {
                    s.push_str(&format!("{}/{}", c, cat));
                }
            }
            OutTok::Cs(n) => {
                s.push('\\');
                s.push_str(n);
                s.push(' ');
            }
            OutTok::Active(c) => {
                s.push_str(&format!("{}/13", c));
            }
            OutTok::Probe(i, v) => s.push_str(&format!("<probe{}={}>", i, v)),
        }
    }
    s
}

/// Plain text of character tokens (letters/others/spaces), ignoring category codes.
pub fn plain(toks: &[OutTok]) -> String {
    let mut s = String::new();
    for t in toks {
        match t {
            OutTok::Ch(c, _) => s.push(*c),
            OutTok::Cs(n) => {
                s.push('\\');
                s.push_str(n);
                s.push(' ');
            }
            OutTok::Active(c) => s.push(*c),
            OutTok::Probe(i, v) => s.push_str(&format!("<probe{}={}>", i, v)),
        }
    }
    s
}

#[derive(Default)]
pub struct HState {
    pub alloc: alloc::Component,
    pub codes_cat_code: codes::Component<CatCode>,
    pub codes_math_code: codes::Component<types::MathCode>,
    pub conditional: conditional::Component,
    pub end_line_char: endlinechar::Component,
    pub error_mode: errormode::Component,
    pub input: input::Component<16>,
    pub job: job::Component,
    pub prefix: prefix::Component,
    pub registers_i32: registers::Component<i32, 32768>,
    pub registers_scaled: registers::Component<common::Scaled, 32768>,
    pub registers_glue: registers::Component<common::Glue, 32768>,
    pub registers_token_list: registers::Component<Vec<token::Token>, 256>,
    pub repl: repl::Component,
    pub script: script::Component,
    pub time: time::Component,
    pub tracing_macros: tracingmacros::Component,

    pub fs: Option<Rc<RefCell<InMemoryFileSystem>>>,
    pub out_sink: Option<Rc<RefCell<Vec<u8>>>>,
    pub log_sink: Option<Rc<RefCell<Vec<u8>>>>,
    pub steps: Cell<u64>,
    pub budget: Cell<u64>,
    pub out: Vec<OutTok>,
    pub recovered_errors: Cell<u64>,
    /// When true, recoverable errors are counted and execution continues regardless of mode.
    pub count_and_continue: bool,
    pub recovered_titles: RefCell<Vec<String>>,
    /// control sequences of the harness fonts 0..=3 (\\nullfont, \\vpfa, \\vpfb, \\vpfc)
    pub font_refs: Vec<Option<token::CommandRef>>,

    // ---- additions for C09 (all default to "off": no behaviour change for other users) ----
    /// number of calls of `variable_assignment_scope_hook` (one per started assignment-like command)
    pub assignments: Cell<u64>,
    /// when set, every recoverable error is handed to this function before the interaction mode
    /// decides about it; the first `Err` is kept in `hook_failure`
    pub recovered_check: Option<fn(&texlang::error::TracedTexError) -> Result<(), String>>,
    pub hook_failure: RefCell<Option<String>>,
    /// when true the titles of recovered errors are recorded in `recovered_titles` in every mode
    pub record_titles: bool,
    /// when true `post_macro_expansion_hook` performs the computations of
    /// `texlang_stdlib::tracingmacros::hook` (which prints with `println!` and cannot be captured)
    /// and adds the length of what would be printed to `trace_macro_bytes`
    pub trace_macros: bool,
    pub trace_macro_bytes: Cell<u64>,
    /// recoverable errors since the last expansion tick; more than `no_progress_limit` (if non-zero)
    /// sets `no_progress` and cuts the run: an endless recovery loop that expands nothing
    pub errors_since_tick: Cell<u64>,
    pub no_progress_limit: u64,
    pub no_progress: Option<Rc<Cell<bool>>>,

    // ---- additions for C06 (None = Texlang's default font quantities, 12pt each) ----
    /// overrides of the font quantities behind the units `em` and `ex`
    pub em_width: Option<common::Scaled>,
    pub ex_height: Option<common::Scaled>,
    /// the font the VM last announced through `enable_font_hook` (0 = \nullfont, the initial font)
    pub hook_font: i64,
}

impl HState {
    fn tick(&self) {
        let n = self.steps.get() + 1;
        self.steps.set(n);
        self.errors_since_tick.set(0);
        let b = self.budget.get();
        if b != 0 && n > b {
            crate::engine::panics::budget_exceeded();
        }
    }
}

impl TexlangState for HState {
    #[inline]
    fn cat_code(&self, c: char) -> CatCode {
        codes::cat_code(self, c)
    }
    #[inline]
    fn end_line_char(&self) -> Option<char> {
        endlinechar::end_line_char(self)
    }
    fn enable_font_hook(&mut self, font: types::Font) {
        self.hook_font = font.0 as i64;
    }
    fn em_width(&self) -> common::Scaled {
        self.em_width.unwrap_or(common::Scaled::ONE * 12)
    }
    fn ex_height(&self) -> common::Scaled {
        self.ex_height.unwrap_or(common::Scaled::ONE * 12)
    }
    #[inline]
    fn post_macro_expansion_hook(
        token: Token,
        input: &vm::ExpansionInput<Self>,
        tex_macro: &texlang::texmacro::Macro,
        arguments: &[&[Token]],
        reversed_expansion: &[Token],
    ) {
        input.state().tick();
        // texlang_stdlib::tracingmacros::hook prints to the real stdout with println!; the harness
        // does not call it (what it prints is not part of any property).
        // exactly when the shipped hook computes: \tracingmacros > 0 (the component's field is private;
        // its serialised form is {"tracing_macros": n}; if that ever changes the computation always runs)
        if input.state().trace_macros
            && serde_json::to_value(&input.state().tracing_macros).ok().and_then(|v| v.get("tracing_macros").and_then(|x| x.as_i64())).unwrap_or(1) > 0
        {
            // the same computations as tracingmacros::hook, written to a counter instead of stdout
            use texlang::token::write_tokens;
            let mut n = 0usize;
            let trace = input.vm().trace(token);
            n += trace.value.len();
            let interner = input.vm().cs_name_interner();
            for argument in arguments.iter() {
                n += write_tokens(*argument, interner).len();
            }
            for replacement in tex_macro.replacements() {
                match replacement {
                    texlang::texmacro::Replacement::Tokens(tokens) => n += write_tokens(tokens.iter().rev(), interner).len(),
                    texlang::texmacro::Replacement::Parameter(i) => n += (i + 1).to_string().len(),
                }
            }
            n += write_tokens(reversed_expansion.iter().rev(), interner).len();
            let st = input.state();
            st.trace_macro_bytes.set(st.trace_macro_bytes.get() + n as u64);
        }
        let _ = (token, tex_macro, arguments, reversed_expansion);
    }
    #[inline]
    fn expansion_override_hook(
        token: Token,
        input: &mut vm::ExpansionInput<Self>,
        tag: Option<command::Tag>,
    ) -> txl::Result<Option<Token>> {
        input.state().tick();
        expansion::noexpand_hook(token, input, tag)
    }
    #[inline]
    fn variable_assignment_scope_hook(state: &mut Self) -> texcraft_stdext::collections::groupingmap::Scope {
        state.assignments.set(state.assignments.get() + 1);
        prefix::variable_assignment_scope_hook(state)
    }
    fn recoverable_error_hook(
        &self,
        recoverable_error: texlang::error::TracedTexError,
    ) -> Result<(), Box<dyn texlang::error::TexError>> {
        self.recovered_errors.set(self.recovered_errors.get() + 1);
        if let Some(check) = self.recovered_check {
            if let Err(m) = check(&recoverable_error) {
                let mut slot = self.hook_failure.borrow_mut();
                if slot.is_none() {
                    *slot = Some(m);
                }
            }
        }
        if self.record_titles && !self.count_and_continue {
            self.recovered_titles.borrow_mut().push(recoverable_error.error.title());
        }
        if self.no_progress_limit != 0 {
            let k = self.errors_since_tick.get() + 1;
            self.errors_since_tick.set(k);
            if k > self.no_progress_limit {
                if let Some(f) = &self.no_progress {
                    f.set(true);
                }
                crate::engine::panics::budget_exceeded();
            }
        }
        if self.count_and_continue {
            self.recovered_titles.borrow_mut().push(recoverable_error.error.title());
            if self.recovered_errors.get() > 1000 {
                crate::engine::panics::budget_exceeded();
            }
            return Ok(());
        }
        errormode::recoverable_error_hook(self, recoverable_error)
    }
}

impl the::TheCompatible for HState {
    fn get_command_ref_for_font(&self, font: types::Font) -> Option<token::CommandRef> {
        self.font_refs.get(font.0 as usize).copied().flatten()
    }
}

implement_has_component![HState{
    alloc: alloc::Component,
    codes_cat_code: codes::Component<CatCode>,
    codes_math_code: codes::Component<types::MathCode>,
    conditional: conditional::Component,
    end_line_char: endlinechar::Component,
    error_mode: errormode::Component,
    input: input::Component<16>,
    job: job::Component,
    prefix: prefix::Component,
    registers_i32: registers::Component<i32, 32768>,
    registers_scaled: registers::Component<common::Scaled, 32768>,
    registers_glue: registers::Component<common::Glue, 32768>,
    registers_token_list: registers::Component<Vec<token::Token>, 256>,
    repl: repl::Component,
    script: script::Component,
    time: time::Component,
    tracing_macros: tracingmacros::Component,
}];

impl texlang_common::HasLogging for HState {
    fn terminal_out(&self) -> Rc<RefCell<dyn std::io::Write>> {
        match &self.out_sink {
            Some(s) => s.clone(),
            None => Rc::new(RefCell::new(std::io::sink())),
        }
    }
    fn log_file(&self) -> Rc<RefCell<dyn std::io::Write>> {
        match &self.log_sink {
            Some(s) => s.clone(),
            None => Rc::new(RefCell::new(std::io::sink())),
        }
    }
}
impl texlang_common::HasFileSystem for HState {
    fn file_system(&self) -> Rc<RefCell<dyn texlang_common::FileSystem>> {
        match &self.fs {
            Some(f) => f.clone(),
            None => Rc::new(RefCell::new(InMemoryFileSystem::default())),
        }
    }
}
impl texlang_common::HasTerminalIn for HState {
    fn terminal_in(&self) -> Rc<RefCell<dyn texlang_common::TerminalIn>> {
        self.error_mode.terminal_in()
    }
}

/// Output-capturing handlers.
pub struct Capture;

fn cat_num(v: &Value) -> u8 {
    match v {
        Value::BeginGroup(_) => 1,
        Value::EndGroup(_) => 2,
        Value::MathShift(_) => 3,
        Value::AlignmentTab(_) => 4,
        Value::Parameter(_) => 6,
        Value::Superscript(_) => 7,
        Value::Subscript(_) => 8,
        Value::Space(_) => 10,
        Value::Letter(_) => 11,
        Value::Other(_) => 12,
        Value::CommandRef(_) => 13,
    }
}

pub fn tok_to_out<S>(vm: &vm::VM<S>, t: Token) -> OutTok {
    match t.value() {
        Value::CommandRef(token::CommandRef::ControlSequence(name)) => {
            OutTok::Cs(vm.cs_name_interner().resolve(name).unwrap_or("?").to_string())
        }
        Value::CommandRef(token::CommandRef::ActiveCharacter(c)) => OutTok::Active(c),
        v => OutTok::Ch(v.char().unwrap(), cat_num(&v)),
    }
}

impl vm::Handlers<HState> for Capture {
    fn character_handler(input: &mut vm::ExecutionInput<HState>, token: Token, _c: char) -> txl::Result<()> {
        let o = tok_to_out(input.vm(), token);
        input.state_mut().out.push(o);
        Ok(())
    }
    fn unexpanded_expansion_command(input: &mut vm::ExecutionInput<HState>, token: Token) -> txl::Result<()> {
        let o = tok_to_out(input.vm(), token);
        input.state_mut().out.push(o);
        Ok(())
    }
}

/// `\vpcapture`: read unexpanded tokens up to `\vpstop` and record them all.
fn vpcapture_fn(_t: Token, input: &mut vm::ExecutionInput<HState>) -> txl::Result<()> {
    loop {
        let t = match input.unexpanded().next()? {
            None => return Ok(()),
            Some(t) => t,
        };
        let o = tok_to_out(input.vm(), t);
        if let OutTok::Cs(n) = &o {
            if n == "vpstop" {
                return Ok(());
            }
        }
        input.state_mut().out.push(o);
    }
}

/// `\vpfont`: record the current font.
fn vpfont_fn(_t: Token, input: &mut vm::ExecutionInput<HState>) -> txl::Result<()> {
    let f = input.vm().current_font();
    input.state_mut().out.push(OutTok::Probe(0, f.0 as i64));
    // the state must have been told about every change of the current font (selection and restore)
    let h = input.state().hook_font;
    if h != f.0 as i64 {
        input.state_mut().out.push(OutTok::Probe(9, h));
    }
    Ok(())
}

pub struct VmOptions {
    pub budget: u64,
    pub count_and_continue: bool,
    pub simple_expandafter: bool,
    pub files: Vec<(String, String)>,
    pub terminal: Vec<String>,
    // ---- additions for C09 (defaults keep the previous behaviour) ----
    /// `vm.working_directory = None` (what `VM::new` produces when `current_dir()` fails, e.g. wasm)
    pub no_working_directory: bool,
    /// terminal that behaves like the real `std::io::Stdin` implementation of `TerminalIn`: after the
    /// scripted lines every read returns `Ok(())` with nothing appended (end of file); after
    /// `terminal_read_cap` such reads the flag `terminal_spin` is set and the read fails
    pub stdin_like_terminal: bool,
    pub terminal_read_cap: u64,
    pub terminal_spin: Option<Rc<Cell<bool>>>,
    /// the two integer parameters `\dumpFormat`, `\dumpValidate` stay installed
    pub dump_params: bool,
    /// additionally install what the `texcraft` binary installs: `\par`, `\newline`, `\\`, and the
    /// REPL commands `\exit`, `\help`, `\doc`
    pub script_commands: bool,
    pub trace_macros: bool,
    pub record_titles: bool,
    pub recovered_check: Option<fn(&texlang::error::TracedTexError) -> Result<(), String>>,
    pub no_progress_limit: u64,
    pub no_progress: Option<Rc<Cell<bool>>>,
}

impl Default for VmOptions {
    fn default() -> Self {
        VmOptions {
            budget: 20_000,
            count_and_continue: false,
            simple_expandafter: false,
            files: vec![],
            terminal: vec![],
            no_working_directory: false,
            stdin_like_terminal: false,
            terminal_read_cap: 64,
            terminal_spin: None,
            dump_params: false,
            script_commands: false,
            trace_macros: false,
            record_titles: false,
            recovered_check: None,
            no_progress_limit: 0,
            no_progress: None,
        }
    }
}

/// Terminal double with the end-of-file behaviour of the shipped `impl TerminalIn for std::io::Stdin`
/// (`Stdin::read_line` returns `Ok(0)` at end of file: `Ok(())`, nothing appended).
pub struct StdinLikeTerminal {
    pub lines: Vec<String>,
    pub next: usize,
    pub eof_reads: u64,
    pub cap: u64,
    pub spin: Option<Rc<Cell<bool>>>,
}

impl texlang_common::TerminalIn for StdinLikeTerminal {
    fn read_line(&mut self, _: Option<&str>, buffer: &mut String) -> std::io::Result<()> {
        if let Some(l) = self.lines.get(self.next) {
            buffer.push_str(l);
            self.next += 1;
            return Ok(());
        }
        self.eof_reads += 1;
        if self.eof_reads > self.cap {
            if let Some(f) = &self.spin {
                f.set(true);
            }
            return Err(std::io::Error::new(std::io::ErrorKind::Other, "vp: terminal read cap reached at end of file"));
        }
        Ok(())
    }
}

/// Built-ins selected by the options (superset of `built_ins`).
pub fn built_ins_for(opts: &VmOptions) -> HashMap<&'static str, command::BuiltIn<HState>> {
    let mut m = built_ins(opts.simple_expandafter);
    if opts.dump_params {
        m.insert("dumpFormat", job::get_dumpformat());
        m.insert("dumpValidate", job::get_dumpvalidate());
    }
    if opts.script_commands {
        m.insert("par", script::get_par());
        m.insert("newline", script::get_newline());
        m.insert("\\", command::Command::CharacterTokenAlias(Value::Other('\\')).into());
        m.insert("exit", repl::get_exit());
        m.insert("help", repl::get_help());
        m.insert("doc", repl::get_doc());
    }
    m
}

pub fn built_ins(simple_expandafter: bool) -> HashMap<&'static str, command::BuiltIn<HState>> {
    let mut m = built_in_commands::<HState>();
    m.remove("sleep");
    m.remove("dumpFormat");
    m.remove("dumpValidate");
    if simple_expandafter {
        m.insert("expandafter", expansion::get_expandafter_simple());
    } else {
        // explicit, so that the comparison stays optimised-vs-simple whatever the stdlib default is
        m.insert("expandafter", expansion::get_expandafter_optimized());
    }
    m.insert("vpcapture", command::BuiltIn::new_execution(vpcapture_fn));
    m.insert("vpfont", command::BuiltIn::new_execution(vpfont_fn));
    m.insert("nullfont", command::BuiltIn::new_font(types::Font::NULL_FONT));
    m.insert("vpfa", command::BuiltIn::new_font(types::Font(1)));
    m.insert("vpfb", command::BuiltIn::new_font(types::Font(2)));
    m.insert("vpfc", command::BuiltIn::new_font(types::Font(3)));
    m
}

pub fn new_vm(opts: &VmOptions) -> Box<vm::VM<HState>> {
    let mut vm = Box::new(vm::VM::<HState>::new_with_built_in_commands(built_ins_for(opts)));
    let wd = std::path::PathBuf::from("/vpwd");
    vm.working_directory = if opts.no_working_directory { None } else { Some(wd.clone()) };
    // texlang-stdlib's default feature `time` initialises \time \day \month \year from the wall clock:
    // pin them so that a run is a function of code and seed only.
    vm.state.time = time::Component::new_with_values(754, 26, 9, 2026);
    let mut fs = InMemoryFileSystem::new(&wd);
    for (name, content) in &opts.files {
        fs.add_string_file(name, content);
    }
    vm.state.fs = Some(Rc::new(RefCell::new(fs)));
    let mut term = MockTerminalIn::default();
    for l in &opts.terminal {
        term.add_line(l.clone());
    }
    if opts.stdin_like_terminal {
        let t = StdinLikeTerminal { lines: opts.terminal.clone(), next: 0, eof_reads: 0, cap: opts.terminal_read_cap, spin: opts.terminal_spin.clone() };
        vm.state.error_mode.set_default_terminal(Rc::new(RefCell::new(t)));
    } else {
        vm.state.error_mode.set_default_terminal(Rc::new(RefCell::new(term)));
    }
    vm.state.trace_macros = opts.trace_macros;
    vm.state.record_titles = opts.record_titles;
    vm.state.recovered_check = opts.recovered_check;
    vm.state.no_progress_limit = opts.no_progress_limit;
    vm.state.no_progress = opts.no_progress.clone();
    vm.state.out_sink = Some(Rc::new(RefCell::new(vec![])));
    vm.state.log_sink = Some(Rc::new(RefCell::new(vec![])));
    for name in ["nullfont", "vpfa", "vpfb", "vpfc"] {
        let cs = vm.cs_name_interner_mut().get_or_intern(name);
        vm.state.font_refs.push(Some(token::CommandRef::ControlSequence(cs)));
    }
    vm.state.budget.set(opts.budget);
    vm.state.count_and_continue = opts.count_and_continue;
    vm
}

#[derive(Debug, Clone)]
pub struct RunResult {
    pub out: Vec<OutTok>,
    /// `None` on success, otherwise the error title.
    pub error: Option<String>,
    pub error_display: Option<String>,
    pub recovered: u64,
    pub recovered_titles: Vec<String>,
    pub steps: u64,
}

/// Run `source` in the VM (pushes it as a new source). Panics propagate.
pub fn run_source(vm: &mut vm::VM<HState>, name: &str, source: &str) -> RunResult {
    vm.state.out.clear();
    let before = vm.state.recovered_errors.get();
    vm.state.recovered_titles.borrow_mut().clear();
    if vm.push_source(name.to_string(), source.to_string()).is_err() {
        panic!("push_source failed");
    }
    let r = vm.run::<Capture>();
    let (error, error_display) = match r {
        Ok(()) => (None, None),
        Err(e) => (Some(e.error.title()), Some(format!("{}", e))),
    };
    RunResult {
        out: std::mem::take(&mut vm.state.out),
        error,
        error_display,
        recovered: vm.state.recovered_errors.get() - before,
        recovered_titles: vm.state.recovered_titles.borrow().clone(),
        steps: vm.state.steps.get(),
    }
}

/// One-shot: fresh VM, run, return.
pub fn run_program(opts: &VmOptions, source: &str) -> RunResult {
    let mut vm = new_vm(opts);
    run_source(&mut vm, "input.tex", source)
}
