//! Harness-owned Texlang state: same components as `StdLibState`, plus an in-memory file
//! system, a scripted terminal, output sinks, token-exact output capture, harness probes
//! and an expansion budget.

use std::cell::{Cell, RefCell};
use std::collections::HashMap;
use std::rc::Rc;
use texlang::command;
use texlang::prelude as txl;
use texlang::token::{self, Token, Value};
use texlang::traits::*;
use texlang::types::{self, CatCode};
use texlang::vm::{self, implement_has_component};
use texlang_common::{InMemoryFileSystem, MockTerminalIn};
use texlang_stdlib::*;

#[derive(Clone, Debug, PartialEq, Eq, serde::Serialize, serde::Deserialize)]
pub enum OutTok {
    /// character and category code number
    Ch(char, u8),
    /// control sequence name (without escape char) — unexpanded command or captured token
    Cs(String),
    /// active character
    Active(char),
    /// probe output: (probe id, value)
    Probe(i32, i64),
}

pub fn render(toks: &[OutTok]) -> String {
    let mut s = String::new();
    for t in toks {
        match t {
            OutTok::Ch(c, cat) => {
                if *cat == 11 || *cat == 12 {
                    s.push(*c);
                } else if *cat == 10 {
                    s.push('␣');
                } else {
                    s.push_str(&format!("{}/{}", c, cat));
                }
            }
            OutTok::Cs(n) => {
                s.push('\\');
                s.push_str(n);
                s.push(' ');
            }
            OutTok::Active(c) => {
                s.push_str(&format!("{}/13", c));
            }
            OutTok::Probe(i, v) => s.push_str(&format!("<probe{}={}>", i, v)),
        }
    }
    s
}

/// Plain text of character tokens (letters/others/spaces), ignoring category codes.
pub fn plain(toks: &[OutTok]) -> String {
    let mut s = String::new();
    for t in toks {
        match t {
            OutTok::Ch(c, _) => s.push(*c),
            OutTok::Cs(n) => {
                s.push('\\');
                s.push_str(n);
                s.push(' ');
            }
            OutTok::Active(c) => s.push(*c),
            OutTok::Probe(i, v) => s.push_str(&format!("<probe{}={}>", i, v)),
        }
    }
    s
}

#[derive(Default)]
pub struct HState {
    pub alloc: alloc::Component,
    pub codes_cat_code: codes::Component<CatCode>,
    pub codes_math_code: codes::Component<types::MathCode>,
    pub conditional: conditional::Component,
    pub end_line_char: endlinechar::Component,
    pub error_mode: errormode::Component,
    pub input: input::Component<16>,
    pub job: job::Component,
    pub prefix: prefix::Component,
    pub registers_i32: registers::Component<i32, 32768>,
    pub registers_scaled: registers::Component<common::Scaled, 32768>,
    pub registers_glue: registers::Component<common::Glue, 32768>,
    pub registers_token_list: registers::Component<Vec<token::Token>, 256>,
    pub repl: repl::Component,
    pub script: script::Component,
    pub time: time::Component,
    pub tracing_macros: tracingmacros::Component,

    pub fs: Option<Rc<RefCell<InMemoryFileSystem>>>,
    pub out_sink: Option<Rc<RefCell<Vec<u8>>>>,
    pub log_sink: Option<Rc<RefCell<Vec<u8>>>>,
    pub steps: Cell<u64>,
    pub budget: Cell<u64>,
    pub out: Vec<OutTok>,
    pub recovered_errors: Cell<u64>,
    /// When true, recoverable errors are counted and execution continues regardless of mode.
    pub count_and_continue: bool,
    pub recovered_titles: RefCell<Vec<String>>,
    /// control sequences of the harness fonts 0..=3 (\\nullfont, \\vpfa, \\vpfb, \\vpfc)
    pub font_refs: Vec<Option<token::CommandRef>>,
}

impl HState {
    fn tick(&self) {
        let n = self.steps.get() + 1;
        self.steps.set(n);
        let b = self.budget.get();
        if b != 0 && n > b {
            crate::engine::panics::budget_exceeded();
        }
    }
}

impl TexlangState for HState {
    #[inline]
    fn cat_code(&self, c: char) -> CatCode {
        codes::cat_code(self, c)
    }
    #[inline]
    fn end_line_char(&self) -> Option<char> {
        endlinechar::end_line_char(self)
    }
    #[inline]
    fn post_macro_expansion_hook(
        token: Token,
        input: &vm::ExpansionInput<Self>,
        tex_macro: &texlang::texmacro::Macro,
        arguments: &[&[Token]],
        reversed_expansion: &[Token],
    ) {
        input.state().tick();
        // texlang_stdlib::tracingmacros::hook prints to the real stdout with println!; the harness
        // does not call it (what it prints is not part of any property).
        let _ = (token, tex_macro, arguments, reversed_expansion);
    }
    #[inline]
    fn expansion_override_hook(
        token: Token,
        input: &mut vm::ExpansionInput<Self>,
        tag: Option<command::Tag>,
    ) -> txl::Result<Option<Token>> {
        input.state().tick();
        expansion::noexpand_hook(token, input, tag)
    }
    #[inline]
    fn variable_assignment_scope_hook(state: &mut Self) -> texcraft_stdext::collections::groupingmap::Scope {
        prefix::variable_assignment_scope_hook(state)
    }
    fn recoverable_error_hook(
        &self,
        recoverable_error: texlang::error::TracedTexError,
    ) -> Result<(), Box<dyn texlang::error::TexError>> {
        self.recovered_errors.set(self.recovered_errors.get() + 1);
        if self.count_and_continue {
            self.recovered_titles.borrow_mut().push(recoverable_error.error.title());
            if self.recovered_errors.get() > 1000 {
                crate::engine::panics::budget_exceeded();
            }
            return Ok(());
        }
        errormode::recoverable_error_hook(self, recoverable_error)
    }
}

impl the::TheCompatible for HState {
    fn get_command_ref_for_font(&self, font: types::Font) -> Option<token::CommandRef> {
        self.font_refs.get(font.0 as usize).copied().flatten()
    }
}

implement_has_component![HState{
    alloc: alloc::Component,
    codes_cat_code: codes::Component<CatCode>,
    codes_math_code: codes::Component<types::MathCode>,
    conditional: conditional::Component,
    end_line_char: endlinechar::Component,
    error_mode: errormode::Component,
    input: input::Component<16>,
    job: job::Component,
    prefix: prefix::Component,
    registers_i32: registers::Component<i32, 32768>,
    registers_scaled: registers::Component<common::Scaled, 32768>,
    registers_glue: registers::Component<common::Glue, 32768>,
    registers_token_list: registers::Component<Vec<token::Token>, 256>,
    repl: repl::Component,
    script: script::Component,
    time: time::Component,
    tracing_macros: tracingmacros::Component,
}];

impl texlang_common::HasLogging for HState {
    fn terminal_out(&self) -> Rc<RefCell<dyn std::io::Write>> {
        match &self.out_sink {
            Some(s) => s.clone(),
            None => Rc::new(RefCell::new(std::io::sink())),
        }
    }
    fn log_file(&self) -> Rc<RefCell<dyn std::io::Write>> {
        match &self.log_sink {
            Some(s) => s.clone(),
            None => Rc::new(RefCell::new(std::io::sink())),
        }
    }
}
impl texlang_common::HasFileSystem for HState {
    fn file_system(&self) -> Rc<RefCell<dyn texlang_common::FileSystem>> {
        match &self.fs {
            Some(f) => f.clone(),
            None => Rc::new(RefCell::new(InMemoryFileSystem::default())),
        }
    }
}
impl texlang_common::HasTerminalIn for HState {
    fn terminal_in(&self) -> Rc<RefCell<dyn texlang_common::TerminalIn>> {
        self.error_mode.terminal_in()
    }
}

/// Output-capturing handlers.
pub struct Capture;

fn cat_num(v: &Value) -> u8 {
    match v {
        Value::BeginGroup(_) => 1,
        Value::EndGroup(_) => 2,
        Value::MathShift(_) => 3,
        Value::AlignmentTab(_) => 4,
        Value::Parameter(_) => 6,
        Value::Superscript(_) => 7,
        Value::Subscript(_) => 8,
        Value::Space(_) => 10,
        Value::Letter(_) => 11,
        Value::Other(_) => 12,
        Value::CommandRef(_) => 13,
    }
}

pub fn tok_to_out<S>(vm: &vm::VM<S>, t: Token) -> OutTok {
    match t.value() {
        Value::CommandRef(token::CommandRef::ControlSequence(name)) => {
            OutTok::Cs(vm.cs_name_interner().resolve(name).unwrap_or("?").to_string())
        }
        Value::CommandRef(token::CommandRef::ActiveCharacter(c)) => OutTok::Active(c),
        v => OutTok::Ch(v.char().unwrap(), cat_num(&v)),
    }
}

impl vm::Handlers<HState> for Capture {
    fn character_handler(input: &mut vm::ExecutionInput<HState>, token: Token, _c: char) -> txl::Result<()> {
        let o = tok_to_out(input.vm(), token);
        input.state_mut().out.push(o);
        Ok(())
    }
    fn unexpanded_expansion_command(input: &mut vm::ExecutionInput<HState>, token: Token) -> txl::Result<()> {
        let o = tok_to_out(input.vm(), token);
        input.state_mut().out.push(o);
        Ok(())
    }
}

/// `\vpcapture`: read unexpanded tokens up to `\vpstop` and record them all.
fn vpcapture_fn(_t: Token, input: &mut vm::ExecutionInput<HState>) -> txl::Result<()> {
    loop {
        let t = match input.unexpanded().next()? {
            None => return Ok(()),
            Some(t) => t,
        };
        let o = tok_to_out(input.vm(), t);
        if let OutTok::Cs(n) = &o {
            if n == "vpstop" {
                return Ok(());
            }
        }
        input.state_mut().out.push(o);
    }
}

/// `\vpfont`: record the current font.
fn vpfont_fn(_t: Token, input: &mut vm::ExecutionInput<HState>) -> txl::Result<()> {
    let f = input.vm().current_font();
    input.state_mut().out.push(OutTok::Probe(0, f.0 as i64));
    Ok(())
}

pub struct VmOptions {
    pub budget: u64,
    pub count_and_continue: bool,
    pub simple_expandafter: bool,
    pub files: Vec<(String, String)>,
    pub terminal: Vec<String>,
}

impl Default for VmOptions {
    fn default() -> Self {
        VmOptions { budget: 20_000, count_and_continue: false, simple_expandafter: false, files: vec![], terminal: vec![] }
    }
}

pub fn built_ins(simple_expandafter: bool) -> HashMap<&'static str, command::BuiltIn<HState>> {
    let mut m = built_in_commands::<HState>();
    m.remove("sleep");
    m.remove("dumpFormat");
    m.remove("dumpValidate");
    if simple_expandafter {
        m.insert("expandafter", expansion::get_expandafter_simple());
    }
    m.insert("vpcapture", command::BuiltIn::new_execution(vpcapture_fn));
    m.insert("vpfont", command::BuiltIn::new_execution(vpfont_fn));
    m.insert("nullfont", command::BuiltIn::new_font(types::Font::NULL_FONT));
    m.insert("vpfa", command::BuiltIn::new_font(types::Font(1)));
    m.insert("vpfb", command::BuiltIn::new_font(types::Font(2)));
    m.insert("vpfc", command::BuiltIn::new_font(types::Font(3)));
    m
}

pub fn new_vm(opts: &VmOptions) -> Box<vm::VM<HState>> {
    let mut vm = Box::new(vm::VM::<HState>::new_with_built_in_commands(built_ins(opts.simple_expandafter)));
    let wd = std::path::PathBuf::from("/vpwd");
    vm.working_directory = Some(wd.clone());
    let mut fs = InMemoryFileSystem::new(&wd);
    for (name, content) in &opts.files {
        fs.add_string_file(name, content);
    }
    vm.state.fs = Some(Rc::new(RefCell::new(fs)));
    let mut term = MockTerminalIn::default();
    for l in &opts.terminal {
        term.add_line(l.clone());
    }
    vm.state.error_mode.set_default_terminal(Rc::new(RefCell::new(term)));
    vm.state.out_sink = Some(Rc::new(RefCell::new(vec![])));
    vm.state.log_sink = Some(Rc::new(RefCell::new(vec![])));
    for name in ["nullfont", "vpfa", "vpfb", "vpfc"] {
        let cs = vm.cs_name_interner_mut().get_or_intern(name);
        vm.state.font_refs.push(Some(token::CommandRef::ControlSequence(cs)));
    }
    vm.state.budget.set(opts.budget);
    vm.state.count_and_continue = opts.count_and_continue;
    vm
}

#[derive(Debug, Clone)]
pub struct RunResult {
    pub out: Vec<OutTok>,
    /// `None` on success, otherwise the error title.
    pub error: Option<String>,
    pub error_display: Option<String>,
    pub recovered: u64,
    pub recovered_titles: Vec<String>,
    pub steps: u64,
}

/// Run `source` in the VM (pushes it as a new source). Panics propagate.
pub fn run_source(vm: &mut vm::VM<HState>, name: &str, source: &str) -> RunResult {
    vm.state.out.clear();
    let before = vm.state.recovered_errors.get();
    vm.state.recovered_titles.borrow_mut().clear();
    if vm.push_source(name.to_string(), source.to_string()).is_err() {
        panic!("push_source failed");
    }
    let r = vm.run::<Capture>();
    let (error, error_display) = match r {
        Ok(()) => (None, None),
        Err(e) => (Some(e.error.title()), Some(format!("{}", e))),
    };
    RunResult {
        out: std::mem::take(&mut vm.state.out),
        error,
        error_display,
        recovered: vm.state.recovered_errors.get() - before,
        recovered_titles: vm.state.recovered_titles.borrow().clone(),
        steps: vm.state.steps.get(),
    }
}

/// One-shot: fresh VM, run, return.
pub fn run_program(opts: &VmOptions, source: &str) -> RunResult {
    let mut vm = new_vm(opts);
    run_source(&mut vm, "input.tex", source)
}
