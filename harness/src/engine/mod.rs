//! Engine shared by every property: tiers, seeds, worker pool, proptest driver,
//! exhaustive enumeration driver, replay files, known findings, panic capture, evidence.

pub mod panics;

use proptest::strategy::Strategy;
use proptest::test_runner::{Config, RngAlgorithm, RngSeed, TestCaseError, TestError, TestRunner};
use serde::{de::DeserializeOwned, Serialize};
use std::collections::{BTreeMap, HashSet};
use std::fmt::Debug;
use std::path::PathBuf;
use std::sync::atomic::{AtomicBool, AtomicU64, Ordering};
use std::sync::Mutex;

pub const WORKERS: usize = 16;
pub const STACK_BYTES: usize = 1 << 30;

#[derive(Clone, Copy, PartialEq, Eq, Debug)]
pub enum Tier {
    Quick,
    Thorough,
}

impl Tier {
    pub fn pick<T>(self, quick: T, thorough: T) -> T {
        match self {
            Tier::Quick => quick,
            Tier::Thorough => thorough,
        }
    }
    pub fn name(self) -> &'static str {
        self.pick("quick", "thorough")
    }
}

/// Outcome of one case.
#[derive(Debug, Clone)]
pub enum Verdict {
    Pass { nontrivial: bool },
    Skip(&'static str),
    /// The case fails, but exactly in the way a listed known finding fails.
    Known(String),
    Fail(String),
}

impl Verdict {
    pub fn pass(nontrivial: bool) -> Verdict {
        Verdict::Pass { nontrivial }
    }
}

/// Per-case scratch area the oracle may write to.
#[derive(Default)]
pub struct Case {
    pub classes: Vec<&'static str>,
    pub note: Option<String>,
    /// Set by the engine: true when this evaluation is a replay (strict mode).
    pub replay: bool,
}

impl Case {
    pub fn class(&mut self, c: &'static str) {
        self.classes.push(c);
    }
    pub fn class_if(&mut self, cond: bool, c: &'static str) {
        if cond {
            self.classes.push(c);
        }
    }
}

#[derive(Default, Clone)]
pub struct SubStats {
    pub evaluations: u64,
    pub nontrivial: u64,
    pub nontrivial_keys: HashSet<u64>,
    pub classes: BTreeMap<&'static str, u64>,
    pub skipped: BTreeMap<&'static str, u64>,
    pub known_hits: BTreeMap<String, u64>,
    pub samples: Vec<String>,
    pub exhaustive: bool,
    pub extra: BTreeMap<String, serde_json::Value>,
}

impl SubStats {
    fn merge(&mut self, o: SubStats) {
        self.evaluations += o.evaluations;
        self.nontrivial += o.nontrivial;
        self.nontrivial_keys.extend(o.nontrivial_keys);
        for (k, v) in o.classes {
            *self.classes.entry(k).or_default() += v;
        }
        for (k, v) in o.skipped {
            *self.skipped.entry(k).or_default() += v;
        }
        for (k, v) in o.known_hits {
            *self.known_hits.entry(k).or_default() += v;
        }
        for s in o.samples {
            if self.samples.len() < 6 {
                self.samples.push(s);
            }
        }
    }
}

#[derive(Clone, Debug)]
pub struct Finding {
    pub id: String,
    pub sig: String,
    pub witness: Option<String>,
    pub what: String,
}

#[derive(Clone, Debug)]
pub struct Failure {
    pub sub: String,
    pub msg: String,
    pub replay_path: String,
}

pub enum Mode {
    Generate,
    /// Run exactly one stored case of sub-check `sub`.
    Replay {
        sub: String,
        case: serde_json::Value,
    },
}

pub struct Ctx {
    pub prop: &'static str,
    pub tier: Tier,
    pub seed: u64,
    pub mode: Mode,
    pub verif_dir: PathBuf,
    pub findings: Vec<Finding>,
    pub stats: Mutex<BTreeMap<String, SubStats>>,
    pub failures: Mutex<Vec<Failure>>,
    /// Verdicts observed in replay mode.
    pub replay_verdicts: Mutex<Vec<(String, Verdict)>>,
    pub assumptions: Mutex<Vec<String>>,
    pub rules: Mutex<Vec<String>>,
    pub stop: AtomicBool,
}

impl Ctx {
    /// True when `sig` is a listed known finding for this property.
    pub fn known(&self, sig: &str) -> bool {
        self.findings.iter().any(|f| f.sig == sig)
    }
    pub fn known_flags(&self) -> Vec<String> {
        self.findings
            .iter()
            .filter_map(|f| f.sig.strip_prefix("flag:").map(|s| s.to_string()))
            .collect()
    }
    pub fn assume(&self, s: &str) {
        let mut a = self.assumptions.lock().unwrap();
        if !a.iter().any(|x| x == s) {
            a.push(s.to_string());
        }
    }
    pub fn rule(&self, s: &str) {
        let mut a = self.rules.lock().unwrap();
        if !a.iter().any(|x| x == s) {
            a.push(s.to_string());
        }
    }
    pub fn extra(&self, sub: &str, key: &str, v: serde_json::Value) {
        let mut st = self.stats.lock().unwrap();
        st.entry(sub.to_string()).or_default().extra.insert(key.to_string(), v);
    }
    pub fn fail_external<T: Serialize>(&self, sub: &str, case: &T, msg: &str) {
        self.record_failure(sub, case, msg)
    }
    /// Add externally counted statistics (cases distinct by construction).
    pub fn add_stats(&self, sub: &str, evaluations: u64, nontrivial: u64, samples: Vec<String>) {
        let mut s = SubStats::default();
        s.evaluations = evaluations;
        s.nontrivial = nontrivial;
        s.samples = samples;
        self.merge_stats(sub, s);
        let mut st = self.stats.lock().unwrap();
        st.entry(sub.to_string()).or_default().extra.insert("distinct_by_construction".into(), serde_json::json!(true));
    }
    pub fn is_generate(&self) -> bool {
        matches!(self.mode, Mode::Generate)
    }
    fn wants(&self, sub: &str) -> Option<Option<serde_json::Value>> {
        match &self.mode {
            Mode::Generate => Some(None),
            Mode::Replay { sub: s, case } => {
                if s == sub {
                    Some(Some(case.clone()))
                } else {
                    None
                }
            }
        }
    }
    fn merge_stats(&self, sub: &str, s: SubStats) {
        let mut st = self.stats.lock().unwrap();
        st.entry(sub.to_string()).or_default().merge(s);
    }
    fn record_failure<T: Serialize>(&self, sub: &str, case: &T, msg: &str) {
        let v = serde_json::to_value(case).unwrap_or(serde_json::Value::Null);
        let body = serde_json::json!({
            "property": self.prop, "sub": sub, "seed": self.seed, "tier": self.tier.name(),
            "message": msg, "case": v,
        });
        let text = serde_json::to_string_pretty(&body).unwrap();
        let h = fnv64(text.as_bytes());
        let dir = self.verif_dir.join("replays");
        let _ = std::fs::create_dir_all(&dir);
        let path = dir.join(format!("{}-{}-{:016x}.json", self.prop, sub, h));
        let _ = std::fs::write(&path, text);
        self.failures.lock().unwrap().push(Failure {
            sub: sub.to_string(),
            msg: msg.to_string(),
            replay_path: path.to_string_lossy().to_string(),
        });
        self.stop.store(true, Ordering::SeqCst);
    }
}

pub fn fnv64(b: &[u8]) -> u64 {
    let mut h: u64 = 0xcbf29ce484222325;
    for &x in b {
        h ^= x as u64;
        h = h.wrapping_mul(0x100000001b3);
    }
    h
}

pub fn mix(a: u64, b: u64) -> u64 {
    let mut z = a ^ b.wrapping_mul(0x9E3779B97F4A7C15).rotate_left(17);
    z = (z ^ (z >> 30)).wrapping_mul(0xBF58476D1CE4E5B9);
    z = (z ^ (z >> 27)).wrapping_mul(0x94D049BB133111EB);
    z ^ (z >> 31)
}

fn seed_bytes(seed: u64, prop: &str, sub: &str, worker: usize) -> [u8; 32] {
    let mut s = mix(seed, fnv64(prop.as_bytes()));
    s = mix(s, fnv64(sub.as_bytes()));
    s = mix(s, worker as u64 + 1);
    let mut out = [0u8; 32];
    for i in 0..4 {
        s = mix(s, i as u64 + 0x1234);
        out[i * 8..i * 8 + 8].copy_from_slice(&s.to_le_bytes());
    }
    out
}

fn truncate(mut s: String, n: usize) -> String {
    if s.len() > n {
        let mut k = n;
        while !s.is_char_boundary(k) {
            k -= 1;
        }
        s.truncate(k);
        s.push_str("…");
    }
    s
}

/// Evaluate the oracle once on a value, catching panics (a panic in an oracle or in the
/// code under test is a failure unless the oracle handles it itself).
fn eval<T>(oracle: &(impl Fn(&T, &mut Case) -> Verdict + Sync), v: &T, case: &mut Case) -> Verdict {
    match panics::catch(|| oracle(v, case)) {
        Ok(v) => v,
        Err(p) => {
            if p.budget {
                Verdict::Skip("budget")
            } else {
                Verdict::Fail(format!("panic at {}: {}", p.site(), p.message))
            }
        }
    }
}

fn account<T: Debug>(stats: &mut SubStats, verdict: &Verdict, case: Case, v: &T, key: Option<u64>) {
    stats.evaluations += 1;
    for c in &case.classes {
        *stats.classes.entry(c).or_default() += 1;
    }
    match verdict {
        Verdict::Pass { nontrivial } => {
            if *nontrivial {
                stats.nontrivial += 1;
                let k = match key {
                    Some(k) => k,
                    None => fnv64(format!("{:?}", v).as_bytes()),
                };
                stats.nontrivial_keys.insert(k);
                if stats.samples.len() < 3 {
                    let s = case.note.unwrap_or_else(|| format!("{:?}", v));
                    stats.samples.push(truncate(s, 700));
                }
            }
        }
        Verdict::Skip(r) => {
            *stats.skipped.entry(r).or_default() += 1;
        }
        Verdict::Known(sig) => {
            *stats.known_hits.entry(sig.clone()).or_default() += 1;
        }
        Verdict::Fail(_) => {}
    }
}

fn spawn_workers<F: Fn(usize) + Sync>(n: usize, f: F) {
    std::thread::scope(|s| {
        let mut hs = vec![];
        for w in 0..n {
            let f = &f;
            hs.push(
                std::thread::Builder::new()
                    .stack_size(STACK_BYTES)
                    .spawn_scoped(s, move || f(w))
                    .expect("spawn worker"),
            );
        }
        for h in hs {
            if h.join().is_err() {
                eprintln!("worker died");
                std::process::exit(2);
            }
        }
    });
}

fn run_on_big_stack<R: Send>(f: impl FnOnce() -> R + Send) -> R {
    std::thread::scope(|s| {
        std::thread::Builder::new()
            .stack_size(STACK_BYTES)
            .spawn_scoped(s, f)
            .expect("spawn")
            .join()
            .unwrap_or_else(|_| {
                eprintln!("replay thread died");
                std::process::exit(2)
            })
    })
}

/// Random generation with proptest, 16 workers, shrinking, replay.
pub fn run_generated<T, S>(
    ctx: &Ctx,
    sub: &str,
    cases: u64,
    strat: impl Fn() -> S + Sync,
    oracle: impl Fn(&T, &mut Case) -> Verdict + Sync,
) where
    S: Strategy<Value = T>,
    T: Debug + Serialize + DeserializeOwned + Send + Sync,
{
    let Some(replay) = ctx.wants(sub) else { return };
    if let Some(case_json) = replay {
        let v: T = match serde_json::from_value(case_json) {
            Ok(v) => v,
            Err(e) => {
                eprintln!("replay file does not decode for {}:{}: {}", ctx.prop, sub, e);
                std::process::exit(2);
            }
        };
        let verdict = run_on_big_stack(|| {
            let mut case = Case { replay: true, ..Default::default() };
            eval(&oracle, &v, &mut case)
        });
        ctx.replay_verdicts.lock().unwrap().push((sub.to_string(), verdict));
        return;
    }
    if ctx.stop.load(Ordering::SeqCst) {
        return;
    }
    let results: Mutex<Vec<(usize, T, String)>> = Mutex::new(vec![]);
    spawn_workers(WORKERS, |w| {
        let share = cases / WORKERS as u64 + if (w as u64) < cases % WORKERS as u64 { 1 } else { 0 };
        if share == 0 {
            return;
        }
        let config = Config {
            cases: share as u32,
            failure_persistence: None,
            max_shrink_iters: 20_000,
            max_global_rejects: 1 << 30,
            max_local_rejects: 1 << 30,
            rng_algorithm: RngAlgorithm::ChaCha,
            rng_seed: RngSeed::Fixed(0),
            verbose: 0,
            ..Config::default()
        };
        let rng = proptest::test_runner::TestRng::from_seed(
            RngAlgorithm::ChaCha,
            &seed_bytes(ctx.seed, ctx.prop, sub, w),
        );
        let mut runner = TestRunner::new_with_rng(config, rng);
        let stats = std::cell::RefCell::new(SubStats::default());
        let failed = std::cell::Cell::new(false);
        let strategy = strat();
        let r = runner.run(&strategy, |v| {
            if !failed.get() && ctx.stop.load(Ordering::Relaxed) {
                return Ok(());
            }
            let mut case = Case::default();
            let verdict = eval(&oracle, &v, &mut case);
            if !failed.get() {
                account(&mut stats.borrow_mut(), &verdict, case, &v, None);
            }
            match verdict {
                Verdict::Fail(m) => {
                    failed.set(true);
                    Err(TestCaseError::fail(m))
                }
                _ => Ok(()),
            }
        });
        ctx.merge_stats(sub, stats.into_inner());
        match r {
            Ok(()) => {}
            Err(TestError::Fail(reason, value)) => {
                results.lock().unwrap().push((w, value, reason.message().to_string()));
                ctx.stop.store(true, Ordering::SeqCst);
            }
            Err(TestError::Abort(reason)) => {
                eprintln!("proptest aborted in {}:{}: {}", ctx.prop, sub, reason.message());
                std::process::exit(2);
            }
        }
    });
    let mut rs = results.into_inner().unwrap();
    rs.sort_by_key(|r| r.0);
    // Keep the smallest shrunk case (by serialised size) to report.
    if let Some((_, v, m)) = rs
        .into_iter()
        .min_by_key(|(w, v, _)| (serde_json::to_string(v).map(|s| s.len()).unwrap_or(usize::MAX), *w))
    {
        ctx.record_failure(sub, &v, &m);
    }
}

/// Deterministic enumeration of `total` indexed cases, split over the workers. `make`
/// maps an index to a case. The smallest failing index is reported.
pub fn run_indexed<T>(
    ctx: &Ctx,
    sub: &str,
    total: u64,
    exhaustive: bool,
    make: impl Fn(u64) -> T + Sync,
    oracle: impl Fn(&T, &mut Case) -> Verdict + Sync,
) where
    T: Debug + Serialize + DeserializeOwned + Send + Sync,
{
    let Some(replay) = ctx.wants(sub) else { return };
    if let Some(case_json) = replay {
        let v: T = match serde_json::from_value(case_json) {
            Ok(v) => v,
            Err(e) => {
                eprintln!("replay file does not decode for {}:{}: {}", ctx.prop, sub, e);
                std::process::exit(2);
            }
        };
        let verdict = run_on_big_stack(|| {
            let mut case = Case { replay: true, ..Default::default() };
            eval(&oracle, &v, &mut case)
        });
        ctx.replay_verdicts.lock().unwrap().push((sub.to_string(), verdict));
        return;
    }
    if ctx.stop.load(Ordering::SeqCst) {
        return;
    }
    let first_fail = AtomicU64::new(u64::MAX);
    let fails: Mutex<Vec<(u64, T, String)>> = Mutex::new(vec![]);
    let chunk: u64 = 4096;
    let next = AtomicU64::new(0);
    spawn_workers(WORKERS, |_w| {
        let mut stats = SubStats::default();
        loop {
            let start = next.fetch_add(chunk, Ordering::Relaxed);
            if start >= total || start > first_fail.load(Ordering::Relaxed) {
                break;
            }
            let end = (start + chunk).min(total);
            for i in start..end {
                let v = make(i);
                let mut case = Case::default();
                let verdict = eval(&oracle, &v, &mut case);
                account(&mut stats, &verdict, case, &v, Some(i));
                if let Verdict::Fail(m) = verdict {
                    first_fail.fetch_min(i, Ordering::SeqCst);
                    fails.lock().unwrap().push((i, v, m));
                    break;
                }
            }
        }
        ctx.merge_stats(sub, stats);
    });
    if exhaustive {
        let mut st = ctx.stats.lock().unwrap();
        st.entry(sub.to_string()).or_default().exhaustive = true;
    }
    let mut fs = fails.into_inner().unwrap();
    fs.sort_by_key(|f| f.0);
    if let Some((_, v, m)) = fs.into_iter().next() {
        ctx.record_failure(sub, &v, &m);
    }
}

/// Hot-loop enumeration over an integer range: the oracle gets the integer itself and
/// returns `Ok(nontrivial)` or `Err(message)`. No per-case allocation.
pub fn run_range(
    ctx: &Ctx,
    sub: &str,
    lo: i64,
    hi: i64, // inclusive
    exhaustive: bool,
    oracle: impl Fn(i64) -> Result<bool, String> + Sync,
) {
    let Some(replay) = ctx.wants(sub) else { return };
    if let Some(case_json) = replay {
        let v: i64 = serde_json::from_value(case_json).unwrap_or_else(|e| {
            eprintln!("replay decode: {e}");
            std::process::exit(2)
        });
        let verdict = match panics::catch(|| oracle(v)) {
            Ok(Ok(nt)) => Verdict::pass(nt),
            Ok(Err(m)) => Verdict::Fail(m),
            Err(p) => Verdict::Fail(format!("panic at {}: {}", p.site(), p.message)),
        };
        ctx.replay_verdicts.lock().unwrap().push((sub.to_string(), verdict));
        return;
    }
    if ctx.stop.load(Ordering::SeqCst) {
        return;
    }
    let total = (hi - lo + 1) as u64;
    let chunk: u64 = 1 << 16;
    let next = AtomicU64::new(0);
    let fails: Mutex<Vec<(i64, String)>> = Mutex::new(vec![]);
    let failed = AtomicBool::new(false);
    spawn_workers(WORKERS, |_w| {
        let mut stats = SubStats::default();
        'outer: loop {
            let start = next.fetch_add(chunk, Ordering::Relaxed);
            if start >= total || failed.load(Ordering::Relaxed) {
                break;
            }
            let end = (start + chunk).min(total);
            for i in start..end {
                let v = lo + i as i64;
                let r = match panics::catch(|| oracle(v)) {
                    Ok(r) => r,
                    Err(p) => Err(format!("panic at {}: {}", p.site(), p.message)),
                };
                stats.evaluations += 1;
                match r {
                    Ok(nt) => {
                        if nt {
                            stats.nontrivial += 1;
                            if stats.samples.len() < 2 && (i % 7919 == 0) {
                                stats.samples.push(format!("{}", v));
                            }
                        }
                    }
                    Err(m) => {
                        failed.store(true, Ordering::SeqCst);
                        fails.lock().unwrap().push((v, m));
                        break 'outer;
                    }
                }
            }
        }
        ctx.merge_stats(sub, stats);
    });
    {
        let mut st = ctx.stats.lock().unwrap();
        let e = st.entry(sub.to_string()).or_default();
        e.exhaustive = exhaustive;
        e.extra.insert("range".into(), serde_json::json!([lo, hi]));
        e.extra.insert("distinct_by_construction".into(), serde_json::json!(true));
    }
    let mut fs = fails.into_inner().unwrap();
    fs.sort_by_key(|f| f.0.unsigned_abs());
    if let Some((v, m)) = fs.into_iter().next() {
        ctx.record_failure(sub, &v, &m);
    }
}

/// A single hand-written or computed case list (calibration goldens, witnesses).
pub fn run_list<T>(
    ctx: &Ctx,
    sub: &str,
    cases: Vec<T>,
    oracle: impl Fn(&T, &mut Case) -> Verdict + Sync,
) where
    T: Debug + Serialize + DeserializeOwned + Send + Sync,
{
    let n = cases.len() as u64;
    run_indexed(ctx, sub, n, false, |i| serde_json::from_value::<T>(serde_json::to_value(&cases[i as usize]).unwrap()).unwrap(), oracle);
}

// ------------------------------------------------------------------------------------
// Known findings file

pub fn load_findings(verif_dir: &std::path::Path, prop: &str) -> Vec<Finding> {
    let mut out = vec![];
    let Ok(text) = std::fs::read_to_string(verif_dir.join("KNOWN_FINDINGS.txt")) else {
        return out;
    };
    for line in text.lines() {
        let line = line.trim();
        let Some(rest) = line.strip_prefix("finding:") else { continue };
        let (head, what) = match rest.split_once(" :: ") {
            Some((h, w)) => (h.trim(), w.trim()),
            None => (rest.trim(), ""),
        };
        let mut p = None;
        let mut id = String::new();
        let mut sig = String::new();
        let mut witness = None;
        // keys appear in the fixed order property= id= sig= witness=
        let mut cur = head;
        let keys = ["property=", "id=", "sig=", "witness="];
        let mut vals: Vec<Option<String>> = vec![None; 4];
        for (i, k) in keys.iter().enumerate() {
            if let Some(pos) = cur.find(k) {
                let after = &cur[pos + k.len()..];
                let mut end = after.len();
                for k2 in &keys[i + 1..] {
                    if let Some(p2) = after.find(&format!(" {}", k2)) {
                        end = end.min(p2);
                    }
                }
                vals[i] = Some(after[..end].trim().to_string());
                cur = &after[end..];
            }
        }
        if let Some(v) = vals[0].take() {
            p = Some(v);
        }
        if let Some(v) = vals[1].take() {
            id = v;
        }
        if let Some(v) = vals[2].take() {
            sig = v;
        }
        if let Some(v) = vals[3].take() {
            witness = Some(v);
        }
        if p.as_deref() == Some(prop) {
            out.push(Finding { id, sig, witness, what: what.to_string() });
        }
    }
    out
}

// ------------------------------------------------------------------------------------
// Driver

pub type PropFn = fn(&Ctx);

pub struct Args {
    pub prop: String,
    pub tier: Tier,
    pub seed: u64,
    pub replay: Option<String>,
    pub verif_dir: PathBuf,
}

pub fn new_ctx(prop: &'static str, a: &Args, mode: Mode) -> Ctx {
    Ctx {
        prop,
        tier: a.tier,
        seed: a.seed,
        mode,
        verif_dir: a.verif_dir.clone(),
        findings: load_findings(&a.verif_dir, prop),
        stats: Mutex::new(BTreeMap::new()),
        failures: Mutex::new(vec![]),
        replay_verdicts: Mutex::new(vec![]),
        assumptions: Mutex::new(vec![]),
        rules: Mutex::new(vec![]),
        stop: AtomicBool::new(false),
    }
}

fn load_replay(path: &str) -> (String, serde_json::Value) {
    let text = std::fs::read_to_string(path).unwrap_or_else(|e| {
        eprintln!("cannot read replay file {path}: {e}");
        std::process::exit(2)
    });
    let v: serde_json::Value = serde_json::from_str(&text).unwrap_or_else(|e| {
        eprintln!("cannot parse replay file {path}: {e}");
        std::process::exit(2)
    });
    let sub = v["sub"].as_str().unwrap_or("").to_string();
    (sub, v["case"].clone())
}

/// Returns the process exit code.
pub fn drive(prop: &'static str, f: PropFn, a: &Args) -> i32 {
    panics::install_hook();
    let t0 = std::time::Instant::now();

    if let Some(path) = &a.replay {
        let (sub, case) = load_replay(path);
        let ctx = new_ctx(prop, a, Mode::Replay { sub: sub.clone(), case });
        f(&ctx);
        let vs = ctx.replay_verdicts.lock().unwrap().clone();
        if vs.is_empty() {
            eprintln!("replay: no sub-check named {sub:?} in {prop}");
            return 2;
        }
        let mut code = 0;
        for (s, v) in vs {
            match v {
                Verdict::Fail(m) => {
                    println!("replay {prop}:{s}: FAIL {m}");
                    println!("VIOLATION property={} replay={}", prop, path);
                    code = 1;
                }
                Verdict::Known(sig) => {
                    let what = ctx.findings.iter().find(|f| f.sig == sig).map(|f| f.what.clone()).unwrap_or_default();
                    println!("KNOWN-FINDING: property={} {} [{}]", prop, what, sig);
                }
                other => println!("replay {prop}:{s}: {:?}", other),
            }
        }
        return code;
    }

    // 1. Replay the witness of every listed finding.
    let findings = load_findings(&a.verif_dir, prop);
    for fd in &findings {
        let Some(w) = &fd.witness else { continue };
        let path = a.verif_dir.join(w);
        if !path.exists() {
            eprintln!("witness {} of {} missing", w, fd.id);
            continue;
        }
        let (sub, case) = load_replay(&path.to_string_lossy());
        let ctx = new_ctx(prop, a, Mode::Replay { sub, case });
        f(&ctx);
        for (_s, v) in ctx.replay_verdicts.lock().unwrap().iter() {
            match v {
                Verdict::Known(sig) if *sig == fd.sig => {
                    println!("KNOWN-FINDING: property={} {} [{} {}]", prop, fd.what, fd.id, fd.sig);
                }
                // A finding identified by its input alone (`sig=input:<marker>`): the check has no deviating
                // model for it and its generators exclude the shape by construction, so the witness file IS
                // the listed finding. It must still fail, and with the recorded marker in its message; any
                // other failure of the same input is reported like every unlisted violation.
                Verdict::Fail(m) if fd.sig.starts_with("input:") && m.contains(&fd.sig["input:".len()..]) => {
                    println!("KNOWN-FINDING: property={} {} [{} {}]", prop, fd.what, fd.id, fd.sig);
                }
                Verdict::Fail(m) => {
                    // The witness fails differently from what is recorded: a new violation.
                    println!("witness {} fails in an unlisted way: {}", w, m);
                    println!("VIOLATION property={} replay={}", prop, path.to_string_lossy());
                    return 1;
                }
                _ => {}
            }
        }
    }

    // 1b. Regression tier: saved shrunk inputs of defects that were repaired (replays/fixed/<prop>-*.json).
    // A fixed entry suppresses nothing: if one of these fails again it is a violation.
    let mut regressions = 0u64;
    if let Ok(rd) = std::fs::read_dir(a.verif_dir.join("replays").join("fixed")) {
        let mut files: Vec<std::path::PathBuf> = rd.filter_map(|e| e.ok().map(|e| e.path())).collect();
        files.sort();
        for path in files {
            let name = path.file_name().map(|n| n.to_string_lossy().to_string()).unwrap_or_default();
            if !name.starts_with(&format!("{}-", prop)) || !name.ends_with(".json") {
                continue;
            }
            let (sub, case) = load_replay(&path.to_string_lossy());
            let ctx = new_ctx(prop, a, Mode::Replay { sub, case });
            f(&ctx);
            regressions += 1;
            for (_s, v) in ctx.replay_verdicts.lock().unwrap().iter() {
                if let Verdict::Fail(m) = v {
                    println!("regression input {} fails again: {}", name, truncate(m.clone(), 1500));
                    println!("VIOLATION property={} replay={}", prop, path.to_string_lossy());
                    return 1;
                }
            }
        }
    }
    let _ = regressions;

    // 2. The generated search.
    let ctx = new_ctx(prop, a, Mode::Generate);
    f(&ctx);
    let wall = t0.elapsed().as_secs_f64();
    let failures = ctx.failures.lock().unwrap().clone();
    write_evidence(&ctx, wall, failures.len());
    for fl in &failures {
        println!("{}:{} FAILED: {}", prop, fl.sub, truncate(fl.msg.clone(), 2000));
        println!("VIOLATION property={} replay={}", prop, fl.replay_path);
    }
    if failures.is_empty() {
        let st = ctx.stats.lock().unwrap();
        let ev: u64 = st.values().map(|s| s.evaluations).sum();
        let nt: usize = st.values().map(|s| s.nontrivial_keys.len().max(if s.extra.contains_key("distinct_by_construction") { s.nontrivial as usize } else { 0 })).sum();
        println!("{} OK tier={} seed={} evaluations={} distinct_nontrivial={} wall={:.1}s", prop, a.tier.name(), a.seed, ev, nt, wall);
        0
    } else {
        1
    }
}

fn write_evidence(ctx: &Ctx, wall: f64, violations: usize) {
    let st = ctx.stats.lock().unwrap();
    let mut subs = serde_json::Map::new();
    let mut evaluations = 0u64;
    let mut distinct = 0u64;
    let mut samples: Vec<serde_json::Value> = vec![];
    let mut skipped_total = 0u64;
    let mut known_total = 0u64;
    let mut all_exhaustive = !st.is_empty();
    for (name, s) in st.iter() {
        let d = if s.extra.contains_key("distinct_by_construction") {
            s.nontrivial
        } else {
            s.nontrivial_keys.len() as u64
        };
        evaluations += s.evaluations;
        distinct += d;
        skipped_total += s.skipped.values().sum::<u64>();
        known_total += s.known_hits.values().sum::<u64>();
        all_exhaustive &= s.exhaustive;
        for x in s.samples.iter().take(3) {
            samples.push(serde_json::json!({"sub": name, "case": x}));
        }
        let mut o = serde_json::Map::new();
        o.insert("evaluations".into(), s.evaluations.into());
        o.insert("nontrivial".into(), s.nontrivial.into());
        o.insert("distinct_nontrivial".into(), d.into());
        o.insert("classes".into(), serde_json::to_value(&s.classes).unwrap());
        o.insert("skipped".into(), serde_json::to_value(&s.skipped).unwrap());
        o.insert("known_finding_hits".into(), serde_json::to_value(&s.known_hits).unwrap());
        o.insert("exhaustive".into(), s.exhaustive.into());
        for (k, v) in &s.extra {
            o.insert(k.clone(), v.clone());
        }
        subs.insert(name.clone(), serde_json::Value::Object(o));
    }
    if samples.is_empty() {
        samples.push(serde_json::json!("(no non-trivial sample recorded)"));
    }
    let rule = ctx.rules.lock().unwrap().join(" | ");
    let ev = serde_json::json!({
        "property_id": ctx.prop,
        "tier": ctx.tier.name(),
        "seed": ctx.seed,
        "level": "exploration",
        "coverage": {
            "evaluations": evaluations,
            "distinct_nontrivial": distinct,
            "rule": rule,
            "samples": samples,
            "exhaustive": all_exhaustive,
            "subchecks": subs,
            "skipped": skipped_total,
            "known_finding_hits": known_total,
            "workers": WORKERS,
        },
        "assumptions": *ctx.assumptions.lock().unwrap(),
        "wall_s": (wall * 1000.0).round() / 1000.0,
        "violations": violations,
    });
    let dir = ctx.verif_dir.join("evidence");
    let _ = std::fs::create_dir_all(&dir);
    let path = dir.join(format!("{}.json", ctx.prop));
    std::fs::write(path, serde_json::to_string_pretty(&ev).unwrap()).expect("write evidence");
}

/// Monotone index mapping recommended for shrinking: maps a u16 to 0..len.
pub fn pick_idx(i: u16, len: usize) -> usize {
    ((i as usize) * len) >> 16
}


/// `fuzz_raw` sub-check: replays every saved raw input under `<verif>/seeds/fuzz/<prop>/` (the
/// starting corpus of the libFuzzer supplement and any artifact it ever produced) through the same
/// oracle function the fuzz target uses. Replay files of this sub-check hold the raw bytes.
pub fn run_fuzz_raw(ctx: &Ctx, entry: impl Fn(&Ctx, &[u8]) -> Verdict + Sync) {
    let dir = ctx.verif_dir.join("seeds").join("fuzz").join(ctx.prop);
    let mut files: Vec<std::path::PathBuf> = match std::fs::read_dir(&dir) {
        Ok(rd) => rd.filter_map(|e| e.ok().map(|e| e.path())).filter(|p| p.is_file()).collect(),
        Err(_) => vec![],
    };
    files.sort();
    let inputs: Vec<Vec<u8>> = files.iter().filter_map(|p| std::fs::read(p).ok()).collect();
    run_list(ctx, "fuzz_raw", inputs, |b: &Vec<u8>, case| {
        case.note = Some(format!("{} raw bytes: {}", b.len(), String::from_utf8_lossy(&b[..b.len().min(120)])));
        entry(ctx, b)
    });
}

/// Context for a libFuzzer target (loads the known findings of the property).
pub fn fuzz_ctx(prop: &'static str) -> Ctx {
    panics::install_hook();
    let verif_dir = std::env::var("VP_VERIF_DIR").map(PathBuf::from).unwrap_or_else(|_| PathBuf::from("/verif"));
    let a = Args { prop: prop.to_string(), tier: Tier::Thorough, seed: 0, replay: None, verif_dir };
    new_ctx(prop, &a, Mode::Generate)
}
