//! Panic capture: a quiet global hook that records site and message per thread.

use std::cell::RefCell;
use std::panic::{self, AssertUnwindSafe};

/// Private payload used by the harness to cut a runaway case short.
pub struct BudgetExceeded;

#[derive(Debug, Clone, Default)]
pub struct PanicInfo {
    pub file: String,
    pub line: u32,
    pub message: String,
    pub budget: bool,
}

impl PanicInfo {
    pub fn site(&self) -> String {
        format!("{}:{}", self.file, self.line)
    }
    /// Signature that survives unrelated edits: file name (no directories above `crates/`)
    /// plus the first 60 bytes of the message; never the line number.
    pub fn signature(&self) -> String {
        let f = match self.file.find("crates/") {
            Some(i) => &self.file[i..],
            None => &self.file,
        };
        let mut m: String = self.message.chars().take(60).collect();
        m = m.replace('\n', " ");
        format!("panic:{}:{}", f, m)
    }
}

thread_local! {
    static LAST: RefCell<Option<PanicInfo>> = const { RefCell::new(None) };
}

pub fn install_hook() {
    static ONCE: std::sync::Once = std::sync::Once::new();
    ONCE.call_once(|| {
        let verbose = std::env::var("VP_VERBOSE_PANICS").is_ok();
        panic::set_hook(Box::new(move |info| {
            let budget = info.payload().downcast_ref::<BudgetExceeded>().is_some();
            let message = if let Some(s) = info.payload().downcast_ref::<&str>() {
                s.to_string()
            } else if let Some(s) = info.payload().downcast_ref::<String>() {
                s.clone()
            } else if budget {
                "budget".to_string()
            } else {
                "<non-string panic payload>".to_string()
            };
            let (file, line) = match info.location() {
                Some(l) => (l.file().to_string(), l.line()),
                None => ("<unknown>".to_string(), 0),
            };
            if verbose && !budget {
                eprintln!("[panic] {}:{}: {}", file, line, message);
            }
            LAST.with(|l| *l.borrow_mut() = Some(PanicInfo { file, line, message, budget }));
        }));
    });
}

/// Run `f`, converting a panic into `Err(PanicInfo)`.
pub fn catch<R>(f: impl FnOnce() -> R) -> Result<R, PanicInfo> {
    LAST.with(|l| *l.borrow_mut() = None);
    match panic::catch_unwind(AssertUnwindSafe(f)) {
        Ok(r) => Ok(r),
        Err(payload) => {
            let budget = payload.downcast_ref::<BudgetExceeded>().is_some();
            let mut info = LAST.with(|l| l.borrow_mut().take()).unwrap_or_default();
            info.budget = budget;
            Err(info)
        }
    }
}

pub fn budget_exceeded() -> ! {
    panic::panic_any(BudgetExceeded)
}
