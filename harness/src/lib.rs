pub mod engine;
pub mod models;
pub mod props;
pub mod texvm;
