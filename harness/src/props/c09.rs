//! C09 Interpreter totality: any input ends in success or a located error, no crash.

use crate::engine::panics::{self, PanicInfo};
use crate::engine::*;
use crate::texvm::{self, Capture, VmOptions};
use proptest::prelude::*;
use serde::{Deserialize, Serialize};
use texlang::error::Kind;

/// Fixed vocabulary of the token soup. Order matters for replay files: append only.
fn vocabulary() -> Vec<String> {
    let mut v: Vec<String> = vec![];
    // every installed primitive (sorted), followed by a space so names do not merge
    let mut names: Vec<&'static str> = texvm::built_ins(false).keys().copied().collect();
    names.sort();
    for n in names {
        // \newIntArray allocates as much memory as it is told to ("the only constraint on the size is
        // that you have enough RAM"): it only appears in fixed snippets with small sizes.
        if n.contains('\u{0}') || n == "newIntArray" || n == "vpcapture" {
            continue;
        }
        v.push(format!("\\{} ", n));
    }
    for s in ["\\a ", "\\b ", "\\c ", "\\undefinedcs ", "\\par ", "~", "{", "}", "#", "#1", "#2", "##", "$", "&", "^", "_", "%", " ", "\n", "\n\n", "=", "-", "+", "`", "'", "\"", ".", ",", "<", ">", ";", "a", "b", "A", "F", "x", "é", "日", "\u{7f}", "^^M", "^^@", "^^?", "^^5a", "^^", "\\^^M", "\\ ", "\\\\", "pt", "sp", "in", "em", "ex", "true", "fil", "fill", "filll", "fillll", "plus ", "minus ", "by ", "to ", "0", "1", "2", "7", "9", "15", "16", "17", "255", "256", "32767", "32768", "65535", "65536", "55296", "57343", "1114111", "1114112", "1073741823", "1073741824", "2147483647", "2147483648", "99999999999999999999", "-1", "-2147483647", "0.5", "16383.99999", "16384", "'777", "'8", "\"FF", "\"G", "`a", "`\\a", "`\\^^M", "`", "\\count1 ", "\\count255 ", "\\dimen1 ", "\\skip1 ", "\\toks1 ", "\\catcode`\\a ", "fa ", "fb ", "nofile ", "a:b ", "x>y ", "/abs/path ", "1 to\\a ", "16 to\\a ", "-1 to\\a "] {
        v.push(s.to_string());
    }
    v
}

fn snippets() -> Vec<String> {
    let mut v: Vec<String> = vec![];
    for c in texlang_stdlib::ErrorCase::all_error_cases() {
        v.push(c.source_code.to_string());
    }
    for s in [
        "\\def\\a#1#2{#2#1}\\a xy",
        "\\def\\b{\\a\\b}",
        "\\count1=5 \\advance\\count1 by 3 \\the\\count1 ",
        "\\dimen1=1.5pt \\multiply\\dimen1 by 2 \\the\\dimen1 ",
        "\\skip1=1pt plus 2fil minus 3fill \\the\\skip1 ",
        "\\ifnum\\count1<3 A\\else B\\fi ",
        "\\ifcase 2 A\\or B\\or C\\else D\\fi ",
        "\\ifodd\\count1 A\\fi ",
        "{\\global\\count1=7 }",
        "\\expandafter\\a\\b ",
        "\\noexpand\\a ",
        "\\input fa ",
        "\\openin1=fa \\read1 to\\a \\a ",
        "\\read16 to\\a ",
        "\\ifeof1 A\\else B\\fi ",
        "\\closein1 ",
        "\\newInt\\vpi \\vpi=3 \\the\\vpi ",
        "\\newIntArray\\vpx 3 \\vpx 1=4 \\the\\vpx 1 ",
        "\\newIntArray\\vpy 0 \\the\\vpy 0 ",
        "\\let\\c=\\count \\c1=2 ",
        "\\chardef\\c=65 \\c ",
        "\\mathchardef\\c=\"7FFF \\the\\c ",
        "\\countdef\\c=5 \\c=6 ",
        "\\toksdef\\c=5 \\c={ab} \\the\\c ",
        "\\catcode`\\a=13 ",
        "\\catcode`\\{=12 ",
        "\\catcode`\\\\=12 ",
        "\\endlinechar=-1 ",
        "\\endlinechar=65 ",
        "\\globaldefs=1 ",
        "\\tracingmacros=2 ",
        "\\mathcode`a=\"7161 ",
        "\\toks1={\\a{b}} \\the\\toks1 ",
        "\\jobname ",
        "\\year=2000 \\the\\year \\the\\month \\the\\day \\the\\time ",
        "\\long\\outer\\def\\a{} ",
        "\\gdef\\a#1.{#1}",
        "\\def\\a#1#{x}",
        "\\endinput ",
        "\\the\\catcode`\\a ",
        "\\the\\mathcode`\\a ",
        "\\divide\\count1 by 0 ",
        "\\count1=-2147483647 \\advance\\count1 by -1 ",
        "\\dimen1=\\count1 sp ",
        "\\dimen1=-\\count1 pt ",
        "\\skip1=-\\skip1 ",
        "\\multiply\\skip1 by -1 ",
        "\\divide\\dimen1 by -1 ",
        "\\ifcase\\count1 ",
        "\\ifnum\\dimen1=\\skip1 ",
        "\\divide\\count1 by -1 ",
        "\\multiply\\count1 by -1 ",
        "\\count2=-\\count1 ",
        "\\advance\\count1 by \\count1 ",
        "\\ifnum\\count1<-\\count1 \\fi ",
        "\\dimen1=\\count1 pt ",
        "\\dimen1=-1073741823sp \\advance\\dimen1 by -1073741823sp \\advance\\dimen1 by -2sp ",
        "\\multiply\\dimen1 by -1 ",
        "\\dimen2=-\\dimen1 ",
        "\\the\\dimen1 ",
        "\\skip1=\\dimen1 plus \\dimen1 minus \\dimen1 ",
        "\\divide\\skip1 by -1 ",
        "\\the\\skip1 ",
    ] {
        v.push(s.to_string());
    }
    v
}

#[derive(Clone, Debug, Serialize, Deserialize)]
pub enum Elem {
    T(u16),
    S(u8),
}

#[derive(Clone, Debug, Serialize, Deserialize)]
pub struct Soup {
    pub mode: u8,
    pub elems: Vec<Elem>,
    /// truncate the rendered text at this fraction (65535 = keep everything)
    pub cut: u16,
}

fn render(s: &Soup, vocab: &[String], snips: &[String]) -> String {
    let mut text = String::from(["", "\\errorstopmode ", "\\scrollmode ", "\\nonstopmode ", "\\batchmode "][(s.mode % 5) as usize]);
    let mut has_array = false;
    for e in &s.elems {
        match e {
            Elem::T(i) => text.push_str(&vocab[pick_idx(*i, vocab.len())]),
            Elem::S(i) => {
                let sn = &snips[*i as usize % snips.len()];
                if sn.contains("newIntArray") {
                    has_array = true;
                }
                text.push_str(sn);
            }
        }
    }
    if s.cut != u16::MAX && !has_array {
        let n = (text.len() * s.cut as usize) >> 16;
        let mut k = n;
        while !text.is_char_boundary(k) {
            k -= 1;
        }
        text.truncate(k);
    }
    text
}

fn files() -> Vec<(String, String)> {
    vec![
        ("fa.tex".to_string(), "A line\n{two\nlines}\n\\input fb \nlast".to_string()),
        ("fb.tex".to_string(), "B\\endinput C\nD\n".to_string()),
        ("nofile.tex".to_string(), String::new()),
    ]
}

fn check_trace(t: &texlang::token::trace::SourceCodeTrace, what: &str) -> Result<(), String> {
    if t.line_number < 1 {
        return Err(format!("{what}: line number {}", t.line_number));
    }
    let n = t.line_content.chars().count();
    if t.index > n {
        return Err(format!("{what}: column {} beyond the line {:?} ({} chars)", t.index, t.line_content, n));
    }
    Ok(())
}

fn known_sig(ctx: &Ctx, p: &PanicInfo) -> Option<String> {
    let sig = p.signature();
    if ctx.known(&sig) {
        return Some(sig);
    }
    // signatures are listed with the message possibly shortened: prefix match
    for f in &ctx.findings {
        if f.sig.starts_with("panic:") && sig.starts_with(&f.sig) {
            return Some(f.sig.clone());
        }
    }
    None
}

fn oracle(ctx: &Ctx, s: &Soup, vocab: &[String], snips: &[String], case: &mut Case) -> Verdict {
    let text = render(s, vocab, snips);
    case.class(["mode:default", "mode:errorstop", "mode:scroll", "mode:nonstop", "mode:batch"][(s.mode % 5) as usize]);
    oracle_text(ctx, text, s.elems.len(), case)
}

/// Inputs that crashed the pinned tree before the `fix:` commits (kept as a seconds-long replay tier).
fn regression_inputs() -> Vec<String> {
    let base = [
        "\\the \\multiply ",
        "\\the\\relax ",
        "\\the a",
        "é\\catcode ",
        "日本\\undefinedcs ",
        "\\read `",
        "\\read2 to\\x ",
        "\\mathcode 55296",
        "\\catcode 55296=11 ",
        "\\chardef\\x=57343 ",
        "\\input doesNotExist>",
        "\\input a:b ",
        "\\openin 1 x>y ",
        "\\count1=-2147483647 \\advance\\count1 by -1 \\dimen1=\\count1 sp ",
        "\\count1=-2147483647 \\advance\\count1 by -1 \\skip1=\\count1 pt ",
        "\\ifcase 2147483647",
        "{\\ifcase2147483647",
        "\\count1=-2147483647 \\ifcase\\count1 \\or\\or\\fi ",
        "\\openin 0.5/abs/path ",
        "\\input ../foo ",
        "\\count1=2147483646 \\dimen1=.6\\count1 ",
        "\\def\\a#1.{[#1]}\\a{x}{y}.",
    ];
    let mut v = vec![];
    for mode in ["", "\\errorstopmode ", "\\scrollmode ", "\\nonstopmode ", "\\batchmode "] {
        for b in base {
            v.push(format!("{}{}", mode, b));
        }
    }
    v
}

/// Every arithmetic primitive on every register kind with the register and the operand at the
/// limits of 32-bit arithmetic (-2^31 is only reachable by letting \\advance wrap).
fn limit_programs() -> Vec<String> {
    let set_count = |v: i64| -> String {
        match v {
            -2147483648 => "\\count1=-2147483647 \\advance\\count1 by -1 ".to_string(),
            v => format!("\\count1={} ", v),
        }
    };
    let set_dimen = |v: i64| -> String {
        // dimensions beyond +-(2^30-1) are only reachable by \\advance
        match v {
            -2147483648 => "\\dimen1=-1073741823sp \\advance\\dimen1 by -1073741823sp \\advance\\dimen1 by -2sp ".to_string(),
            2147483647 => "\\dimen1=1073741823sp \\advance\\dimen1 by 1073741823sp \\advance\\dimen1 by 1sp ".to_string(),
            -2147483647 => "\\dimen1=-1073741823sp \\advance\\dimen1 by -1073741823sp \\advance\\dimen1 by -1sp ".to_string(),
            v => format!("\\dimen1={}sp ", v),
        }
    };
    let values: [i64; 8] = [-2147483648, -2147483647, -1073741824, -1, 0, 1, 1073741823, 2147483647];
    let operands = ["-1", "0", "1", "2", "-2", "2147483647", "-2147483647", "\\count2 ", "-\\count2 "];
    let mut v = vec![];
    for val in values {
        for op in ["\\advance", "\\multiply", "\\divide"] {
            for operand in operands {
                let pre2 = "\\count2=-2147483647 \\advance\\count2 by -1 ";
                v.push(format!("{}{}{}\\count1 by {}\\relax \\the\\count1 \\count3=-\\count1 \\ifnum\\count1<-\\count1 \\fi \\ifodd\\count1 \\fi \\ifcase\\count1 \\or\\fi ", pre2, set_count(val), op, operand));
                if (-1073741823..=1073741823).contains(&val) || val.abs() >= 2147483647 {
                    v.push(format!("{}{}{}\\dimen1 by {}\\relax \\the\\dimen1 \\dimen2=-\\dimen1 \\dimen2=2\\dimen1 \\dimen2=.5\\dimen1 \\count3=\\dimen1 \\skip2=\\dimen1 plus \\dimen1 minus -\\dimen1 \\the\\skip2 ", pre2, set_dimen(val), op, if op == "\\advance" { format!("{}sp", operand.trim_end()) } else { operand.to_string() }));
                    v.push(format!("{}{}\\skip1=\\dimen1 plus \\dimen1 minus \\dimen1 {}\\skip1 by {}\\relax \\the\\skip1 \\skip2=-\\skip1 \\dimen2=\\skip1 ", pre2, set_dimen(val), op, if op == "\\advance" { "\\skip1 ".to_string() } else { operand.to_string() }));
                }
            }
        }
    }
    v
}

fn oracle_text(ctx: &Ctx, text: String, nelems: usize, case: &mut Case) -> Verdict {
    case.note = Some(text.clone());
    let opts = VmOptions { files: files(), terminal: vec!["terminal line one\n".into(), "{second\n".into(), "third}\n".into()], budget: 3_000, ..Default::default() };
    let r = panics::catch(|| {
        let mut vm = texvm::new_vm(&opts);
        if vm.push_source("input.tex".to_string(), text.clone()).is_err() {
            return Err("push_source failed".to_string());
        }
        let res = vm.run::<Capture>();
        let recovered = vm.state.recovered_errors.get();
        match res {
            Ok(()) => Ok((None, recovered, vm.state.steps.get())),
            Err(e) => {
                let shown = format!("{}", e);
                if shown.trim().is_empty() {
                    return Err("the error renders to empty text".to_string());
                }
                let title = e.error.title();
                if title.trim().is_empty() {
                    return Err("the error has an empty title".to_string());
                }
                // location
                match e.error.kind() {
                    Kind::Token(t) => {
                        let Some(tr) = e.token_traces.get(&t) else { return Err(format!("error {:?} is about a token but carries no trace for it", title)) };
                        check_trace(tr, "token trace")?;
                    }
                    Kind::EndOfInput => {
                        let Some(tr) = &e.end_of_input_trace else { return Err(format!("end-of-input error {:?} carries no end-of-input trace", title)) };
                        check_trace(tr, "end-of-input trace")?;
                    }
                    Kind::FailedPrecondition => {
                        for el in &e.stack_trace {
                            check_trace(&el.trace, "stack trace")?;
                        }
                    }
                }
                for el in &e.stack_trace {
                    check_trace(&el.trace, "stack trace")?;
                }
                Ok((Some(title), recovered, vm.state.steps.get()))
            }
        }
    });
    match r {
        Ok(Ok((err, recovered, steps))) => {
            case.class_if(err.is_some(), "ends in error");
            case.class_if(err.is_none(), "ends in success");
            case.class_if(recovered > 0, "recovered errors");
            { let _ = steps; Verdict::pass(nelems >= 2 && (err.is_some() || recovered > 0)) }
        }
        Ok(Err(msg)) => Verdict::Fail(format!("{}\ninput: {:?}", msg, text)),
        Err(p) => {
            if p.budget {
                return Verdict::Skip("budget");
            }
            if !case.replay || true {
                if let Some(sig) = known_sig(ctx, &p) {
                    return Verdict::Known(sig);
                }
            }
            Verdict::Fail(format!("panic at {}: {}\nsignature: {}\ninput: {:?}", p.site(), p.message, p.signature(), text))
        }
    }
}

fn soup_strategy(nsnip: usize, max: usize) -> impl Strategy<Value = Soup> {
    let elem = prop_oneof![5 => any::<u16>().prop_map(Elem::T), 2 => (0..nsnip as u8).prop_map(Elem::S)];
    (0u8..5, proptest::collection::vec(elem, 0..max), prop_oneof![3 => Just(u16::MAX), 1 => any::<u16>()]).prop_map(|(mode, elems, cut)| Soup { mode, elems, cut })
}

pub fn run(ctx: &Ctx) {
    run_fuzz_raw(ctx, fuzz_entry);
    ctx.rule("inputs = token soups over every installed primitive, user macros, braces, #, numbers at and beyond every limit, units and keywords, ^^ forms, non-ASCII characters, newlines, file names (existing, missing, with an area), interleaved with ~100 snippet programs (the stdlib's own error cases and one valid use of every primitive family), optionally truncated at any byte, under a mode prefix (default/errorstop/scroll/nonstop/batch); run under catch_unwind in a VM with an in-memory file system and a scripted terminal: Ok, or an error that renders to non-empty text and whose traces have line>=1 and column<=line length; any panic is a violation. non-trivial = at least 2 soup elements and the run ended in an error or recovered from one; distinct by input text");
    ctx.assume("\\sleep, \\dumpFormat, \\dumpValidate are not installed (they sleep / write files); \\newIntArray only appears in snippets with small sizes (it allocates what it is told to)");
    ctx.assume("programs that exceed the expansion budget (3000 expansions) are cut off and counted as skipped, as the property says");
    let vocab = vocabulary();
    let snips = snippets();
    run_list(ctx, "regression_inputs", regression_inputs(), |t: &String, case| oracle_text(ctx, t.clone(), 2, case));
    let limits: Vec<String> = limit_programs().into_iter().flat_map(|p| ["", "\\scrollmode ", "\\batchmode "].into_iter().map(move |m| format!("{}{}", m, p))).collect();
    run_list(ctx, "limit_arithmetic", limits, |t: &String, case| oracle_text(ctx, t.clone(), 2, case));
    ctx.extra("soup_short", "vocabulary_size", serde_json::json!(vocab.len()));
    ctx.extra("soup_short", "snippets", serde_json::json!(snips.len()));
    let n = ctx.tier.pick(120_000u64, 3_000_000u64);
    run_generated(ctx, "soup_short", n, || soup_strategy(snips.len(), 8), |s: &Soup, case| oracle(ctx, s, &vocab, &snips, case));
    let n = ctx.tier.pick(40_000u64, 1_000_000u64);
    run_generated(ctx, "soup_long", n, || soup_strategy(snips.len(), 40), |s: &Soup, case| oracle(ctx, s, &vocab, &snips, case));
    // every snippet alone under every mode, and every pair of vocabulary items (small scope)
    let total = snips.len() as u64 * 5;
    run_indexed(ctx, "snippets_all_modes", total, true, |i| Soup { mode: (i % 5) as u8, elems: vec![Elem::S((i / 5) as u8)], cut: u16::MAX }, |s: &Soup, case| oracle(ctx, s, &vocab, &snips, case));
    let nv = vocab.len() as u64;
    let pairs = ctx.tier.pick(nv * nv, nv * nv * 5);
    let to_idx = |k: u64| -> u16 { (((k << 16) + (1 << 15)) / nv) as u16 };
    run_indexed(
        ctx,
        "vocabulary_pairs",
        pairs,
        true,
        |i| {
            let a = i % nv;
            let b = (i / nv) % nv;
            let mode = (i / (nv * nv)) as u8;
            Soup { mode, elems: vec![Elem::T(to_idx(a)), Elem::T(to_idx(b))], cut: u16::MAX }
        },
        |s: &Soup, case| oracle(ctx, s, &vocab, &snips, case),
    );
}


/// Entry point shared by the libFuzzer target and the `fuzz_raw` replay sub-check: the first byte
/// selects the interaction mode prefix.
pub fn fuzz_entry(ctx: &Ctx, data: &[u8]) -> Verdict {
    let Some((sel, rest)) = data.split_first() else { return Verdict::pass(false) };
    let mode = ["", "\\errorstopmode ", "\\scrollmode ", "\\nonstopmode ", "\\batchmode "][(*sel % 5) as usize];
    let text = format!("{}{}", mode, String::from_utf8_lossy(rest));
    // \newIntArray allocates what it is told to: keep it out of fuzz inputs
    if text.contains("newIntArray") {
        return Verdict::Skip("\\newIntArray in a fuzz input");
    }
    oracle_text(ctx, text, 2, &mut Case::default())
}
