//! C09 Interpreter totality: any input ends in success or a located error, no crash.

use crate::engine::panics::{self, PanicInfo};
use crate::engine::*;
use crate::texvm::{self, Capture, HState, VmOptions};
use proptest::prelude::*;
use serde::{Deserialize, Serialize};
use std::cell::{Cell, RefCell};
use std::collections::HashMap;
use std::rc::Rc;
use std::sync::Mutex;
use texlang::error::{Kind, TracedTexError};
use texlang::token::trace::{Origin, SourceCodeTrace};
use texlang::token::Token;
use texlang::traits::*;
use texlang::vm;

/// Fixed vocabulary of the token soup. Order matters for replay files: append only.
fn vocabulary() -> Vec<String> {
    let mut v: Vec<String> = vec![];
    // every installed primitive (sorted), followed by a space so names do not merge
    let mut names: Vec<&'static str> = texvm::built_ins(false).keys().copied().collect();
    names.sort();
    for n in names {
        // \newIntArray allocates as much memory as it is told to ("the only constraint on the size is
        // that you have enough RAM"): it only appears in fixed items with small sizes.
        // The two getter providers (names containing NUL) appear in snippets that make the name typeable.
        if n.contains('\u{0}') || n == "newIntArray" || n == "vpcapture" {
            continue;
        }
        v.push(format!("\\{} ", n));
    }
    for s in ["\\a ", "\\b ", "\\c ", "\\undefinedcs ", "\\par ", "~", "{", "}", "#", "#1", "#2", "##", "$", "&", "^", "_", "%", " ", "\n", "\n\n", "=", "-", "+", "`", "'", "\"", ".", ",", "<", ">", ";", "a", "b", "A", "F", "x", "é", "日", "\u{7f}", "^^M", "^^@", "^^?", "^^5a", "^^", "\\^^M", "\\ ", "\\\\", "pt", "sp", "in", "em", "ex", "true", "fil", "fill", "filll", "fillll", "plus ", "minus ", "by ", "to ", "0", "1", "2", "7", "9", "15", "16", "17", "255", "256", "32767", "32768", "65535", "65536", "55296", "57343", "1114111", "1114112", "1073741823", "1073741824", "2147483647", "2147483648", "99999999999999999999", "-1", "-2147483647", "0.5", "16383.99999", "16384", "'777", "'8", "\"FF", "\"G", "`a", "`\\a", "`\\^^M", "`", "\\count1 ", "\\count255 ", "\\dimen1 ", "\\skip1 ", "\\toks1 ", "\\catcode`\\a ", "fa ", "fb ", "nofile ", "a:b ", "x>y ", "/abs/path ", "1 to\\a ", "16 to\\a ", "-1 to\\a "] {
        v.push(s.to_string());
    }
    // ---- second generation (audit B1, B5, B6): appended, so that the items above keep their order ----
    for s in [
        // the missing digits, parameter numbers 3..9, category code values that were unassignable
        "3", "4", "5", "6", "8", "#3", "#4", "#5", "#6", "#7", "#8", "#9", "10", "11", "12", "13", "14", "127", "128",
        // the missing units and upper-case keywords
        "pc", "cm", "mm", "bp", "dd", "cc", "PT", "BY ", "FILL", "16383.99999cc ", "2147483647dd ", "16383.99999pc ", "true cm ",
        // characters: 128, the largest, a four-byte one, raw CRLF, tab
        "\u{80}", "\u{10FFFF}", "𝔸", "\r\n", "\t", "^^80", "^^ff",
        // handles made by \newInt / \newIntArray, and \let copies of them
        "\\vpx ", "\\vpy ", "\\vpi ", "\\newIntArray\\vpx 3\\relax ", "\\newIntArray\\vpy 0\\relax ", "\\newIntArray\\c 2\\relax ", "\\newInt\\vpi ", "\\newInt\\c ", "\\let\\c=\\vpx ", "\\let\\b=\\vpi ", "\\let\\c=\\vpy ", "\\vpx 1=", "\\vpx 3 ",
        // more files: self-including, unbalanced, invalid character
        "rec ", "fc ", "fd ", "fe ", "/vpwd/fa ", "fa.tex ",
        // the two integer parameters that used to be left out, and the script/REPL commands (undefined
        // unless the run installs them)
        "\\dumpFormat ", "\\dumpValidate ", "\\newline ", "\\exit ", "\\help ", "\\doc ",
        "\\catcode`\\x=", "\\catcode`\\ =", "\\catcode`\\^^M=", "\\catcode`\\\\=", "\\catcode`\\{=", "\\catcode`\\#=", "\\catcode`\\%=", "\\catcode127=",
    ] {
        v.push(s.to_string());
    }
    v
}

fn snippets() -> Vec<String> {
    let mut v: Vec<String> = vec![];
    for c in texlang_stdlib::ErrorCase::all_error_cases() {
        v.push(c.source_code.to_string());
    }
    for s in [
        "\\def\\a#1#2{#2#1}\\a xy",
        "\\def\\b{\\a\\b}",
        "\\count1=5 \\advance\\count1 by 3 \\the\\count1 ",
        "\\dimen1=1.5pt \\multiply\\dimen1 by 2 \\the\\dimen1 ",
        "\\skip1=1pt plus 2fil minus 3fill \\the\\skip1 ",
        "\\ifnum\\count1<3 A\\else B\\fi ",
        "\\ifcase 2 A\\or B\\or C\\else D\\fi ",
        "\\ifodd\\count1 A\\fi ",
        "{\\global\\count1=7 }",
        "\\expandafter\\a\\b ",
        "\\noexpand\\a ",
        "\\input fa ",
        "\\openin1=fa \\read1 to\\a \\a ",
        "\\read16 to\\a ",
        "\\ifeof1 A\\else B\\fi ",
        "\\closein1 ",
        "\\newInt\\vpi \\vpi=3 \\the\\vpi ",
        "\\newIntArray\\vpx 3 \\vpx 1=4 \\the\\vpx 1 ",
        "\\newIntArray\\vpy 0 \\the\\vpy 0 ",
        "\\let\\c=\\count \\c1=2 ",
        "\\chardef\\c=65 \\c ",
        "\\mathchardef\\c=\"7FFF \\the\\c ",
        "\\countdef\\c=5 \\c=6 ",
        "\\toksdef\\c=5 \\c={ab} \\the\\c ",
        "\\catcode`\\a=13 ",
        "\\catcode`\\{=12 ",
        "\\catcode`\\\\=12 ",
        "\\endlinechar=-1 ",
        "\\endlinechar=65 ",
        "\\globaldefs=1 ",
        "\\tracingmacros=2 ",
        "\\mathcode`a=\"7161 ",
        "\\toks1={\\a{b}} \\the\\toks1 ",
        "\\jobname ",
        "\\year=2000 \\the\\year \\the\\month \\the\\day \\the\\time ",
        "\\long\\outer\\def\\a{} ",
        "\\gdef\\a#1.{#1}",
        "\\def\\a#1#{x}",
        "\\endinput ",
        "\\the\\catcode`\\a ",
        "\\the\\mathcode`\\a ",
        "\\divide\\count1 by 0 ",
        "\\count1=-2147483647 \\advance\\count1 by -1 ",
        "\\dimen1=\\count1 sp ",
        "\\dimen1=-\\count1 pt ",
        "\\skip1=-\\skip1 ",
        "\\multiply\\skip1 by -1 ",
        "\\divide\\dimen1 by -1 ",
        "\\ifcase\\count1 ",
        "\\ifnum\\dimen1=\\skip1 ",
        "\\divide\\count1 by -1 ",
        "\\multiply\\count1 by -1 ",
        "\\count2=-\\count1 ",
        "\\advance\\count1 by \\count1 ",
        "\\ifnum\\count1<-\\count1 \\fi ",
        "\\dimen1=\\count1 pt ",
        "\\dimen1=-1073741823sp \\advance\\dimen1 by -1073741823sp \\advance\\dimen1 by -2sp ",
        "\\multiply\\dimen1 by -1 ",
        "\\dimen2=-\\dimen1 ",
        "\\the\\dimen1 ",
        "\\skip1=\\dimen1 plus \\dimen1 minus \\dimen1 ",
        "\\divide\\skip1 by -1 ",
        "\\the\\skip1 ",
        // ---- second generation (audit B1, B5, B6, B8): appended ----
        "\\newIntArray\\vpx 3 \\let\\c=\\vpx \\c 1=4 ",
        "{\\newIntArray\\vpx 1 }\\vpx 0=1 ",
        "\\newIntArray\\vpx 3 {\\newIntArray\\vpx 1 }\\vpx 2=1 ",
        "\\newIntArray\\vpx 1 {\\newIntArray\\vpx 3 \\global\\let\\c=\\vpx }\\c 2=1 \\the\\c 0 ",
        "\\newInt\\vpi \\let\\c=\\vpi \\c=3 \\advance\\c by\\c \\the\\c ",
        "\\catcode`\\_=11 \\catcode0=11 \\newInt_getter_provider_^^@=1 ",
        "\\catcode`\\_=11 \\catcode0=11 \\the\\newIntArray_getter_provider_^^@ 1 ",
        "\\catcode`\\_=11 \\catcode0=11 \\advance\\newInt_getter_provider_^^@ by 1 ",
        "\\def\\a x.{y}\\a x.\\a z",
        "\\skip1=1pt plus 1fillll minus 1filllll ",
        "\\input rec ",
        "\\openin1=fc \\read1 to\\a ",
        "\\openin1=fd \\read1 to\\a \\read1 to\\b \\a\\b ",
        "\\openin1=fe \\read1 to\\a \\read1 to\\b ",
        "\\def\\a#1#2#3#4#5#6#7#8#9{#9#8#7#6#5#4#3#2#1}\\a abcdefghi",
        "\\def\\a#1#2#3#4#5#6#7#8#9#1{}",
        "\\def\\a#1#3{}\\def\\b#2{}\\def\\c#1{#2}",
        "\\dimen1=1pc \\dimen2=1cm \\dimen3=1mm \\dimen4=1bp \\dimen5=1dd \\dimen6=1cc \\the\\dimen6 ",
        "\\dimen1=16383.99999cc \\dimen2=2147483647dd \\dimen3=16383.99999pc \\dimen4=16383.99999in ",
        "\\dimen1=1truein \\dimen2=1 true cm \\dimen3=1PT \\dimen4=-.5 TRUE BP ",
        "\\catcode`\\$=3 \\catcode`\\&=4 \\catcode`\\^^M=5 \\catcode`\\#=6 \\catcode`\\_=8 \\catcode`\\~=13 \\catcode`\\%=14 ",
        "\\catcode`\\x=14 ax b\nc",
        "\\catcode`\\x=5 ax b\nc",
        "\\catcode`\\x=0 xrelax xundefinedcs ",
        "\\catcode`\\x=9 axb",
        "\\catcode`\\x=15 axb",
        "\\catcode`\\x=13 \\def x{y}x",
        "\\catcode`\\x=6 \\def\\a x1{x1x1}\\a b",
        "\\catcode`\\x=1 \\catcode`\\y=2 x\\count1=1 y",
        "\\catcode127=11 \u{7f}\\endlinechar=127 \n\\endlinechar=128 \nx",
        "\\tracingmacros=2 \\def\\a#1#2{#2#1}\\a x{\\jobname}\\read16 to\\b \\b ",
        "\\tracingmacros=1 \\openin1=fa \\read1 to\\a \\a \\expandafter\\a\\the\\count1 ",
        "a\r\nb\r\n\r\n\\count1=1\r\n",
        "\\count1=1\t\\advance\\count1 BY 2 \\dimen1=1PT \\skip1=1pt PLUS 1FILL ",
        "\\newline\\par\\par x\\\\ ",
        "\\help \\doc\\count \\doc\\undefinedcs \\exit x",
        "\\dumpFormat=3 \\dumpValidate=1 \\the\\dumpFormat ",
        "\\read16 to\\a \\read16 to\\b \\read16 to\\c \\read16 to\\a ",
        "\\read-1 to\\a \\a ",
        "\\input /vpwd/fa ",
        "\\def\\a{\\a}\\a",
        "\\def\\a{\\a\\a}\\a",
        "\\def\\a{x\\a}\\a",
        "\\count1=\u{80}\u{10FFFF}𝔸 \\catcode`𝔸=13 \\def𝔸{x}𝔸\\catcode1114111=15 ",
    ] {
        v.push(s.to_string());
    }
    v
}

#[derive(Clone, Debug, Serialize, Deserialize)]
pub enum Elem {
    T(u16),
    S(u8),
    /// a grammar-shaped statement: template number and the bytes that fill its holes
    W(u8, Vec<u8>),
}

/// `opts` bits of a soup: how the VM is configured and driven.
const O_LENIENT: u8 = 1; // handlers whose undefined_command_handler records the token and continues
const O_NO_WD: u8 = 2; // vm.working_directory = None
const O_STDIN_EOF: u8 = 4; // terminal with the end-of-file behaviour of the real stdin
const O_SCRIPT: u8 = 8; // texlang_stdlib::script::run_to_string with the texcraft binary's extra commands
const O_SIMPLE_EA: u8 = 16; // the simple \expandafter implementation
const O_ALL: u8 = 31;

#[derive(Clone, Debug, Serialize, Deserialize)]
pub struct Soup {
    pub mode: u8,
    pub elems: Vec<Elem>,
    /// truncate the rendered text at this fraction (65535 = keep everything)
    pub cut: u16,
    #[serde(default)]
    pub opts: u8,
    #[serde(default)]
    pub prelude: u8,
    #[serde(default)]
    pub term: u8,
}

/// assignment-like commands and expansions that each prelude starts (what the state hooks count)
const PRELUDE_PRIMS: [u64; 4] = [0, 5, 5, 6];
const MODES: [&str; 5] = ["", "\\errorstopmode ", "\\scrollmode ", "\\nonstopmode ", "\\batchmode "];

const PRELUDES: [&str; 4] = [
    "",
    "\\def\\a#1{#1#1}\\def\\b{x}\\let\\c=\\count \\catcode`\\~=13 \\def~{\\b}\\newIntArray\\vpx 3 \\newIntArray\\vpy 0 \\newInt\\vpi \\openin1=fa \\openin2=fd ",
    "\\newIntArray\\vpx 3 \\newIntArray\\vpy 0 \\newInt\\vpi \\def\\a#1#2#3{#3#2#1}\\def\\b x.{y}\\countdef\\c=5 \\catcode`\\~=13 \\let~=\\vpx \\openin1=fe \\openin2=fc ",
    "\\tracingmacros=1 \\catcode`\\~=13 \\def~#1{\\b#1}\\def\\b{\\count1 }\\def\\a#1.#2{#2}\\openin1=fa \\openin2=fd \\newIntArray\\vpx 3 \\newIntArray\\vpy 0 \\newInt\\vpi \\let\\c=\\vpi ",
];

/// Scripted terminals (every line as a real terminal delivers it: with its newline).
fn terminal(i: u8) -> Vec<String> {
    let t: &[&str] = match i % 5 {
        0 => &["terminal line one\n", "{second\n", "third}\n"],
        1 => &[],
        2 => &["{\n"],
        3 => &["}x\n", "a\u{7f}b\n", "é日\n"],
        _ => &["\\a #1\n", "{{\n", "}\n", "}\n", "%\n", "\n", "\\undefinedcs\n"],
    };
    t.iter().map(|s| s.to_string()).collect()
}

// ------------------------------------------------------------------------------------------------
// Grammar-shaped statements (Elem::W). Every hole is filled from a pool by one byte of the case, so
// the statement is a pure function of the case; the pools contain the legal values, the values at and
// beyond every limit and a few wrong-typed fillers.

struct Holes<'a> {
    b: &'a [u8],
    i: usize,
}

impl<'a> Holes<'a> {
    fn next(&mut self) -> usize {
        let v = self.b.get(self.i).copied().unwrap_or(0);
        self.i += 1;
        v as usize
    }
    /// Two bytes per hole: the first decides (1 in 20) whether the filler comes from the pool's tail of
    /// `RARE` entries (the ones that usually end the run), the second selects the entry.
    fn pick(&mut self, pool: &Pool) -> &'static str {
        let (list, rare) = (pool.0, pool.1);
        let sel = self.next();
        let v = self.next();
        let common = list.len() - rare;
        if rare > 0 && (sel % 20 == 19 || common == 0) {
            list[common + v % rare]
        } else {
            list[v % common]
        }
    }
}

/// (entries, number of trailing entries that are rare)
type Pool = (&'static [&'static str], usize);

const P_NUM: Pool = (&["1", "0", "2", "3", "4", "5", "6", "7", "8", "9", "10", "11", "12", "13", "14", "15", "16", "17", "127", "128", "255", "256", "32767", "32768", "65535", "65536", "55296", "57343", "1114111", "1114112", "1073741823", "1073741824", "2147483647", "2147483648", "99999999999999999999", "-1", "-2147483647", "--5", "+-+3", "'777", "'8", "\"FF", "\"G", "\"7FFF", "\"8000", "`a", "`\\a", "`\\^^M", "`é", "`𝔸", "\\count1 ", "\\count255 ", "-\\count1 ", "\\dimen1 ", "\\skip1 ", "\\catcode`\\a ", "\\vpi ", "\\vpx 1 ", "\\time ", "\\year ", "\\endlinechar ", "x", "\\the\\count1 ", "`", "\\c ", "\\b ", "\\toks1 ", "\\vpx 3 ", "\\relax ", ""], 7);
const P_REG: Pool = (&["1", "0", "2", "3", "255", "\\count1 ", "32767", "256", "32768", "-1", "\\c ", "\\vpi "], 5);
const P_FACTOR: Pool = (&["1", "0", "-1", "0.5", ".5", "1.", "1,5", "16383.99999", "16384", "-16383.99999", "1073741823", "2147483647", "4.4", "7227", "\\count1 ", "-\\count2 ", "\"10", "'17", "0.0000076293945", "99999.99999999999999", ""], 1);
const P_UNIT: Pool = (&["pt", "sp", "in", "pc", "cm", "mm", "bp", "dd", "cc", "em", "ex", "true pt", "truein", "true cc", "PT", "Cm", " pt", "\\dimen1 ", "\\skip1 ", "\\count1 ", "fil", "p t", "xx", ""], 4);
const P_FIL: Pool = (&["fil", "fill", "filll", "fillll", "filllll", "FILL", "fil l", "Fi L", "pt", "true in", "\\dimen1 ", "cc", ""], 1);
const P_CS: Pool = (&["\\a", "\\b", "\\c", "~", "\\vpx", "\\vpy", "\\vpi", "\\count", "\\relax", "\\the", "\\year", "\\dimen", "\\jobname", "\\undefinedcs", "\\fi", "\\par", "\\def", "\\catcode", "\\else", "\\global", "\\endinput", "\\input", "\\ifnum", "x", "{", "}", "#", " "], 15);
const P_NAME: Pool = (&["\\a", "\\b", "\\c", "~", "\\a", "\\b", "\\vpx", "\\vpi", "\\par", "\\count", "\\fi", "x", "\\a\\b", ""], 8);
const P_CHAR: Pool = (&["`\\z", "`\\j", "`\\q", "`\\$", "`\\&", "`\\^", "`\\_", "`\\~", "`é", "`日", "`𝔸", "0", "127", "128", "255", "256", "1114111", "`\\x", "`\\a", "`\\{", "`\\}", "`\\\\", "`\\#", "`\\%", "`\\ ", "`\\^^M", "`\\1", "`\\=", "1114112", "55296", "-1", "\\count1 "], 15);
const P_CAT: Pool = (&["11", "12", "0", "1", "2", "3", "4", "5", "6", "7", "8", "9", "10", "13", "14", "15", "16", "-1", "\\count1 "], 0);
const P_FILE: Pool = (&["fa", "fb", "fc", "fd", "fe", "rec", "nofile", "missing", "a:b", "x>y", "a.b:c", "x.y>z", "a.b:c.d", "a.b/c", "/abs/path", "/vpwd/fa", "fa.tex", "../fa", "fa.", ".tex", "é", "\\jobname", "\\b", ""], 0);
const P_STREAM: Pool = (&["1", "2", "0", "15", "1", "2", "16", "-1", "17", "\\count1 ", ""], 5);
const P_TEXT: Pool = (&["a", "b", "x", "é", "日", "𝔸", " ", "\n", "\r\n", "\t", "~", "$", "&", "^", "_", "%c\n", "\n\n", "^^M", "^^5a", "\\ ", "\\\\", "abc def", "."], 0);
const P_PARAMS: Pool = (&["", "#1", "#1#2", "#1#2#3", "#1#2#3#4#5#6#7#8#9", "#1#2#3#4#5#6#7#8#9#1", "#1.", "x.", "x#1y#2z", "#1#{", "#2", "#", "#1#1", "#0", "#1 #2 ", "#1\\b#2", ".#1.#2.", "#a"], 0);
const P_BODY: Pool = (&["", "#1", "#2#1", "#1#1", "#3#2#1", "#9#8#7#6#5#4#3#2#1", "\\b x", "{#1}", "##", "x", "\\count1=#1 ", "\\ifnum#1<#2 a\\else b\\fi", "\\def\\b##1{##1#1}", "\\the\\count#1 ", "\\expandafter\\a\\b", "\\a", "#1\\fi", "\\else", "#", "#4", "\\a#1", "#1\\a"], 8);
const P_ARGS: Pool = (&["", "x", "xy", "xyz", "{x}{y}", "{x}{y}{z}", "x.", "x.y.", "{a}{b}{c}{d}{e}{f}{g}{h}{i}", "abcdefghi", "z", "{x}.", "1 2 ", "{1}{2}{3}", "xay1z2", ".a.b.", " x y", "{}{}{}", "{", "}", "\\par ", "{\\par}", "#", "x#{", "\\b\\c"], 7);
const P_REL: Pool = (&["<", "=", ">", " < ", "z", "\\relax", ""], 3);
const P_VAR: Pool = (&["\\count1 ", "\\dimen1 ", "\\skip1 ", "\\count255 ", "\\vpi ", "\\vpx 1 ", "\\year ", "\\time ", "\\catcode`\\z ", "\\mathcode`\\a ", "\\endlinechar ", "\\tracingmacros ", "\\dumpFormat ", "\\toks1 ", "\\globaldefs ", "\\c ", "\\c 1 ", "\\count256 ", "\\dimen32767 ", "\\skip32768 ", "\\vpx 3 ", "\\vpy 0 ", "\\a ", "\\relax ", "\\nullfont ", "x"], 12);
const P_PREFIX: Pool = (&["", "\\global", "\\long", "\\outer", "\\global\\long\\outer", "\\global\\global", "\\long\\global"], 0);
const P_SMALL: Pool = (&["3", "0", "1", "2"], 0);
/// prefixes for assignments other than definitions (TeX.2021.1213: only \\global is legal there)
const P_GLOBAL: Pool = (&["", "", "\\global", "\\global\\global", "\\long", "\\outer\\global"], 2);
const P_IDX: Pool = (&["1", "0", "2", "\\count1 ", "3", "-1", "255", "2147483647", "\\vpi "], 5);
/// files for \\input: a missing file is a fatal error, so most names exist
const P_INFILE: Pool = (&["fa", "fb", "nofile", "fb.tex", "/vpwd/fb", "fa.tex", "/vpwd/nofile", "fd", "fe", "rec", "missing", "a:b", ""], 6);
const P_MODE: Pool = (&["\\scrollmode ", "\\nonstopmode ", "\\batchmode ", "\\errorstopmode "], 1);
/// statement kinds that are assignments (what a prefix may precede)
/// (\\chardef, \\mathchardef, \\toksdef and \\read are assignments in TeX but the stdlib refuses a prefix there)
const ASSIGNMENTS: &[usize] = &[0, 1, 2, 3, 4, 5, 6, 7, 8, 17, 18, 20, 24, 26, 27, 28, 29, 30, 40, 0, 1, 2, 4, 5, 6, 22, 32];
const P_NOGLOBAL: Pool = (&["", "", "\\global", "\\long"], 2);

const N_STMT: usize = 46;

fn dimen(h: &mut Holes) -> String {
    format!("{}{}", h.pick(&P_FACTOR), h.pick(&P_UNIT))
}

fn glue(h: &mut Holes) -> String {
    let mut s = dimen(h);
    let shape = h.next() % 6;
    if shape & 1 != 0 {
        s.push_str(" plus ");
        s.push_str(h.pick(&P_FACTOR));
        s.push_str(h.pick(&P_FIL));
    }
    if shape & 2 != 0 {
        s.push_str(" minus ");
        s.push_str(h.pick(&P_FACTOR));
        s.push_str(h.pick(&P_FIL));
    }
    s
}

fn stmt(kind: usize, h: &mut Holes, depth: usize) -> String {
    let sub = |h: &mut Holes| -> String {
        if depth >= 3 {
            return h.pick(&P_TEXT).to_string();
        }
        let k = h.next() % N_STMT;
        stmt(k, h, depth + 1)
    };
    match kind % N_STMT {
        0 => format!("\\count{}={} ", h.pick(&P_REG), h.pick(&P_NUM)),
        1 => format!("\\dimen{}={} ", h.pick(&P_REG), dimen(h)),
        2 => format!("\\skip{}={} ", h.pick(&P_REG), glue(h)),
        3 => format!("\\toks{}={{{}{}}} ", h.pick(&P_REG), h.pick(&P_TEXT), h.pick(&P_BODY)),
        4 => format!("\\advance\\count{} by {} ", h.pick(&P_REG), h.pick(&P_NUM)),
        5 => format!("\\advance\\dimen{} by {} ", h.pick(&P_REG), dimen(h)),
        6 => format!("\\advance\\skip{} by {} ", h.pick(&P_REG), glue(h)),
        7 => format!("\\multiply{}by {} ", h.pick(&P_VAR), h.pick(&P_NUM)),
        8 => format!("\\divide{}by {} ", h.pick(&P_VAR), h.pick(&P_NUM)),
        9 => format!("\\the{}", h.pick(&P_VAR)),
        10 => format!("\\ifnum{}{}{} {}\\else {}\\fi ", h.pick(&P_NUM), h.pick(&P_REL), h.pick(&P_NUM), sub(h), sub(h)),
        11 => format!("\\ifodd{} {}\\fi ", h.pick(&P_NUM), sub(h)),
        12 => format!("\\ifcase{} {}\\or {}\\or {}\\else {}\\fi ", h.pick(&P_NUM), sub(h), sub(h), sub(h), sub(h)),
        13 => format!("\\ifeof{} {}\\else {}\\fi ", h.pick(&P_STREAM), sub(h), sub(h)),
        14 => format!("{} {}\\else {}\\fi ", ["\\iftrue", "\\iffalse"][h.next() % 2], sub(h), sub(h)),
        15 => format!("{{{}{}}}", sub(h), sub(h)),
        16 => {
            let k = ASSIGNMENTS[h.next() % ASSIGNMENTS.len()];
            format!("{{\\global{}}}", stmt(k, h, depth + 1))
        }
        17 => format!("{}\\def{}{}{{{}}}", h.pick(&P_PREFIX), h.pick(&P_NAME), h.pick(&P_PARAMS), h.pick(&P_BODY)),
        18 => format!("{}\\gdef{}{}{{{}}}", h.pick(&P_PREFIX), h.pick(&P_NAME), h.pick(&P_PARAMS), h.pick(&P_BODY)),
        19 => format!("{}{}", ["\\a ", "\\b ", "\\c ", "~"][h.next() % 4], h.pick(&P_ARGS)),
        20 => format!("{}\\let{}={} ", h.pick(&P_GLOBAL), h.pick(&P_NAME), h.pick(&P_CS)),
        21 => format!("\\let{} {} ", h.pick(&P_NAME), h.pick(&P_CS)),
        22 => format!("{}\\chardef{}={} ", h.pick(&P_NOGLOBAL), h.pick(&P_NAME), h.pick(&P_NUM)),
        23 => format!("\\mathchardef{}={} ", h.pick(&P_NAME), h.pick(&P_NUM)),
        24 => format!("{}\\countdef{}={} ", h.pick(&P_GLOBAL), h.pick(&P_NAME), h.pick(&P_REG)),
        25 => format!("\\toksdef{}={} ", h.pick(&P_NAME), h.pick(&P_REG)),
        26 => format!("{}\\catcode{}={} ", h.pick(&P_GLOBAL), h.pick(&P_CHAR), h.pick(&P_CAT)),
        27 => format!("\\mathcode{}={} ", h.pick(&P_CHAR), h.pick(&P_NUM)),
        28 => format!("\\endlinechar={} ", h.pick(&P_NUM)),
        29 => format!("\\globaldefs={} ", ["1", "-1", "0", "2147483647"][h.next() % 4]),
        30 => format!("\\tracingmacros={} ", ["2", "1", "0", "-1"][h.next() % 4]),
        31 => format!("\\openin{}={} ", h.pick(&P_STREAM), h.pick(&P_FILE)),
        32 => format!("{}\\read{} to{} ", h.pick(&P_NOGLOBAL), h.pick(&P_STREAM), h.pick(&P_NAME)),
        33 => format!("\\closein{} ", h.pick(&P_STREAM)),
        34 => format!("\\input {} ", h.pick(&P_INFILE)),
        // (the trailing "1=1 " completes an assignment if a variable command comes out)
        35 => format!("\\expandafter{}{} 1=1 ", h.pick(&P_CS), h.pick(&P_CS)),
        36 => format!("\\expandafter\\expandafter\\expandafter{}\\expandafter{}{} 1=1 ", h.pick(&P_CS), h.pick(&P_CS), h.pick(&P_CS)),
        37 => format!("\\noexpand{} 1=1 ", h.pick(&P_CS)),
        38 => format!("\\newInt{} ", h.pick(&P_NAME)),
        // the array length comes from a pool of small numbers and is followed by \relax: a following
        // digit can never extend it
        39 => format!("\\newIntArray{} {}\\relax ", h.pick(&P_NAME), h.pick(&P_SMALL)),
        40 => format!("{}{}={} ", ["\\vpx ", "\\vpx ", "\\vpy ", "\\c ", "~"][h.next() % 5], h.pick(&P_IDX), h.pick(&P_NUM)),
        41 => h.pick(&P_MODE).to_string(),
        42 => format!("{}{}", h.pick(&P_TEXT), h.pick(&P_TEXT)),
        43 => {
            let sel = h.next();
            if sel % 8 == 7 {
                // defined only when the run installs the script/REPL commands
                ["\\endinput ", "\\par ", "\\newline ", "\\exit ", "\\help ", "\\doc\\count ", "\\\\"][h.next() % 7].to_string()
            } else {
                ["\\jobname ", "\\relax ", "\\year=\\time ", "\\the\\month ", "\\dumpFormat=2 ", "\\vpi=\\vpx 2 ", "\\the\\day ", "\\relax\\relax ", "\\month=\\vpi "][h.next() % 9].to_string()
            }
        }
        // macro programs; one in four is a loop that the step budget must cut
        // (nothing that doubles its argument per step: the budget counts expansions, not memory)
        44 => {
            let sel = h.next();
            if sel % 4 == 3 {
                ["\\def\\a{\\a}\\a ", "\\def\\a{\\a\\a}\\a ", "\\def\\a{x\\a}\\a ", "\\def\\a#1{\\a{#1}}\\a x", "\\def\\a{\\expandafter\\a\\b}\\def\\b{\\b}\\a ", "\\def\\a{\\input rec }\\a "][h.next() % 6].to_string()
            } else {
                ["\\def\\a#1{\\b#1}\\def\\b#1{#1}\\a x", "\\def\\a#1#2{\\ifnum#1<#2 #1\\else#2\\fi}\\count1=\\a{3}{4} ", "\\def\\a{\\count1}\\a=5 \\advance\\a by\\a ", "\\def\\a#1.{\\dimen1=#1pt}\\a 1.5.", "\\def\\b{\\a}\\def\\a{x}\\expandafter\\def\\expandafter\\c\\expandafter{\\b}\\c ", "{\\def\\a{y}\\gdef\\b{\\a}}\\b "][h.next() % 6].to_string()
            }
        }
        _ => {
            let k = ASSIGNMENTS[h.next() % ASSIGNMENTS.len()];
            format!("{}{}", h.pick(&P_GLOBAL), stmt(k, h, depth + 1))
        }
    }
}

fn render_elem(e: &Elem, vocab: &[String], snips: &[String], text: &mut String, has_array: &mut bool) {
    match e {
        Elem::T(i) => text.push_str(&vocab[pick_idx(*i, vocab.len())]),
        Elem::S(i) => {
            let sn = &snips[*i as usize % snips.len()];
            if sn.contains("newIntArray") {
                *has_array = true;
            }
            text.push_str(sn);
        }
        Elem::W(k, holes) => {
            let mut h = Holes { b: holes, i: 0 };
            text.push_str(&stmt(*k as usize, &mut h, 0));
        }
    }
}

fn render(s: &Soup, vocab: &[String], snips: &[String]) -> String {
    let mut text = String::from(PRELUDES[(s.prelude % 4) as usize]);
    text.push_str(MODES[(s.mode % 5) as usize]);
    let mut has_array = false;
    for e in &s.elems {
        render_elem(e, vocab, snips, &mut text, &mut has_array);
    }
    if s.cut != u16::MAX && !has_array {
        let n = (text.len() * s.cut as usize) >> 16;
        let mut k = n;
        while !text.is_char_boundary(k) {
            k -= 1;
        }
        text.truncate(k);
    }
    text
}

fn files() -> Vec<(String, String)> {
    vec![
        ("fa.tex".to_string(), "A line\n{two\nlines}\n\\input fb \nlast".to_string()),
        ("fb.tex".to_string(), "B\\endinput C\nD\n".to_string()),
        ("nofile.tex".to_string(), String::new()),
        // second generation: a file that includes itself, files that \read cannot balance, a file with
        // an invalid and with non-ASCII characters
        ("rec.tex".to_string(), "\\input rec ".to_string()),
        ("fc.tex".to_string(), "{open\n".to_string()),
        ("fd.tex".to_string(), "a}b\nnext\n".to_string()),
        ("fe.tex".to_string(), "x\u{7f}\né日\n".to_string()),
    ]
}

// ------------------------------------------------------------------------------------------------
// Location checks

thread_local! {
    /// The sources of the run in progress on this thread: (origin, content). Origin "" = terminal.
    static SOURCES: RefCell<Vec<(String, String)>> = const { RefCell::new(vec![]) };
}

fn check_trace(t: &SourceCodeTrace, what: &str) -> Result<(), String> {
    if t.line_number < 1 {
        return Err(format!("{what}: line number {}", t.line_number));
    }
    let n = t.line_content.chars().count();
    if t.index > n {
        return Err(format!("{what}: column {} beyond the line {:?} ({} chars)", t.index, t.line_content, n));
    }
    // the location must lie inside a source that was registered: the line exists in that source
    SOURCES.with(|src| {
        let src = src.borrow();
        if src.is_empty() {
            return Ok(());
        }
        let key = match &t.origin {
            Origin::File(p) => p.to_string_lossy().to_string(),
            Origin::Terminal => String::new(),
        };
        if key.is_empty() && t.line_content.trim_end().is_empty() {
            // a terminal read at end of file registers an empty line
            return Ok(());
        }
        let mut known = false;
        for (name, content) in src.iter() {
            if *name != key {
                continue;
            }
            known = true;
            let want = t.line_content.trim_end();
            if key.is_empty() {
                // terminal: any of the lines delivered
                if content.trim_end() == want {
                    return Ok(());
                }
            } else {
                match content.split('\n').nth(t.line_number - 1) {
                    Some(l) if l.trim_end() == want => return Ok(()),
                    _ => {}
                }
            }
        }
        if !known {
            if key.is_empty() {
                return Err(format!("{what}: terminal line {:?} was never delivered", t.line_content));
            }
            return Err(format!("{what}: origin {:?} is not a source of this run", key));
        }
        Err(format!("{what}: line {} of {:?} is not {:?}", t.line_number, key, t.line_content))
    })
}

/// What the property demands of an error, final or recovered: it renders to text, has a title, and
/// every location it carries lies inside a source.
fn check_error(e: &TracedTexError) -> Result<(), String> {
    let title = e.error.title();
    if title.trim().is_empty() {
        return Err("the error has an empty title".to_string());
    }
    match e.error.kind() {
        Kind::Token(t) => {
            let Some(tr) = e.token_traces.get(&t) else { return Err(format!("error {:?} is about a token but carries no trace for it", title)) };
            check_trace(tr, "token trace")?;
        }
        Kind::EndOfInput => {
            let Some(tr) = &e.end_of_input_trace else { return Err(format!("end-of-input error {:?} carries no end-of-input trace", title)) };
            check_trace(tr, "end-of-input trace")?;
        }
        Kind::FailedPrecondition => match e.error.source_code_trace_override() {
            Some(tr) => check_trace(tr, "source code trace override")?,
            None => {
                if e.stack_trace.is_empty() {
                    return Err(format!("error {:?} carries no source location (no stack, no trace)", title));
                }
            }
        },
    }
    // note tokens: deterministic order is not needed, every trace must be good
    for tr in e.token_traces.values() {
        check_trace(tr, "note token trace")?;
    }
    if let Some(tr) = &e.end_of_input_trace {
        check_trace(tr, "end-of-input trace")?;
    }
    for el in &e.stack_trace {
        check_trace(&el.trace, "stack trace")?;
    }
    let shown = format!("{}", e);
    if shown.trim().is_empty() {
        return Err("the error renders to empty text".to_string());
    }
    Ok(())
}

fn known_sig(ctx: &Ctx, p: &PanicInfo) -> Option<String> {
    let sig = p.signature();
    if ctx.known(&sig) {
        return Some(sig);
    }
    // signatures are listed with the message possibly shortened: prefix match
    for f in &ctx.findings {
        if f.sig.starts_with("panic:") && sig.starts_with(&f.sig) {
            return Some(f.sig.clone());
        }
    }
    None
}

// ------------------------------------------------------------------------------------------------
// Class names per error title ("every recovery path runs" made measurable)

/// "the letter z" -> "the letter _", "a token with value # " -> "a token with value _".
fn generalise(title: &str) -> String {
    let mut out = String::new();
    let mut rest = title;
    loop {
        let hit = [("the letter ", 1usize), ("with value ", 1usize), ("a character ", 1usize)].iter().filter_map(|(m, n)| rest.find(m).map(|i| (i, m.len(), *n))).min();
        match hit {
            None => {
                out.push_str(rest);
                return out;
            }
            Some((i, ml, n)) => {
                out.push_str(&rest[..i + ml]);
                out.push('_');
                let tail = &rest[i + ml..];
                let skip: usize = tail.chars().take(n).map(|c| c.len_utf8()).sum();
                rest = &tail[skip..];
            }
        }
    }
}

fn title_class(prefix: &str, title: &str) -> &'static str {
    static NAMES: Mutex<Option<HashMap<String, &'static str>>> = Mutex::new(None);
    // normalise: digits and quoted/variable parts away, bounded length
    let mut norm = String::new();
    let mut in_tick = false;
    let mut last_hash = false;
    let title = generalise(title);
    let title = title.as_str();
    for c in title.chars() {
        if c == '`' {
            in_tick = !in_tick;
            if !in_tick {
                norm.push('_');
            }
            continue;
        }
        if in_tick {
            continue;
        }
        if c.is_ascii_digit() {
            if !last_hash {
                norm.push('N');
            }
            last_hash = true;
            continue;
        }
        last_hash = false;
        if c.is_ascii() && !c.is_ascii_control() {
            norm.push(c);
        } else {
            norm.push('?');
        }
        if norm.len() >= 56 {
            break;
        }
    }
    let key = format!("{prefix}{norm}");
    let mut g = NAMES.lock().unwrap();
    let m = g.get_or_insert_with(HashMap::new);
    if let Some(s) = m.get(&key) {
        return s;
    }
    if m.len() >= 400 {
        return "title:(other)";
    }
    let leaked: &'static str = Box::leak(key.clone().into_boxed_str());
    m.insert(key, leaked);
    leaked
}

// ------------------------------------------------------------------------------------------------
// Running

/// Handlers that, unlike the default, survive an undefined command (handlers are the VM's documented
/// extension point): the token is recorded and the run goes on, so that long programs run long.
pub struct Lenient;

impl vm::Handlers<HState> for Lenient {
    fn character_handler(input: &mut vm::ExecutionInput<HState>, token: Token, c: char) -> texlang::prelude::Result<()> {
        <Capture as vm::Handlers<HState>>::character_handler(input, token, c)
    }
    fn unexpanded_expansion_command(input: &mut vm::ExecutionInput<HState>, token: Token) -> texlang::prelude::Result<()> {
        <Capture as vm::Handlers<HState>>::unexpanded_expansion_command(input, token)
    }
    fn undefined_command_handler(input: &mut vm::ExecutionInput<HState>, token: Token) -> texlang::prelude::Result<()> {
        let o = texvm::tok_to_out(input.vm(), token);
        input.state_mut().out.push(o);
        Ok(())
    }
    fn math_character_handler(input: &mut vm::ExecutionInput<HState>, token: Token, _m: texlang::types::MathCode) -> texlang::prelude::Result<()> {
        let o = texvm::tok_to_out(input.vm(), token);
        input.state_mut().out.push(o);
        Ok(())
    }
}

#[derive(Clone, Debug, Serialize, Deserialize)]
pub struct Cfg {
    pub text: String,
    #[serde(default)]
    pub opts: u8,
    #[serde(default)]
    pub term: u8,
    /// run this on the same VM afterwards, the way the REPL does (clear_sources, push_source, run)
    #[serde(default)]
    pub second: Option<String>,
}

struct RunStats {
    err: Option<String>,
    recovered: u64,
    prims: u64,
    titles: Vec<String>,
}

fn run_vm(vm: &mut vm::VM<HState>, opts: u8) -> Result<(), Box<TracedTexError>> {
    if opts & O_SCRIPT != 0 {
        // what the playground calls
        texlang_stdlib::script::run_to_string(vm).map(|_| ())
    } else if opts & O_LENIENT != 0 {
        vm.run::<Lenient>()
    } else {
        vm.run::<Capture>()
    }
}

/// One run of `vm` judged by the property: Ok or a well-formed error.
fn judged_run(vm: &mut vm::VM<HState>, opts: u8) -> Result<RunStats, String> {
    let before = (vm.state.recovered_errors.get(), vm.state.steps.get() + vm.state.assignments.get());
    vm.state.recovered_titles.borrow_mut().clear();
    let res = run_vm(vm, opts);
    if let Some(m) = vm.state.hook_failure.borrow_mut().take() {
        return Err(format!("recovered error: {m}"));
    }
    let recovered = vm.state.recovered_errors.get() - before.0;
    let prims = vm.state.steps.get() + vm.state.assignments.get() - before.1;
    let titles = std::mem::take(&mut *vm.state.recovered_titles.borrow_mut());
    let err = match res {
        Ok(()) => None,
        Err(e) => {
            check_error(&e).map_err(|m| format!("final error: {m}"))?;
            Some(e.error.title())
        }
    };
    Ok(RunStats { err, recovered, prims, titles })
}

/// `prelude_prims`: primitives started by the prelude, not counted as depth of the case.
fn run_cfg(ctx: &Ctx, cfg: &Cfg, nelems: usize, case: &mut Case) -> Verdict {
    run_cfg_at(ctx, cfg, nelems, 0, case)
}

/// Debugging aid: VP_C09_SAMPLE=n prints every case whose text hash is divisible by n (1 = all).
fn debug_sample() -> u64 {
    static N: std::sync::OnceLock<u64> = std::sync::OnceLock::new();
    *N.get_or_init(|| std::env::var("VP_C09_SAMPLE").ok().and_then(|v| v.parse().ok()).unwrap_or(0))
}

fn run_cfg_at(ctx: &Ctx, cfg: &Cfg, nelems: usize, prelude_prims: u64, case: &mut Case) -> Verdict {
    let text = &cfg.text;
    case.note = Some(match &cfg.second {
        None => format!("[opts {} term {}] {}", cfg.opts, cfg.term, text),
        Some(s) => format!("[opts {} term {}] {} ||second run|| {}", cfg.opts, cfg.term, text, s),
    });
    let term = terminal(cfg.term);
    let spin = Rc::new(Cell::new(false));
    let stuck = Rc::new(Cell::new(false));
    let fl = files();
    let source_chars: usize = text.len() + cfg.second.as_ref().map(|s| s.len()).unwrap_or(0) + fl.iter().map(|f| f.1.len()).sum::<usize>() + term.iter().map(|l| l.len()).sum::<usize>();
    let vmo = VmOptions {
        files: fl.clone(),
        terminal: term.clone(),
        budget: 3_000,
        no_working_directory: cfg.opts & O_NO_WD != 0,
        stdin_like_terminal: cfg.opts & O_STDIN_EOF != 0,
        terminal_read_cap: 64,
        terminal_spin: Some(spin.clone()),
        dump_params: true,
        script_commands: cfg.opts & O_SCRIPT != 0,
        simple_expandafter: cfg.opts & O_SIMPLE_EA != 0,
        trace_macros: true,
        record_titles: true,
        recovered_check: Some(check_error),
        // every error consumes input: far more errors than source characters without a single expansion
        // in between means the recovery does not advance
        no_progress_limit: 8 * source_chars as u64 + 100,
        no_progress: Some(stuck.clone()),
        ..Default::default()
    };
    case.class_if(cfg.opts & O_LENIENT != 0 && cfg.opts & O_SCRIPT == 0, "run:lenient handlers");
    case.class_if(cfg.opts & O_NO_WD != 0, "run:no working directory");
    case.class_if(cfg.opts & O_STDIN_EOF != 0, "run:stdin-like terminal");
    case.class_if(cfg.opts & O_SCRIPT != 0, "run:script::run_to_string");
    case.class_if(cfg.opts & O_SIMPLE_EA != 0, "run:simple expandafter");
    // sources for the location checks
    let mut sources: Vec<(String, String)> = vec![("input.tex".to_string(), text.clone())];
    if let Some(s) = &cfg.second {
        sources.push(("input.tex".to_string(), s.clone()));
    }
    for (n, c) in &fl {
        sources.push((format!("/vpwd/{n}"), c.clone()));
    }
    for l in &term {
        sources.push((String::new(), l.clone()));
    }
    SOURCES.with(|s| *s.borrow_mut() = sources);
    let r = panics::catch(|| {
        let mut vm = texvm::new_vm(&vmo);
        if vm.push_source("input.tex".to_string(), text.clone()).is_err() {
            return Err("push_source failed".to_string());
        }
        let first = judged_run(&mut vm, cfg.opts)?;
        let second = match &cfg.second {
            None => None,
            Some(s) => {
                // REPL protocol (texlang_stdlib::repl::start)
                vm.clear_sources();
                if vm.push_source("input.tex".to_string(), s.clone()).is_err() {
                    return Err("second push_source failed".to_string());
                }
                vm.state.steps.set(0);
                Some(judged_run(&mut vm, cfg.opts).map_err(|m| format!("second run on the same VM: {m}"))?)
            }
        };
        Ok((first, second, vm.state.trace_macro_bytes.get()))
    });
    SOURCES.with(|s| s.borrow_mut().clear());
    if spin.get() {
        return Verdict::Fail(format!("\\read does not end: the terminal is at end of file and was read {} more times (TeX.2021.71: fatal_error(\"End of file on the terminal!\"))\ninput: {:?} terminal: {:?}", 64, text, term));
    }
    if stuck.get() {
        return Verdict::Fail(format!("error recovery does not advance: more than {} recoverable errors without a single expansion on {} source characters\ninput: {:?}", vmo.no_progress_limit, source_chars, text));
    }
    if debug_sample() > 0 && fnv64(text.as_bytes()) % debug_sample() == 0 {
        if let Ok(Ok((first, second, _))) = &r {
            eprintln!("[c09] {:?}\n      -> err={:?} recovered={} prims={} second={:?}", case.note.clone().unwrap_or_default(), first.err, first.recovered, first.prims, second.as_ref().map(|s| (&s.err, s.recovered, s.prims)));
        }
    }
    match r {
        Ok(Ok((first, second, traced))) => {
            let mut nontrivial = false;
            for (i, mut st) in [Some(first), second].into_iter().flatten().enumerate() {
                let pre = if i == 0 { "" } else { "2nd:" };
                if i == 0 {
                    st.prims = st.prims.saturating_sub(prelude_prims);
                }
                if i == 0 {
                    case.class_if(st.err.is_some(), "ends in error");
                    case.class_if(st.err.is_none(), "ends in success");
                    case.class_if(st.recovered > 0, "recovered errors");
                    case.class_if(st.recovered >= 5, "recovered >= 5 errors");
                    case.class_if(st.prims >= 3, "executed >= 3 primitives");
                    case.class_if(st.prims >= 8, "executed >= 8 primitives");
                    case.class_if(st.prims >= 20, "executed >= 20 primitives");
                    case.class_if(st.prims >= 50, "executed >= 50 primitives");
                } else {
                    case.class_if(st.err.is_some(), "2nd run ends in error");
                    case.class_if(st.err.is_none(), "2nd run ends in success");
                    case.class_if(st.prims >= 3, "2nd run executed >= 3 primitives");
                }
                if let Some(t) = &st.err {
                    case.class(title_class(&format!("{pre}fatal:"), t));
                }
                let mut seen: Vec<&'static str> = vec![];
                for t in &st.titles {
                    let c = title_class(&format!("{pre}recov:"), t);
                    if !seen.contains(&c) {
                        seen.push(c);
                        case.class(c);
                    }
                }
                nontrivial |= st.prims >= 3 && (st.err.is_some() || st.recovered > 0);
            }
            case.class_if(traced > 0, "tracingmacros output computed");
            Verdict::pass(nelems >= 2 && nontrivial)
        }
        Ok(Err(msg)) => Verdict::Fail(format!("{}\ninput: {:?}", msg, case.note.clone().unwrap_or_default())),
        Err(p) => {
            if p.budget {
                return Verdict::Skip("budget");
            }
            if let Some(sig) = known_sig(ctx, &p) {
                return Verdict::Known(sig);
            }
            Verdict::Fail(format!("panic at {}: {}\nsignature: {}\ninput: {:?}", p.site(), p.message, p.signature(), case.note.clone().unwrap_or_default()))
        }
    }
}

fn oracle(ctx: &Ctx, s: &Soup, vocab: &[String], snips: &[String], case: &mut Case) -> Verdict {
    let text = render(s, vocab, snips);
    case.class(["mode:default", "mode:errorstop", "mode:scroll", "mode:nonstop", "mode:batch"][(s.mode % 5) as usize]);
    let nw = s.elems.iter().filter(|e| matches!(e, Elem::W(..))).count();
    case.class_if(nw > 0, "has grammar-shaped statements");
    case.class_if(s.prelude % 4 != 0, "has prelude");
    run_cfg_at(ctx, &Cfg { text, opts: s.opts & O_ALL, term: s.term, second: None }, s.elems.len(), PRELUDE_PRIMS[(s.prelude % 4) as usize], case)
}

/// Inputs that crashed the pinned tree before the `fix:` commits (kept as a seconds-long replay tier).
fn regression_inputs() -> Vec<String> {
    let base = [
        "\\the \\multiply ",
        "\\the\\relax ",
        "\\the a",
        "é\\catcode ",
        "日本\\undefinedcs ",
        "\\read `",
        "\\read2 to\\x ",
        "\\mathcode 55296",
        "\\catcode 55296=11 ",
        "\\chardef\\x=57343 ",
        "\\input doesNotExist>",
        "\\input a:b ",
        "\\openin 1 x>y ",
        "\\count1=-2147483647 \\advance\\count1 by -1 \\dimen1=\\count1 sp ",
        "\\count1=-2147483647 \\advance\\count1 by -1 \\skip1=\\count1 pt ",
        "\\ifcase 2147483647",
        "{\\ifcase2147483647",
        "\\count1=-2147483647 \\ifcase\\count1 \\or\\or\\fi ",
        "\\openin 0.5/abs/path ",
        "\\input ../foo ",
        // an extension delimiter in front of an area delimiter (TeX 516: the area delimiter resets it)
        "\\input a.b:c ",
        "\\input x.y>z ",
        "\\openin1=a.b:c.d \\read1 to\\a ",
        "\\input a.b/c ",
        "\\count1=2147483646 \\dimen1=.6\\count1 ",
        "\\def\\a#1.{[#1]}\\a{x}{y}.",
    ];
    let mut v = vec![];
    for mode in MODES {
        for b in base {
            v.push(format!("{}{}", mode, b));
        }
    }
    v
}

/// VM configurations and inputs that the soups reach only rarely (audit B1, B2, B3): every input under
/// every mode prefix, with and without a working directory, with the scripted terminal failing or
/// behaving like the real stdin at end of file.
fn config_matrix() -> Vec<Cfg> {
    let inputs = [
        "\\input fa ",
        "\\openin1=fa \\read1 to\\a \\a ",
        "\\openin1=fa \\ifeof1 A\\else B\\fi ",
        "\\input /abs/path ",
        "\\input /vpwd/fa ",
        "\\openin1=/vpwd/fd \\read1 to\\a \\read1 to\\b ",
        "\\input ",
        "\\input .tex ",
        "\\read16 to\\a ",
        "\\read16 to\\a \\a \\read16 to\\a \\a \\read16 to\\a \\read16 to\\a \\read16 to\\a \\read16 to\\a \\read16 to\\a \\read16 to\\a ",
        "\\read-1 to\\a \\a ",
        "\\read1 to\\a \\read2 to\\a \\read15 to\\a ",
        "\\global\\read16 to~~",
        "\\catcode`\\{=12 \\read16 to\\a \\read16 to\\a \\read16 to\\a ",
        "\\endlinechar=-1 \\read16 to\\a \\read16 to\\a \\read16 to\\a ",
        "\\newIntArray\\vpx 3 \\let\\c=\\vpx \\c 1=4 ",
        "\\newIntArray\\vpx 3 \\let\\c=\\vpx \\the\\c 1 ",
        "\\newIntArray\\vpx 3 \\let\\c=\\vpx \\advance\\c 1 by 2 ",
        "\\newIntArray~3 \\let\\c=~\\c 1=4 ",
        "\\catcode`\\_=11 \\catcode0=11 \\newInt_getter_provider_^^@=1 ",
        "\\catcode`\\_=11 \\catcode0=11 \\the\\newInt_getter_provider_^^@ ",
        "\\catcode`\\_=11 \\catcode0=11 \\newIntArray_getter_provider_^^@ 1=1 ",
        "\\catcode`\\_=11 \\catcode0=11 \\let\\c=\\newIntArray_getter_provider_^^@ \\newIntArray\\c 2 \\c 1=1 ",
    ];
    let mut v = vec![];
    for input in inputs {
        for mode in MODES {
            for opts in [0u8, O_NO_WD, O_STDIN_EOF, O_NO_WD | O_STDIN_EOF | O_LENIENT, O_SCRIPT | O_STDIN_EOF] {
                for term in 0u8..5 {
                    if term != 0 && !input.contains("\\read") {
                        continue;
                    }
                    v.push(Cfg { text: format!("{}{}", mode, input), opts, term, second: None });
                }
            }
        }
    }
    v
}

/// Every arithmetic primitive on every register kind with the register and the operand at the
/// limits of 32-bit arithmetic (-2^31 is only reachable by letting \\advance wrap).
fn limit_programs() -> Vec<String> {
    let set_count = |v: i64| -> String {
        match v {
            -2147483648 => "\\count1=-2147483647 \\advance\\count1 by -1 ".to_string(),
            v => format!("\\count1={} ", v),
        }
    };
    let set_dimen = |v: i64| -> String {
        // dimensions beyond +-(2^30-1) are only reachable by \\advance
        match v {
            -2147483648 => "\\dimen1=-1073741823sp \\advance\\dimen1 by -1073741823sp \\advance\\dimen1 by -2sp ".to_string(),
            2147483647 => "\\dimen1=1073741823sp \\advance\\dimen1 by 1073741823sp \\advance\\dimen1 by 1sp ".to_string(),
            -2147483647 => "\\dimen1=-1073741823sp \\advance\\dimen1 by -1073741823sp \\advance\\dimen1 by -1sp ".to_string(),
            v => format!("\\dimen1={}sp ", v),
        }
    };
    let values: [i64; 8] = [-2147483648, -2147483647, -1073741824, -1, 0, 1, 1073741823, 2147483647];
    let operands = ["-1", "0", "1", "2", "-2", "2147483647", "-2147483647", "\\count2 ", "-\\count2 "];
    let mut v = vec![];
    for val in values {
        for op in ["\\advance", "\\multiply", "\\divide"] {
            for operand in operands {
                let pre2 = "\\count2=-2147483647 \\advance\\count2 by -1 ";
                v.push(format!("{}{}{}\\count1 by {}\\relax \\the\\count1 \\count3=-\\count1 \\ifnum\\count1<-\\count1 \\fi \\ifodd\\count1 \\fi \\ifcase\\count1 \\or\\fi ", pre2, set_count(val), op, operand));
                if (-1073741823..=1073741823).contains(&val) || val.abs() >= 2147483647 {
                    v.push(format!("{}{}{}\\dimen1 by {}\\relax \\the\\dimen1 \\dimen2=-\\dimen1 \\dimen2=2\\dimen1 \\dimen2=.5\\dimen1 \\count3=\\dimen1 \\skip2=\\dimen1 plus \\dimen1 minus -\\dimen1 \\the\\skip2 ", pre2, set_dimen(val), op, if op == "\\advance" { format!("{}sp", operand.trim_end()) } else { operand.to_string() }));
                    v.push(format!("{}{}\\skip1=\\dimen1 plus \\dimen1 minus \\dimen1 {}\\skip1 by {}\\relax \\the\\skip1 \\skip2=-\\skip1 \\dimen2=\\skip1 ", pre2, set_dimen(val), op, if op == "\\advance" { "\\skip1 ".to_string() } else { operand.to_string() }));
                }
            }
        }
    }
    v
}

/// Every unit with factors at the limits of the conversion (TeX.2021.458: the conversion fractions
/// keep the intermediate below 2^30 times the numerator bound), in a dimension, a stretch and with `true`.
fn unit_programs() -> Vec<String> {
    let mut v = vec![];
    for unit in ["pt", "sp", "in", "pc", "cm", "mm", "bp", "dd", "cc", "em", "ex", "PT", "Cc", "fil", "fill", "filll", "fillll", "xx", ""] {
        for factor in ["0", "1", "-1", ".5", "16383", "16383.99999", "16383.99998474121", "16384", "1073741823", "1073741824", "2147483647", "2147483648", "5758.31742", "5758.31743", "1157.54373", "226.74540", "1.00000000000000000001", "\\count1 ", "-\\count1 "] {
            for tr in ["", "true ", "true"] {
                if tr == "true" && !factor.ends_with('3') {
                    continue;
                }
                v.push(format!("\\count1=2147483647 \\dimen1={factor}{tr}{unit} \\the\\dimen1 \\skip1=1pt plus {factor}{tr}{unit} minus -{factor}{unit} \\the\\skip1 \\advance\\dimen1 by {factor}{unit} \\relax "));
            }
        }
    }
    v
}

fn oracle_text(ctx: &Ctx, text: String, nelems: usize, case: &mut Case) -> Verdict {
    run_cfg(ctx, &Cfg { text, opts: 0, term: 0, second: None }, nelems, case)
}

fn mode_strategy(deep: bool) -> BoxedStrategy<u8> {
    if deep {
        // two of the five prefixes stop at the first recoverable error: give the other three more weight
        prop_oneof![1 => Just(0u8), 1 => Just(1u8), 3 => Just(2u8), 3 => Just(3u8), 3 => Just(4u8)].boxed()
    } else {
        (0u8..5).boxed()
    }
}

fn elem_strategy(nsnip: usize, wt: u32, ws: u32, ww: u32) -> impl Strategy<Value = Elem> {
    prop_oneof![
        wt => any::<u16>().prop_map(Elem::T),
        ws => (0..nsnip as u8).prop_map(Elem::S),
        ww => (0u8..N_STMT as u8, proptest::collection::vec(any::<u8>(), 28)).prop_map(|(k, h)| Elem::W(k, h)),
    ]
}

/// The first-generation soup: uniform vocabulary items and snippets, default VM configuration.
fn soup_strategy(nsnip: usize, max: usize) -> impl Strategy<Value = Soup> {
    (0u8..5, proptest::collection::vec(elem_strategy(nsnip, 5, 2, 0), 0..max), prop_oneof![3 => Just(u16::MAX), 1 => any::<u16>()]).prop_map(|(mode, elems, cut)| Soup { mode, elems, cut, opts: 0, prelude: 0, term: 0 })
}

/// Second generation: mostly grammar-shaped statements with some vocabulary noise, a prelude that
/// defines the user macros, weighted modes, every VM configuration.
fn deep_strategy(nsnip: usize, max: usize) -> impl Strategy<Value = Soup> {
    (
        mode_strategy(true),
        proptest::collection::vec(elem_strategy(nsnip, 1, 1, 22), 1..max),
        prop_oneof![5 => Just(u16::MAX), 1 => any::<u16>()],
        // configuration bits: lenient handlers in half of the runs, the rarer configurations in a share
        (prop_oneof![1 => Just(0u8), 1 => Just(O_LENIENT)], prop_oneof![5 => Just(0u8), 1 => Just(O_NO_WD)], prop_oneof![2 => Just(0u8), 1 => Just(O_STDIN_EOF)], prop_oneof![4 => Just(0u8), 1 => Just(O_SCRIPT)], prop_oneof![4 => Just(0u8), 1 => Just(O_SIMPLE_EA)]),
        prop_oneof![1 => Just(0u8), 2 => Just(1u8), 2 => Just(2u8), 1 => Just(3u8)],
        0u8..5,
    )
        .prop_map(|(mode, elems, cut, (a, b, c, d, e), prelude, term)| Soup { mode, elems, cut, opts: a | b | c | d | e, prelude, term })
}

#[derive(Clone, Debug, Serialize, Deserialize)]
pub struct Twice {
    pub first: Soup,
    pub second: Soup,
}

pub fn run(ctx: &Ctx) {
    run_fuzz_raw(ctx, fuzz_entry);
    ctx.rule("inputs = token soups over every installed primitive, user macros, handles made by \\newInt/\\newIntArray and \\let copies of them, braces, # and #1..#9, numbers at and beyond every limit, all units and keywords, every category code value, ^^ forms, non-ASCII and 4-byte characters, CRLF, newlines, file names (existing, missing, self-including, unbalanced, with an invalid character, with an area), interleaved with ~150 snippet programs (the stdlib's own error cases and one valid use of every primitive family) and with grammar-shaped statements whose holes are filled from pools of legal, limit and wrong-typed values; optionally truncated at any byte, under a prelude and a mode prefix (default/errorstop/scroll/nonstop/batch); run under catch_unwind in a VM with an in-memory file system and a scripted terminal, in the configurations {default handlers, handlers that survive undefined commands, script::run_to_string with the texcraft binary's extra commands, no working directory, terminal with the end-of-file behaviour of the real stdin, simple \\expandafter}, once or twice on the same VM (REPL protocol): Ok, or an error that renders to non-empty text, has a title and whose traces (of the final AND of every recovered error) lie inside a registered source (line exists and equals the recorded line, column<=line length); any panic, an endless terminal read at end of file and an error recovery that does not advance are violations. non-trivial = at least 2 soup elements, at least 3 primitives started (expansions + assignment-like commands, counted by the state hooks) and the run ended in an error or recovered from one; distinct by input text");
    ctx.assume("\\sleep is not installed (it sleeps); \\newIntArray only appears in fixed items with small sizes (it allocates what it is told to); \\time \\day \\month \\year are pinned to fixed values (the stdlib reads the wall clock)");
    ctx.assume("programs that exceed the expansion budget (3000 expansions) are cut off and counted as skipped, as the property says");
    ctx.assume("tracingmacros::hook prints with println! and cannot be captured: the harness state performs the same computations (vm.trace, write_tokens of arguments, replacement and expansion) when \\tracingmacros>0 and discards the text");
    let vocab = vocabulary();
    let snips = snippets();
    run_list(ctx, "regression_inputs", regression_inputs(), |t: &String, case| oracle_text(ctx, t.clone(), 2, case));
    let limits: Vec<String> = limit_programs().into_iter().flat_map(|p| ["", "\\scrollmode ", "\\batchmode "].into_iter().map(move |m| format!("{}{}", m, p))).collect();
    run_list(ctx, "limit_arithmetic", limits, |t: &String, case| oracle_text(ctx, t.clone(), 2, case));
    let units: Vec<String> = unit_programs().into_iter().flat_map(|p| ["", "\\scrollmode "].into_iter().map(move |m| format!("{}{}", m, p))).collect();
    run_list(ctx, "limit_units", units, |t: &String, case| oracle_text(ctx, t.clone(), 2, case));
    run_list(ctx, "config_matrix", config_matrix(), |c: &Cfg, case| run_cfg(ctx, c, 2, case));
    ctx.extra("soup_short", "vocabulary_size", serde_json::json!(vocab.len()));
    ctx.extra("soup_short", "snippets", serde_json::json!(snips.len()));
    let n = ctx.tier.pick(70_000u64, 2_000_000u64);
    run_generated(ctx, "soup_short", n, || soup_strategy(snips.len(), 8), |s: &Soup, case| oracle(ctx, s, &vocab, &snips, case));
    let n = ctx.tier.pick(20_000u64, 600_000u64);
    run_generated(ctx, "soup_long", n, || soup_strategy(snips.len(), 40), |s: &Soup, case| oracle(ctx, s, &vocab, &snips, case));
    let n = ctx.tier.pick(30_000u64, 1_500_000u64);
    run_generated(ctx, "soup_deep", n, || deep_strategy(snips.len(), 24), |s: &Soup, case| oracle(ctx, s, &vocab, &snips, case));
    let n = ctx.tier.pick(8_000u64, 400_000u64);
    run_generated(
        ctx,
        "repl_two_runs",
        n,
        || (deep_strategy(snips.len(), 10), deep_strategy(snips.len(), 10)).prop_map(|(first, second)| Twice { first, second }),
        |t: &Twice, case| {
            let text = render(&t.first, &vocab, &snips);
            // the second run has no prelude of its own: it lives on what the first run left behind
            let second = render(&Soup { prelude: 0, ..t.second.clone() }, &vocab, &snips);
            case.class(["mode:default", "mode:errorstop", "mode:scroll", "mode:nonstop", "mode:batch"][(t.first.mode % 5) as usize]);
            run_cfg_at(ctx, &Cfg { text, opts: t.first.opts & O_ALL, term: t.first.term, second: Some(second) }, t.first.elems.len() + t.second.elems.len(), PRELUDE_PRIMS[(t.first.prelude % 4) as usize], case)
        },
    );
    // every snippet alone under every mode, and every pair of vocabulary items (small scope)
    let total = snips.len() as u64 * 5;
    run_indexed(ctx, "snippets_all_modes", total, true, |i| Soup { mode: (i % 5) as u8, elems: vec![Elem::S((i / 5) as u8)], cut: u16::MAX, opts: 0, prelude: 0, term: 0 }, |s: &Soup, case| oracle(ctx, s, &vocab, &snips, case));
    // the same under the rarer VM configurations
    let total = snips.len() as u64 * 5 * 4;
    run_indexed(
        ctx,
        "snippets_all_configs",
        total,
        true,
        |i| {
            let opts = [O_LENIENT | O_STDIN_EOF, O_SCRIPT, O_NO_WD | O_SIMPLE_EA, O_SCRIPT | O_STDIN_EOF | O_NO_WD][(i % 4) as usize];
            Soup { mode: ((i / 4) % 5) as u8, elems: vec![Elem::S((i / 20) as u8)], cut: u16::MAX, opts, prelude: (i % 3) as u8, term: ((i / 4) % 5) as u8 }
        },
        |s: &Soup, case| oracle(ctx, s, &vocab, &snips, case),
    );
    // every statement template with three fixed fillings, alone, in scroll mode (proves each template renders and runs)
    let total = N_STMT as u64 * 3;
    run_indexed(ctx, "statement_templates", total, true, |i| Soup { mode: 2, elems: vec![Elem::W((i / 3) as u8, vec![(i % 3) as u8 * 7; 12]), Elem::W((i / 3) as u8, vec![(i % 3) as u8 * 5 + 1; 12])], cut: u16::MAX, opts: O_LENIENT, prelude: 2, term: 0 }, |s: &Soup, case| oracle(ctx, s, &vocab, &snips, case));
    let nv = vocab.len() as u64;
    // quick: all ordered pairs of the first-generation items (as before) plus every pair that involves
    // a second-generation item, in the default mode; thorough: all pairs under all five prefixes
    let pairs = ctx.tier.pick(nv * nv, nv * nv * 5);
    let to_idx = |k: u64| -> u16 { (((k << 16) + (1 << 15)) / nv) as u16 };
    run_indexed(
        ctx,
        "vocabulary_pairs",
        pairs,
        true,
        |i| {
            let a = i % nv;
            let b = (i / nv) % nv;
            let mode = (i / (nv * nv)) as u8;
            Soup { mode, elems: vec![Elem::T(to_idx(a)), Elem::T(to_idx(b))], cut: u16::MAX, opts: 0, prelude: 0, term: 0 }
        },
        |s: &Soup, case| oracle(ctx, s, &vocab, &snips, case),
    );
}

/// Entry point shared by the libFuzzer target and the `fuzz_raw` replay sub-check: the first byte
/// selects the interaction mode prefix.
pub fn fuzz_entry(ctx: &Ctx, data: &[u8]) -> Verdict {
    let Some((sel, rest)) = data.split_first() else { return Verdict::pass(false) };
    let mode = MODES[(*sel % 5) as usize];
    let text = format!("{}{}", mode, String::from_utf8_lossy(rest));
    // \newIntArray allocates what it is told to: keep it out of fuzz inputs
    if text.contains("newIntArray") {
        return Verdict::Skip("\\newIntArray in a fuzz input");
    }
    // bits 3..7 of the selector byte choose the VM configuration (0 for the stored seeds' selectors 0..4)
    let opts = (*sel / 8) & O_ALL;
    run_cfg(ctx, &Cfg { text, opts, term: (*sel / 5) % 5 * u8::from(opts != 0), second: None }, 2, &mut Case::default())
}
