//! C08 Checkpointing a VM is transparent: serialise, deserialise, continue.
//!
//! Differential check: the same `VM<StdLibState>` continued WITHOUT a checkpoint is the reference for
//! the VM that went through serialise + deserialise (once or twice in one history). Observations:
//! token-exact output, the fatal error in detail (title, kind, traces, stack, notes), the errors
//! recorded by the interaction-mode component, and Rust-level sweeps of every visible command
//! (built-in identity) and of the whole `StdLibState` after the round trip and at the end.

use crate::engine::*;
use crate::props::c01;
use crate::texvm::OutTok;
use proptest::prelude::*;
use serde::{Deserialize, Serialize};
use std::cell::RefCell;
use std::collections::BTreeSet;
use std::rc::Rc;
use texlang::command::Command;
use texlang::error::{self, TracedTexError};
use texlang::token::{trace::SourceCodeTrace, CommandRef, CsName, Token, Value};
use texlang::traits::*;
use texlang::variable::SupportedType;
use texlang::vm;
use texlang_stdlib::StdLibState;

type Vm = vm::VM<StdLibState>;

thread_local! {
    static OUT: RefCell<Vec<OutTok>> = const { RefCell::new(vec![]) };
}

struct Capture;

fn value_out(vm: &Vm, v: Value) -> OutTok {
    match v {
        Value::CommandRef(CommandRef::ControlSequence(name)) => OutTok::Cs(vm.cs_name_interner().resolve(name).unwrap_or("?").to_string()),
        Value::CommandRef(CommandRef::ActiveCharacter(c)) => OutTok::Active(c),
        v => OutTok::Ch(v.char().unwrap(), v.cat_code().map(|c| c as u8).unwrap_or(0)),
    }
}

fn to_out(vm: &Vm, t: Token) -> OutTok {
    value_out(vm, t.value())
}

impl vm::Handlers<StdLibState> for Capture {
    fn character_handler(input: &mut vm::ExecutionInput<StdLibState>, token: Token, _c: char) -> texlang::prelude::Result<()> {
        let o = to_out(input.vm(), token);
        OUT.with(|v| v.borrow_mut().push(o));
        Ok(())
    }
    fn unexpanded_expansion_command(input: &mut vm::ExecutionInput<StdLibState>, token: Token) -> texlang::prelude::Result<()> {
        let o = to_out(input.vm(), token);
        OUT.with(|v| v.borrow_mut().push(o));
        Ok(())
    }
    /// An undefined command met by the main loop is RECORDED (`\undefined:<name>`) and the run goes on, so
    /// that "this name is undefined again after its group" is an observation instead of the end of the
    /// run. Names starting with `vpundefined` keep the default behaviour (the deliberate final error).
    fn undefined_command_handler(input: &mut vm::ExecutionInput<StdLibState>, token: Token) -> texlang::prelude::Result<()> {
        let name = match to_out(input.vm(), token) {
            OutTok::Cs(n) => n,
            OutTok::Active(c) => format!("active {c}"),
            _ => "?".to_string(),
        };
        if name.starts_with("vpundefined") {
            return Err(input.fatal_error(error::UndefinedCommandError::new(input.vm(), token)));
        }
        OUT.with(|v| v.borrow_mut().push(OutTok::Cs(format!("undefined:{name}"))));
        Ok(())
    }
}

#[derive(Debug, Clone, PartialEq, Eq)]
struct Run {
    out: Vec<OutTok>,
    /// title of the fatal error that ended the run
    error: Option<String>,
    /// everything a user sees of that error except the hash-order dependent "did you mean" note
    detail: Option<String>,
}

fn trace_str(t: &SourceCodeTrace) -> String {
    format!("{:?} line {} col {} value {:?} in {:?}", t.origin, t.line_number, t.index, t.value, t.line_content)
}

/// Canonical rendering of a traced error: title, kind, the trace of every token involved (sorted: the map
/// is in hash order), end-of-input trace, stack trace, source annotation, notes. The notes of "undefined
/// control sequence" are left out: the suggestion is the first of a list in HashMap order.
fn error_detail(vm: &Vm, e: &TracedTexError) -> String {
    let tok = |t: Token| crate::texvm::render(&[to_out(vm, t)]);
    let mut s = format!("title: {}\n", e.error.title());
    match e.error.kind() {
        error::Kind::Token(t) => s.push_str(&format!("kind: token {}\n", tok(t))),
        error::Kind::EndOfInput => s.push_str("kind: end of input\n"),
        error::Kind::FailedPrecondition => s.push_str("kind: failed precondition\n"),
    }
    let mut traces: Vec<String> = e.token_traces.iter().map(|(t, tr)| format!("trace of {}: {}", tok(*t), trace_str(tr))).collect();
    traces.sort();
    for t in traces {
        s.push_str(&t);
        s.push('\n');
    }
    if let Some(t) = &e.end_of_input_trace {
        s.push_str(&format!("end of input: {}\n", trace_str(t)));
    }
    for el in &e.stack_trace {
        s.push_str(&format!("stack: {:?} {} {}\n", el.context, tok(el.token), trace_str(&el.trace)));
    }
    s.push_str(&format!("annotation: {}\n", e.error.source_annotation()));
    if e.error.title() != "undefined control sequence" {
        for n in e.error.notes() {
            match n {
                error::display::Note::Text(t) => s.push_str(&format!("note: {t}\n")),
                error::display::Note::SourceCodeTrace(t, k) => s.push_str(&format!("note: {t} {}\n", tok(k))),
            }
        }
    }
    s
}

fn run(vm: &mut Vm, name: &str, src: &str) -> Run {
    OUT.with(|v| v.borrow_mut().clear());
    vm.push_source(name.to_string(), src.to_string()).ok();
    let r = vm.run::<Capture>();
    let out = OUT.with(|v| std::mem::take(&mut *v.borrow_mut()));
    match r {
        Ok(()) => Run { out, error: None, detail: None },
        Err(e) => Run { out, error: Some(e.error.title()), detail: Some(error_detail(vm, &e)) },
    }
}

/// The terminal is not part of the serialised VM (`#[serde(skip)]`): the host installs it. Every arm gets
/// an exhausted mock terminal, so that `\read` from a closed stream is a clean fatal error whose note
/// tells the interaction mode apart (mock terminal in errorstop/scroll mode, "cannot \read from terminal in
/// nonstop modes" otherwise) and real stdin is never touched.
fn install_terminal(vm: &mut Vm) {
    vm.state.error_mode.set_default_terminal(Rc::new(RefCell::new(texlang_common::MockTerminalIn::default())));
}

/// A fresh VM with a fixed date (the default one reads the clock, the arms are created at different times).
fn new_vm() -> Box<Vm> {
    let mut vm = Box::new(Vm::new());
    vm.state.time = texlang_stdlib::time::Component::new_with_values(754, 14, 7, 1789);
    install_terminal(&mut vm);
    vm
}

#[derive(Clone, Copy, Debug, PartialEq, Eq, Serialize, Deserialize)]
pub enum Format {
    Json,
    MessagePack,
    Bincode,
}

/// `via_trait`: JSON through `impl Deserialize for VM<S: HasDefaultBuiltInCommands>` instead of
/// `deserialize_with_built_in_commands`.
fn checkpoint(vm: &Vm, format: Format, via_trait: bool) -> Result<(Vm, usize), String> {
    let built_ins = || StdLibState::default_built_in_commands();
    match format {
        Format::Json => {
            let s = serde_json::to_string(vm).map_err(|e| format!("JSON serialisation failed: {e}"))?;
            let vm2 = if via_trait {
                *serde_json::from_str::<Box<Vm>>(&s).map_err(|e| format!("JSON deserialisation (Deserialize for VM) failed: {e}"))?
            } else {
                let mut d = serde_json::Deserializer::from_str(&s);
                vm::VM::deserialize_with_built_in_commands(&mut d, built_ins()).map_err(|e| format!("JSON deserialisation failed: {e}"))?
            };
            Ok((vm2, s.len()))
        }
        Format::MessagePack => {
            let s = rmp_serde::to_vec(vm).map_err(|e| format!("MessagePack serialisation failed: {e}"))?;
            let mut d = rmp_serde::decode::Deserializer::from_read_ref(&s);
            let vm2 = vm::VM::deserialize_with_built_in_commands(&mut d, built_ins()).map_err(|e| format!("MessagePack deserialisation failed: {e}"))?;
            Ok((vm2, s.len()))
        }
        Format::Bincode => {
            let s = bincode::serde::encode_to_vec(vm, bincode::config::standard()).map_err(|e| format!("bincode serialisation failed: {e}"))?;
            let d: Box<vm::serde::DeserializedVM<StdLibState>> = bincode::serde::decode_from_slice(&s, bincode::config::standard()).map_err(|e| format!("bincode deserialisation failed: {e}"))?.0;
            Ok((vm::serde::finish_deserialization(d, built_ins()), s.len()))
        }
    }
}

// ---------------------------------------------------------------------------------------------
// Rust-level sweeps
// ---------------------------------------------------------------------------------------------

/// Identity of a command as far as the public API shows it. Function pointers and tags are comparable
/// because both VMs live in this process.
fn fingerprint(vm: &Vm, cmd: Option<&Command<StdLibState>>) -> String {
    let Some(cmd) = cmd else { return "undefined".into() };
    match cmd {
        Command::Execution(f, tag) => format!("execution {:#x} {:?}", *f as usize, tag),
        Command::Expansion(f, tag) => format!("expansion {:#x} {:?}", *f as usize, tag),
        Command::Variable(v) => {
            let mut s = String::from("variable");
            macro_rules! getters {
                ($t:ty, $n:literal) => {
                    if let Some((a, b)) = <$t as SupportedType>::try_cast::<StdLibState>(&**v) {
                        s.push_str(&format!(" {} {:#x} {:#x}", $n, a as usize, b as usize));
                    }
                };
            }
            getters!(i32, "int");
            getters!(u8, "smallint");
            getters!(common::Scaled, "dimen");
            getters!(common::Glue, "glue");
            getters!(texlang::types::CatCode, "catcode");
            getters!(texlang::types::MathCode, "mathcode");
            getters!(Vec<Token>, "toks");
            getters!(texlang::types::Font, "font");
            s
        }
        Command::Macro(m) => {
            let mut s = format!("macro {} => ", m.doc(vm.cs_name_interner()));
            for r in m.replacements() {
                match r {
                    texlang::texmacro::Replacement::Parameter(i) => s.push_str(&format!("<#{}>", i + 1)),
                    texlang::texmacro::Replacement::Tokens(ts) => {
                        let v: Vec<OutTok> = ts.iter().rev().map(|t| to_out(vm, *t)).collect();
                        s.push_str(&crate::texvm::render(&v));
                    }
                }
            }
            s
        }
        Command::CharacterTokenAlias(v) => format!("alias of {}", crate::texvm::render(&[value_out(vm, *v)])),
        Command::Character(c) => format!("character {:?}", c),
        Command::MathCharacter(c) => format!("math character {:?}", c),
        Command::Font(f) => format!("font {:?}", f),
    }
}

fn interned_names(vm: &Vm, into: &mut BTreeSet<String>) {
    let mut k = 1usize;
    while let Some(name) = CsName::try_from_usize(k) {
        match vm.cs_name_interner().resolve(name) {
            Some(s) => into.insert(s.to_string()),
            None => break,
        };
        k += 1;
    }
}

const ACTIVE_HIGH: char = 'λ';

/// Every control sequence either VM has a name for, and every active character below 128 (plus the one
/// non-ASCII character the generator makes active), must mean the same in both VMs.
fn sweep_commands(x: &Vm, y: &Vm) -> Result<usize, String> {
    let mut names = BTreeSet::new();
    interned_names(x, &mut names);
    interned_names(y, &mut names);
    let look = |vm: &Vm, n: &str| -> String {
        match vm.cs_name_interner().get(n) {
            None => "undefined".to_string(),
            Some(k) => fingerprint(vm, vm.commands_map.get_command(&CommandRef::ControlSequence(k))),
        }
    };
    for n in &names {
        let (a, b) = (look(x, n), look(y, n));
        if a != b {
            return Err(format!("\\{n} is [{a}] in the reference VM and [{b}] in the deserialised VM"));
        }
    }
    for c in (0u8..128).map(|c| c as char).chain(std::iter::once(ACTIVE_HIGH)) {
        let r = CommandRef::ActiveCharacter(c);
        let (a, b) = (fingerprint(x, x.commands_map.get_command(&r)), fingerprint(y, y.commands_map.get_command(&r)));
        if a != b {
            return Err(format!("active character {c:?} is [{a}] in the reference VM and [{b}] in the deserialised VM"));
        }
    }
    Ok(names.len())
}

/// Make the JSON view of a component independent of VM-internal numbering: control sequence numbers become
/// names, trace keys are dropped, and the two sequences that are written in HashMap order are sorted.
fn canon(vm: &Vm, v: &mut serde_json::Value) {
    use serde_json::Value as J;
    match v {
        J::Object(m) => {
            m.remove("trace_key");
            m.remove("trace_key_range");
            if m.len() == 1 {
                if let Some(J::Number(n)) = m.get("ControlSequence") {
                    let name = n.as_u64().and_then(|u| CsName::try_from_usize(u as usize)).and_then(|k| vm.cs_name_interner().resolve(k)).unwrap_or("?").to_string();
                    m.insert("ControlSequence".into(), J::String(name));
                }
            }
            for (k, x) in m.iter_mut() {
                canon(vm, x);
                if k == "array_refs" || k == "token_traces" {
                    if let J::Array(a) = x {
                        a.sort_by_key(|e| e.to_string());
                    }
                }
            }
        }
        J::Array(a) => {
            for x in a {
                canon(vm, x);
            }
        }
        _ => {}
    }
}

/// JSON views of every component of `StdLibState` except the three big numeric register files (compared
/// directly) and the two components without serialised state (`repl`, `script`).
fn state_view(vm: &Vm) -> Result<Vec<(&'static str, serde_json::Value)>, String> {
    let s = &vm.state;
    let mut out = vec![];
    macro_rules! view {
        ($f:ident) => {
            let mut v = serde_json::to_value(&s.$f).map_err(|e| format!("the `{}` component of the state cannot be serialised to JSON: {}", stringify!($f), e))?;
            canon(vm, &mut v);
            out.push((stringify!($f), v));
        };
    }
    view!(alloc);
    view!(codes_cat_code);
    view!(codes_math_code);
    view!(conditional);
    view!(end_line_char);
    view!(error_mode);
    view!(input);
    view!(job);
    view!(prefix);
    view!(registers_token_list);
    view!(time);
    view!(tracing_macros);
    Ok(out)
}

fn sweep_state(x: &Vm, y: &Vm) -> Result<(), String> {
    let (vx, vy) = (state_view(x)?, state_view(y)?);
    for ((n, a), (_, b)) in vx.iter().zip(vy.iter()) {
        if a != b {
            let (sa, sb) = (a.to_string(), b.to_string());
            let p = sa.bytes().zip(sb.bytes()).take_while(|(p, q)| p == q).count();
            let lo = p.saturating_sub(60);
            let clip = |s: &str| s.get(lo..(p + 100).min(s.len())).unwrap_or("<non-ASCII context>").to_string();
            return Err(format!("state component `{n}` differs: reference ...{}... deserialised ...{}...", clip(&sa), clip(&sb)));
        }
    }
    let (a, b) = (x.state.registers_i32.values(), y.state.registers_i32.values());
    if let Some(i) = (0..a.len()).find(|&i| a[i] != b[i]) {
        return Err(format!("\\count{i} is {} in the reference VM and {} in the deserialised VM", a[i], b[i]));
    }
    let (a, b) = (x.state.registers_scaled.values(), y.state.registers_scaled.values());
    if let Some(i) = (0..a.len()).find(|&i| a[i] != b[i]) {
        return Err(format!("\\dimen{i} is {:?} in the reference VM and {:?} in the deserialised VM", a[i], b[i]));
    }
    let (a, b) = (x.state.registers_glue.values(), y.state.registers_glue.values());
    if let Some(i) = (0..a.len()).find(|&i| a[i] != b[i]) {
        return Err(format!("\\skip{i} is {:?} in the reference VM and {:?} in the deserialised VM", a[i], b[i]));
    }
    Ok(())
}

// ---------------------------------------------------------------------------------------------
// Cases
// ---------------------------------------------------------------------------------------------

/// Extra state P1 may leave behind, each with observers in P2 (inside the open group and again after
/// every group has been closed).
#[derive(Clone, Debug, Serialize, Deserialize)]
pub enum Extra {
    NewInt(i32),
    NewIntArray(u8, i32),
    ParamMacro,
    FreshName(u8),
    /// \openin on a seed file; read `n` lines before the checkpoint
    OpenIn(u8, u8),
    /// leave a conditional open: 0 \iftrue, 1 \iffalse..\else, 2 \ifcase 1 ..\or, 3 \ifnum
    OpenCond(u8),
    LetPrimitive,
    LetChar,
    MathCharDef(u16),
    ToksWithCs,
    Year(i32),
    ActiveDef(u8),
    ActiveLet,
    CatcodeOfLetter,
    Gdef,
    /// interaction mode (0 errorstop, 1 scroll, 2 nonstop, 3 batch); `err` > 0: a recoverable error is
    /// recorded first (under \batchmode, which prints nothing)
    Mode { mode: u8, err: u8 },
    /// a conditional opened at depth 0 right after the preamble: every group of the history is inside it
    OuterCond(u8),
    /// \catcode / \mathcode of a character >= 128 (the `high` map of the codes component)
    HighCode { c: u32, cat: u8, math: u16 },
    /// a non-ASCII active character with a definition
    ActiveHigh,
    /// registers far from the ones the history uses: kind 0 count, 1 dimen, 2 skip, 3 toks
    FarReg { kind: u8, idx: u16, a: i32, b: i32, c: i32, ord: u8 },
    /// \day \month \time
    Time(i32, i32, i32),
    /// \dumpFormat \tracingmacros (never positive: tracing prints to stdout), \jobname
    JobVars(u8, i32),
    /// the name of a built-in redefined before the checkpoint
    RedefBuiltin(u8),
    /// \openin stream (0..15) on seed file a / b / a missing file, `before` guarded reads in P1, `after`
    /// guarded reads in P2 (enough to reach the end of the file), then 0 nothing, 1 \closein, 2 reopen,
    /// 3 reopen the other file, 4 open a missing file
    Stream { s: u8, file: u8, before: u8, after: u8, then: u8 },
    /// a name of unusual form in the interner: 0 the empty name (an escape character at the very end of a
    /// line that has no end-line character), 1 a non-ASCII control symbol, 2 a name of 150 letters,
    /// 3 the control space
    OddName(u8),
}

#[derive(Clone, Debug, Serialize, Deserialize)]
pub struct CkCase {
    pub program: c01::Program,
    /// split point as a fraction of the operation count
    pub split: u16,
    pub extras: Vec<Extra>,
    pub format: Format,
    /// defining halves of the extras (allocations, first definitions) go to depth 0 right after the
    /// preamble; only the local change stays at the end of P1
    #[serde(default)]
    pub hoist: bool,
    /// deliberate fatal error as the very last thing of P2 (0 = none), see `FINAL_ERRORS`
    #[serde(default)]
    pub fin: u8,
    /// second checkpoint inside P2: (fraction of the remaining operations, format)
    #[serde(default)]
    pub second: Option<(u16, Format)>,
    /// JSON through `impl Deserialize for VM`
    #[serde(default)]
    pub via_trait: bool,
}

/// Definitions every P1 makes at depth 0 (targets of the deliberate final errors).
const P0_FIXED: &str = "\\def\\vperr{\\vpundefinedcs}\\def\\vperrg{\\global\\closein}";

/// (name, text): 1 undefined control sequence out of a macro defined in P1; 2 \read from the terminal
/// (tells the interaction modes apart); 3 unmatched `}`; 4 end of input inside an assignment; 5 an error
/// with two traced tokens, both born in P1
const FINAL_ERRORS: [(&str, &str); 5] = [
    ("final error: undefined cs from a P1 macro", "\\vperr"),
    ("final error: \\read from the terminal", "\\read16 to\\vpq"),
    ("final error: unmatched }", "}"),
    ("final error: end of input", "\\count1="),
    ("final error: two traced tokens from P1", "\\vperrg"),
];

const MODES: [&str; 4] = ["\\errorstopmode ", "\\scrollmode ", "\\nonstopmode ", "\\batchmode "];

/// Recoverable errors (each checked to be recoverable: the run continues under \batchmode). The last
/// three close/skip conditionals and are only used when no conditional is open.
const RECOVERABLE: [&str; 9] = [
    "\\count9=2147483648\\relax ",
    "\\divide\\count9 by 0\\relax ",
    "\\catcode`\\Q=99\\relax ",
    "\\count40000=1\\relax ",
    "\\dimen9=16384pt\\relax ",
    "\\mathchardef\\vpbadmc=40000\\relax ",
    "\\else ",
    "\\fi ",
    "\\or ",
];

fn clamp(v: i32) -> i32 {
    // -2147483648 cannot be written as a TeX number
    v.max(-2147483647)
}

#[derive(Default)]
struct Pieces {
    /// depth 0, right after the preamble
    p0: String,
    /// first thing of the extras block at the end of P1
    first: String,
    /// end of P1, inside the groups P1 left open
    p1: String,
    /// first thing of P2: observers, still inside the open groups and conditionals
    obs: String,
    /// close the conditionals opened in `p1`
    closers: String,
    /// after the history has closed every group: probes that cannot end the run
    tail: String,
    /// probes that are fatal if their name is undefined again (kept last)
    tail_fatal: String,
    /// close the conditionals opened in `p0`
    outer_closers: String,
    classes: Vec<&'static str>,
    mode: Option<u8>,
}

fn render_extras(extras: &[Extra], hoist: bool, seed_dir: &str) -> Pieces {
    let mut p = Pieces::default();
    let mut used_streams = [false; 16];
    let mut seen: Vec<std::mem::Discriminant<Extra>> = vec![];
    let mut n_newint = 0usize;
    let mut n_newarr = 0usize;
    let any_cond = extras.iter().any(|e| matches!(e, Extra::OuterCond(_)));
    let seed = |k: u8| -> String {
        match k % 3 {
            0 => format!("{seed_dir}/c08a"),
            1 => format!("{seed_dir}/c08b"),
            _ => format!("{seed_dir}/c08missing"),
        }
    };
    for e in extras {
        // most kinds at most once (their names are fixed)
        let d = std::mem::discriminant(e);
        let repeatable = matches!(e, Extra::OpenCond(_) | Extra::OuterCond(_) | Extra::OpenIn(..) | Extra::Stream { .. } | Extra::NewInt(_) | Extra::NewIntArray(..) | Extra::HighCode { .. } | Extra::FarReg { .. });
        if seen.contains(&d) && !repeatable {
            continue;
        }
        seen.push(d);
        match e {
            Extra::NewInt(v) => {
                if n_newint == 3 {
                    continue;
                }
                let name = ["\\vpnewint", "\\vpnewintb", "\\vpnewintc"][n_newint];
                n_newint += 1;
                p.classes.push("extra: \\newInt");
                if n_newint == 2 {
                    p.classes.push("two or more \\newInt");
                }
                let alloc = format!("\\newInt{name} ");
                let set = format!("{name}={}\\relax ", clamp(*v));
                let read = format!("\\the{name};");
                if hoist {
                    p.p0.push_str(&alloc);
                    p.p1.push_str(&set);
                    p.tail.push_str(&read);
                } else {
                    p.p1.push_str(&alloc);
                    p.p1.push_str(&set);
                    p.tail.push_str(&format!("{name}=7 ;"));
                    p.tail_fatal.push_str(&read);
                }
                p.obs.push_str(&format!("\\the{name};\\advance{name} by 1\\relax \\the{name};"));
            }
            Extra::NewIntArray(n, v) => {
                if n_newarr == 2 {
                    continue;
                }
                let name = ["\\vpnewarr", "\\vpnewarrb"][n_newarr];
                n_newarr += 1;
                p.classes.push("extra: \\newIntArray");
                if n_newarr == 2 {
                    p.classes.push("two \\newIntArray");
                }
                let n = (*n % 5) as usize + 1;
                let alloc = format!("\\newIntArray{name} {n} ");
                let set = format!("{name} {}={}\\relax ", n - 1, clamp(*v));
                let read = format!("\\the{name} {};\\the{name} 0;", n - 1);
                if hoist {
                    p.p0.push_str(&alloc);
                    p.p1.push_str(&set);
                    p.tail.push_str(&read);
                } else {
                    p.p1.push_str(&alloc);
                    p.p1.push_str(&set);
                    p.tail.push_str(&format!("{name} 0=4 ;"));
                    p.tail_fatal.push_str(&read);
                }
                p.obs.push_str(&format!("\\the{name} {};{name} 0=3\\relax \\the{name} 0;", n - 1));
            }
            Extra::ParamMacro => {
                p.classes.push("extra: parameter macro");
                let def = "\\def\\vpmp#1.#2{[#2:#1]}";
                if hoist {
                    p.p0.push_str(def);
                    p.p1.push_str("\\def\\vpmp#1.#2{(#1/#2)}");
                } else {
                    p.p1.push_str(def);
                }
                p.obs.push_str("\\vpmp ab.c;\\vpmp{x.y}.{zz};");
                p.tail.push_str("\\vpmp ab.c;");
            }
            Extra::OddName(k) => {
                // (definition, use); the definitions and uses are lines of their own where needed
                let (def, usage): (String, String) = match *k % 4 {
                    0 => {
                        p.classes.push("extra: control sequence with the empty name");
                        ("%\n\\endlinechar=-1\\relax\n\\def\\\n{EN}\\endlinechar=13\\relax\n".to_string(), "%\n\\endlinechar=-1\\relax\n(\\\n)\\endlinechar=13\\relax\n".to_string())
                    }
                    1 => {
                        p.classes.push("extra: non-ASCII control symbol");
                        ("\\def\\\u{e9}{S\u{e9}}\\def\\\u{10348}{T}".to_string(), "\\\u{e9};\\\u{10348};".to_string())
                    }
                    2 => {
                        p.classes.push("extra: name of 150 letters");
                        let name = "vplong".repeat(25);
                        (format!("\\def\\{name}{{L}}\\def\\{name}x{{M}}"), format!("\\{name};\\{name}x;"))
                    }
                    _ => {
                        p.classes.push("extra: control space redefined");
                        ("\\def\\ {SP}".to_string(), "\\ ;".to_string())
                    }
                };
                if hoist {
                    p.p0.push_str(&def);
                } else {
                    p.p1.push_str(&def);
                }
                p.obs.push_str(&usage);
                p.tail.push_str(&usage);
            }
            Extra::FreshName(k) => {
                p.classes.push("extra: fresh name");
                let name = format!("vpfresh{}", ["A", "Bb", "Ccc", "Dddd"][(*k % 4) as usize]);
                let def = format!("\\def\\{name}{{Q\\{name}x }}\\def\\{name}x{{R}}");
                if hoist {
                    p.p0.push_str(&def);
                    p.p1.push_str(&format!("\\def\\{name}x{{r}}"));
                } else {
                    p.p1.push_str(&def);
                }
                p.obs.push_str(&format!("\\{name};"));
                p.tail.push_str(&format!("\\{name};\\{name}x;"));
            }
            Extra::OpenIn(stream, n) => {
                let s = (*stream % 4) as usize;
                if used_streams[s] {
                    continue;
                }
                used_streams[s] = true;
                p.classes.push("open \\openin stream");
                if *n % 3 >= 1 {
                    p.classes.push("stream partially read before the checkpoint");
                }
                p.p1.push_str(&format!("\\openin{}={} ", s, seed(s as u8 % 2)));
                for k in 0..(*n % 3) {
                    p.p1.push_str(&format!("\\read{} to\\vpline{} ", s, ["a", "b", "c"][k as usize]));
                }
                for k in 0..(*n % 3) {
                    p.obs.push_str(&format!("\\vpline{};", ["a", "b", "c"][k as usize]));
                }
                p.obs.push_str(&format!("\\ifeof{s} T\\else F\\fi;\\read{s} to\\vplinez \\vplinez;\\ifeof{s} T\\else F\\fi;"));
                p.tail.push_str(&format!("\\vplinez;\\ifeof{s} T\\else\\read{s} to\\vplinez \\vplinez\\fi;"));
            }
            Extra::Stream { s, file, before, after, then } => {
                let s = (*s % 16) as usize;
                if used_streams[s] {
                    continue;
                }
                used_streams[s] = true;
                let (before, after) = (*before % 10, *after % 10);
                let missing = *file % 3 == 2;
                p.classes.push(if missing { "\\openin of a missing file" } else { "open \\openin stream" });
                if !missing && before >= 1 {
                    p.classes.push("stream partially read before the checkpoint");
                }
                if !missing && before + after >= 8 {
                    p.classes.push("stream read to the end of its file");
                }
                if s >= 4 {
                    p.classes.push("stream number >= 4");
                }
                let l = (b'a' + s as u8) as char;
                let name = |j: u8, side: char| format!("\\vpl{l}{side}{}", (b'a' + j) as char);
                // every \read is guarded by \ifeof: a closed stream would read from the terminal
                p.p1.push_str(&format!("\\openin{s}={} ", seed(*file)));
                for j in 0..before {
                    p.p1.push_str(&format!("\\ifeof{s} E\\else\\read{s} to{} R\\fi;", name(j, 'p')));
                }
                for j in 0..before {
                    p.obs.push_str(&format!("{};", name(j, 'p')));
                }
                p.obs.push_str(&format!("\\ifeof{s} T\\else F\\fi;"));
                for j in 0..after {
                    p.obs.push_str(&format!("\\ifeof{s} E\\else\\read{s} to{} {}\\fi;", name(j, 'q'), name(j, 'q')));
                }
                let probe = format!("\\ifeof{s} T\\else F\\read{s} to\\vplast \\vplast\\fi;");
                match *then % 5 {
                    0 => {}
                    1 => {
                        p.classes.push("\\closein after the checkpoint");
                        p.obs.push_str(&format!("\\closein{s} {probe}"));
                    }
                    2 => p.obs.push_str(&format!("\\openin{s}={} {probe}", seed(*file))),
                    3 => p.obs.push_str(&format!("\\openin{s}={} {probe}", seed(*file + 1))),
                    _ => p.obs.push_str(&format!("\\openin{s}={seed_dir}/c08missing {probe}")),
                }
                p.tail.push_str(&format!("{};{};{probe}", name(0, 'p'), name(0, 'q')));
            }
            Extra::OpenCond(k) | Extra::OuterCond(k) => {
                let outer = matches!(e, Extra::OuterCond(_));
                p.classes.push(if outer { "conditional opened outside all groups" } else { "checkpoint inside a conditional" });
                let (open, close) = match k % 4 {
                    0 => ("\\iftrue ", "T\\else F\\fi;"),
                    1 => ("\\iffalse A\\else ", "E\\fi;"),
                    2 => ("\\ifcase 1 A\\or ", "B\\or C\\else D\\fi;"),
                    _ => ("\\ifnum 1<2 ", "L\\else G\\fi;"),
                };
                if outer {
                    p.p0.push_str(open);
                    p.outer_closers.insert_str(0, close);
                } else {
                    p.p1.push_str(open);
                    p.closers.insert_str(0, close);
                }
            }
            Extra::LetPrimitive => {
                p.classes.push("extra: \\let of primitives");
                p.p1.push_str("\\let\\vpmycount=\\count \\let\\vpmyfi=\\fi \\let\\vpmydef=\\def ");
                p.obs.push_str("\\vpmycount 7=5\\relax \\the\\count7;\\iftrue Y\\vpmyfi;\\vpmydef\\vpz{Z}\\vpz;");
                p.tail.push_str("\\vpmycount 7=6 ;\\the\\count7;\\vpmydef\\vpzb{Z}\\vpzb;");
            }
            Extra::LetChar => {
                p.classes.push("extra: \\let of characters");
                p.p1.push_str("\\let\\vpch=a\\let\\vpbg={");
                p.obs.push_str("\\vpch;\\vpbg\\count9=4\\relax}\\the\\count9;");
                p.tail.push_str("\\vpch;");
                p.tail_fatal.push_str("\\vpbg\\count9=5\\relax}\\the\\count9;");
            }
            Extra::MathCharDef(v) => {
                p.classes.push("extra: \\mathchardef");
                p.p1.push_str(&format!("\\mathchardef\\vpmc={}\\relax ", v % 32768));
                p.obs.push_str("\\the\\vpmc;");
                p.tail_fatal.push_str("\\the\\vpmc;");
            }
            Extra::ToksWithCs => {
                p.classes.push("extra: token list holding control sequences");
                if hoist {
                    p.p0.push_str("\\def\\vptk{k}\\toks3={0}");
                }
                p.p1.push_str("\\def\\vptk{K}\\toks3={\\vptk b\\vptk}");
                p.obs.push_str("\\the\\toks3;");
                p.tail.push_str("\\the\\toks3;\\vptk;");
            }
            Extra::Year(v) => {
                p.classes.push("extra: \\year");
                p.p1.push_str(&format!("\\year={}\\relax ", clamp(*v)));
                p.obs.push_str("\\the\\year;");
                p.tail.push_str("\\the\\year;");
            }
            Extra::ActiveDef(k) => {
                p.classes.push("active character defined");
                let body = ["U", "VW", ""][(*k % 3) as usize];
                if hoist {
                    p.p0.push_str("\\catcode`\\|=13\\relax \\def|{u}");
                }
                p.p1.push_str(&format!("\\catcode`\\|=13\\relax \\def|{{{}}}", body));
                p.obs.push_str("|;");
                // the history may have given `|` any category code at depth 0 (comment, invalid, ...):
                // the bare probe goes last
                p.tail.push_str("\\the\\catcode`\\|;");
                p.tail_fatal.push_str("|;");
            }
            Extra::ActiveLet => {
                p.classes.push("active character defined");
                p.p1.push_str("\\catcode`\\!=13\\relax \\let!=\\relax \\def\\vpal{(!)}");
                p.obs.push_str("\\vpal;");
                p.tail.push_str("\\vpal;!;\\the\\catcode`\\!;");
            }
            Extra::CatcodeOfLetter => {
                p.classes.push("extra: \\catcode of letters");
                p.p1.push_str("\\catcode`\\Q=12\\relax \\catcode`\\@=11\\relax \\def\\vp@x{@}");
                p.obs.push_str("\\the\\catcode`\\Q;\\vp@x;");
                p.tail.push_str("\\the\\catcode`\\Q;\\the\\catcode`\\@;\\vp@x;");
            }
            Extra::Gdef => {
                p.classes.push("extra: \\gdef next to \\def");
                if hoist {
                    p.p0.push_str("\\def\\vpg{g}\\def\\vpl{l}");
                }
                p.p1.push_str("\\gdef\\vpg{G}\\def\\vpl{L}");
                p.obs.push_str("\\vpg;\\vpl;");
                p.tail.push_str("\\vpg;\\vpl;");
            }
            Extra::Mode { mode, err } => {
                let mode = *mode % 4;
                p.mode = Some(mode);
                p.classes.push(["mode: errorstop", "mode: scroll", "mode: nonstop", "mode: batch"][mode as usize]);
                if *err > 0 {
                    p.classes.push("recoverable error recorded before the checkpoint");
                    let n = if any_cond { RECOVERABLE.len() - 3 } else { RECOVERABLE.len() };
                    p.first.push_str("\\batchmode ");
                    p.first.push_str(RECOVERABLE[(*err as usize - 1) % n]);
                }
                p.first.push_str(MODES[mode as usize]);
                if mode == 3 {
                    // recoverable errors after the checkpoint: recorded, the run continues
                    p.obs.push_str("\\count9=2147483648\\relax R;\\the\\count9;\\divide\\count9 by 0\\relax S;");
                }
            }
            Extra::HighCode { c, cat, math } => {
                p.classes.push("extra: \\catcode/\\mathcode of a character >= 128");
                // not the two non-ASCII characters that occur in the generated text
                let c = if *c == ACTIVE_HIGH as u32 || *c == 0xe9 { *c + 1 } else { *c };
                let text = format!("\\the\\catcode{c};\\the\\mathcode{c};");
                p.p1.push_str(&format!("\\catcode{c}={}\\relax \\mathcode{c}={}\\relax ", cat % 16, math % 32768));
                p.obs.push_str(&text);
                p.tail.push_str(&text);
            }
            Extra::ActiveHigh => {
                p.classes.push("extra: non-ASCII active character");
                let c = ACTIVE_HIGH as u32;
                p.p1.push_str(&format!("\\catcode{c}=13\\relax \\def{ACTIVE_HIGH}{{HL}}"));
                p.obs.push_str(&format!("{ACTIVE_HIGH};"));
                p.tail.push_str(&format!("{ACTIVE_HIGH};\\the\\catcode{c};"));
            }
            Extra::FarReg { kind, idx, a, b, c, ord } => {
                const EDGES: [u16; 10] = [32767, 32766, 16384, 4096, 256, 255, 128, 127, 10, 3];
                let idx = if *idx >= 32768 { EDGES[(*idx % 10) as usize] } else { *idx };
                let unit = |o: u8| ["sp", "fil", "fill", "filll"][(o % 4) as usize];
                // |x| <= max_dimen in sp; infinite components in whole units below 16384
                let amount = |x: i32, o: u8| -> String {
                    if o % 4 == 0 {
                        format!("{}sp", x % 1073741824)
                    } else {
                        format!("{}.{}{}", (x >> 8) % 16384, (x & 255) as u32 * 390625 / 100000, unit(o))
                    }
                };
                let (set, read) = match kind % 4 {
                    0 => {
                        p.classes.push("extra: far \\count");
                        (format!("\\count{idx}={}\\relax ", clamp(*a)), format!("\\the\\count{idx};"))
                    }
                    1 => {
                        p.classes.push("extra: far \\dimen (negative/fractional)");
                        (format!("\\dimen{idx}={}sp\\relax ", a % 1073741824), format!("\\the\\dimen{idx};"))
                    }
                    2 => {
                        p.classes.push("extra: far \\skip (shrink, infinite orders)");
                        (format!("\\skip{idx}={}sp plus {} minus {}\\relax ", a % 1073741824, amount(*b, *ord), amount(*c, *ord / 4)), format!("\\the\\skip{idx};"))
                    }
                    _ => {
                        p.classes.push("extra: far \\toks (space, #, braces, active, non-ASCII)");
                        let idx = idx % 256;
                        let body = ["a b", "x#y##", "{n{e}s}t", "~x~", "\u{e9} \u{3bb}", "\\vptkq \\relax", "", " "][(*a as u32 % 8) as usize];
                        (format!("\\toks{idx}={{{body}}}"), format!("\\the\\toks{idx};"))
                    }
                };
                p.p1.push_str(&set);
                p.obs.push_str(&read);
                p.tail.push_str(&read);
            }
            Extra::Time(d, m, t) => {
                p.classes.push("extra: \\day \\month \\time");
                p.p1.push_str(&format!("\\day={}\\relax \\month={}\\relax \\time={}\\relax ", clamp(*d), clamp(*m), clamp(*t)));
                p.obs.push_str("\\the\\day;\\the\\month;\\the\\time;");
                p.tail.push_str("\\the\\day;\\the\\month;\\the\\time;");
            }
            Extra::JobVars(f, v) => {
                // (\dumpValidate belongs to RedefBuiltin)
                p.classes.push("extra: \\dumpFormat \\tracingmacros \\jobname");
                let neg = -((*v as i64).abs() % 5);
                p.p1.push_str(&format!("\\dumpFormat={}\\relax \\tracingmacros={}\\relax ", f % 3, neg));
                let text = "\\the\\dumpFormat;\\the\\tracingmacros;\\jobname;";
                p.obs.push_str(text);
                p.tail.push_str(text);
            }
            Extra::RedefBuiltin(k) => {
                p.classes.push("built-in name redefined before the checkpoint");
                match k % 5 {
                    0 => {
                        p.p1.push_str("\\def\\sleep{S}");
                        p.obs.push_str("\\sleep;");
                        p.tail.push_str("\\let\\vpsl=\\sleep ");
                    }
                    1 => {
                        p.p1.push_str("\\let\\divide=\\multiply ");
                        let text = "\\count9=3 \\divide\\count9 by 2 \\the\\count9;";
                        p.obs.push_str(text);
                        p.tail.push_str(text);
                    }
                    2 => {
                        // the save stack names the variable by its built-in name while that name is a macro
                        p.p1.push_str("\\dumpValidate=-2\\relax \\let\\vpdv=\\dumpValidate \\def\\dumpValidate{D}");
                        p.obs.push_str("\\dumpValidate;\\the\\vpdv;");
                        p.tail.push_str("\\let\\vpdw=\\dumpValidate ");
                        p.tail_fatal.push_str("\\the\\vpdv;");
                    }
                    3 => {
                        p.p1.push_str("\\let\\ifodd=\\iffalse \\let\\noexpand=\\relax ");
                        let text = "\\ifodd 1 A\\else B\\fi;\\noexpand\\ma;";
                        p.obs.push_str(text);
                        p.tail.push_str(text);
                    }
                    _ => {
                        p.p1.push_str("\\let\\vpea=\\expandafter \\let\\expandafter=\\month \\def\\long{G}");
                        p.obs.push_str("\\vpea\\mb\\ma;\\long;");
                        p.tail.push_str("\\long;");
                        p.tail_fatal.push_str("\\the\\expandafter;");
                    }
                }
            }
        }
    }
    p
}

struct Plan {
    /// the sources, each ending in `%`; `parts[0]` is P1, the rest P2 (cut at the second checkpoint)
    parts: Vec<String>,
    /// the same text as one source
    joined: String,
    depth: i32,
    saved: bool,
    pieces: Pieces,
    fin: Option<usize>,
}

fn plan(c: &CkCase, seed_dir: &str) -> Plan {
    let nops = c.program.ops.iter().filter(|o| !matches!(o, c01::Op::Assign { t: c01::Tgt::Font, .. } | c01::Op::Read(c01::Tgt::Font))).count();
    let k = (c.split as usize * (nops + 1)) >> 16;
    let dev = c01::Deviations::default();
    let (built, pre_end) = c01::build_opts(&c.program, dev, Some(0), true);
    let (_, split1) = c01::build_opts(&c.program, dev, Some(k), true);
    let text = built.text.strip_suffix('%').unwrap_or(&built.text);
    let split1 = split1.clamp(pre_end, text.len());
    let pieces = render_extras(&c.extras, c.hoist, seed_dir);
    let mode = pieces.mode;
    let p1 = format!("{}{}{}{}{}{}", &text[..pre_end], P0_FIXED, pieces.p0, &text[pre_end..split1], pieces.first, pieces.p1);
    let fin = if c.fin == 0 { None } else { Some((c.fin as usize - 1) % FINAL_ERRORS.len()) };
    // After the history: re-observe the extras at depth 0, close the outer conditionals, names first
    // defined after the checkpoint, then the probes that may be fatal, then the deliberate error.
    // In scroll and nonstop mode a recoverable error would be printed to stdout: the probes (an
    // undefined name after \the is a recoverable error) run in errorstop mode there, and not at all
    // when the final error is the one that observes the terminal of the mode.
    let quiet = matches!(mode, Some(1) | Some(2));
    let mut end = String::new();
    if !(quiet && fin == Some(1)) {
        if quiet {
            end.push_str("\\errorstopmode ");
        }
        end.push_str(&pieces.tail);
        end.push_str(&pieces.outer_closers);
        end.push_str("\\def\\vpnewa{1}\\def\\vpnewb{2\\vpnewa}\\vpnewb;");
        end.push_str(&pieces.tail_fatal);
    }
    if let Some(f) = fin {
        end.push_str(FINAL_ERRORS[f].1);
    }
    let mut parts = vec![p1];
    let head = format!("{}{}", pieces.obs, pieces.closers);
    match c.second {
        None => parts.push(format!("{}{}{}", head, &text[split1..], end)),
        Some((frac, _)) => {
            let k2 = k.min(nops) + ((frac as usize * (nops - k.min(nops) + 1)) >> 16);
            let (_, split2) = c01::build_opts(&c.program, dev, Some(k2), true);
            let split2 = split2.clamp(split1, text.len());
            parts.push(format!("{}{}", head, &text[split1..split2]));
            parts.push(format!("{}{}", &text[split2..], end));
        }
    }
    let joined = format!("{}%", parts.concat());
    for p in &mut parts {
        p.push('%');
    }
    let body = &text[pre_end..split1];
    let depth = body.matches('{').count() as i32 - body.matches('}').count() as i32;
    let saved = depth >= 1 && c.program.ops.iter().take(k).any(|o| matches!(o, c01::Op::Assign { .. }));
    Plan { parts, joined, depth, saved, pieces, fin }
}

fn describe(plan: &Plan) -> String {
    plan.parts.iter().enumerate().map(|(i, p)| format!("P{}: {}", i + 1, p)).collect::<Vec<_>>().join("\n")
}

fn oracle(c: &CkCase, formats: &[Format], seed_dir: &str, case: &mut Case) -> Verdict {
    let plan = plan(c, seed_dir);
    let text = describe(&plan);
    case.note = Some(text.replace('\n', "  ||  "));
    let px = &plan.pieces;
    case.class_if(plan.depth >= 1, "checkpoint inside a group");
    case.class_if(plan.depth >= 3, "checkpoint at depth>=3");
    case.class_if(plan.saved, "open group with saved values");
    for cl in &px.classes {
        if !case.classes.contains(cl) {
            case.class(cl);
        }
    }
    case.class_if(c.hoist && !c.extras.is_empty(), "definitions at depth 0, local change in the open group");
    case.class_if(plan.depth >= 1 && !c.extras.is_empty(), "extras re-observed after their group closed");
    case.class_if(c.second.is_some(), "two checkpoints in one history");
    case.class_if(c.via_trait && formats.contains(&Format::Json), "JSON via Deserialize for VM");
    if formats.len() == 1 {
        case.class(match formats[0] {
            Format::Json => "format: JSON",
            Format::MessagePack => "format: MessagePack",
            Format::Bincode => "format: bincode",
        });
    }
    let nontrivial = plan.saved || !c.extras.is_empty();

    // Arm A: one VM, no serialisation.
    let mut vm_a = new_vm();
    let mut a: Vec<Run> = vec![];
    for (i, part) in plan.parts.iter().enumerate() {
        let r = run(&mut vm_a, &format!("p{}.tex", i + 1), part);
        let failed = r.error.is_some();
        a.push(r);
        if failed {
            break;
        }
    }
    if a[0].error.is_some() {
        // P1 is error-free by construction; `run_prop` fails the check if this happens more than rarely
        return Verdict::Skip("P1 ends in an error");
    }
    let last = a.last().unwrap();
    if let (Some(f), Some(title)) = (plan.fin, &last.error) {
        let expected = ["undefined control sequence", "failed to read from the terminal", "there is no group to end", "Unexpected end of input", "this command cannot be prefixed"][f];
        case.class_if(title.starts_with(expected), FINAL_ERRORS[f].0);
    }
    case.class_if(a.iter().any(|r| r.out.iter().any(|t| matches!(t, OutTok::Cs(n) if n.starts_with("undefined:")))), "a name is undefined again after its group");

    for (fi, format) in formats.iter().enumerate() {
        let mut vm_b = new_vm();
        let b1 = run(&mut vm_b, "p1.tex", &plan.parts[0]);
        if b1 != a[0] {
            return Verdict::Fail(format!("non-deterministic run of P1: {:?} vs {:?}", a[0], b1));
        }
        // `cur` is the VM about to be serialised; `a[i]` the reference for the part run after it
        let mut cur = vm_b;
        for i in 1..a.len() {
            // second checkpoint: the case's own second format (quick tier), the next of the list (thorough)
            let fmt = if i == 1 {
                *format
            } else if formats.len() > 1 {
                formats[(fi + 1) % formats.len()]
            } else {
                c.second.map(|s| s.1).unwrap_or(*format)
            };
            let which = if i == 1 { "first" } else { "second" };
            let mut next = match crate::engine::panics::catch(|| checkpoint(&cur, fmt, c.via_trait)) {
                Ok(Ok((v, _size))) => Box::new(v),
                Ok(Err(e)) => return Verdict::Fail(format!("{:?}, {} checkpoint: {}\n{}", fmt, which, e, text)),
                Err(p) => return Verdict::Fail(format!("{:?}, {} checkpoint: panic while (de)serialising at {}: {}\n{}", fmt, which, p.site(), p.message, text)),
            };
            install_terminal(&mut next);
            // the deserialised VM against the VM it was made from
            if let Err(m) = sweep_commands(&cur, &next).and_then(|_| sweep_state(&cur, &next)) {
                return Verdict::Fail(format!("{:?}, right after the {} checkpoint: {}\n{}", fmt, which, m, text));
            }
            let b = run(&mut next, &format!("p{}.tex", i + 1), &plan.parts[i]);
            if b != a[i] {
                return Verdict::Fail(format!(
                    "{:?}: the VM deserialised at the {} checkpoint behaves differently on P{}\n{}\nwithout checkpoint: {} error={:?}\nwith checkpoint:    {} error={:?}\nerror without checkpoint:\n{}\nerror with checkpoint:\n{}",
                    fmt,
                    which,
                    i + 1,
                    text,
                    crate::texvm::render(&a[i].out),
                    a[i].error,
                    crate::texvm::render(&b.out),
                    b.error,
                    a[i].detail.as_deref().unwrap_or("-"),
                    b.detail.as_deref().unwrap_or("-")
                ));
            }
            cur = next;
        }
        // final values: every visible command and the whole state
        if let Err(m) = sweep_commands(&vm_a, &cur).and_then(|_| sweep_state(&vm_a, &cur)) {
            return Verdict::Fail(format!("{:?}: after the whole history: {}\n{}", format, m, text));
        }
    }
    case.class_if(a.len() == 3, "second checkpoint reached");

    // Arm C (a check of the harness's own splitting, not of serialisation): the concatenated program
    // in a fresh VM gives the same output and the same error title.
    let mut vm_d = new_vm();
    let d = run(&mut vm_d, "p.tex", &plan.joined);
    let joined: Vec<OutTok> = a.iter().flat_map(|r| r.out.iter().cloned()).collect();
    if d.out != joined || d.error != last.error {
        return Verdict::Fail(format!(
            "[harness self-check, no serialisation involved] running the parts as one source differs from running them one after the other\n{}\none source: {} error={:?}\nseparately: {} error={:?}",
            text,
            crate::texvm::render(&d.out),
            d.error,
            crate::texvm::render(&joined),
            last.error
        ));
    }
    Verdict::pass(nontrivial)
}

fn int_strategy() -> impl Strategy<Value = i32> {
    prop_oneof![3 => any::<i32>(), 1 => Just(i32::MIN), 1 => Just(i32::MAX), 1 => Just(-2147483647), 2 => -10i32..10]
}

fn extra_strategy() -> impl Strategy<Value = Extra> {
    let high_char = prop_oneof![128u32..0x800, 0x800u32..0xD800, 0xE000u32..0x10FFFF, Just(0x10FFFEu32), Just(128u32)];
    prop_oneof![
        2 => int_strategy().prop_map(Extra::NewInt),
        2 => (any::<u8>(), int_strategy()).prop_map(|(a, b)| Extra::NewIntArray(a, b)),
        1 => Just(Extra::ParamMacro),
        1 => (0u8..4).prop_map(Extra::FreshName),
        3 => (0u8..4).prop_map(Extra::OddName),
        1 => (0u8..4, 0u8..3).prop_map(|(a, b)| Extra::OpenIn(a, b)),
        3 => (0u8..4).prop_map(Extra::OpenCond),
        1 => (0u8..4).prop_map(Extra::OuterCond),
        1 => Just(Extra::LetPrimitive),
        1 => Just(Extra::LetChar),
        1 => any::<u16>().prop_map(Extra::MathCharDef),
        1 => Just(Extra::ToksWithCs),
        1 => int_strategy().prop_map(Extra::Year),
        1 => (0u8..3).prop_map(Extra::ActiveDef),
        1 => Just(Extra::ActiveLet),
        1 => Just(Extra::CatcodeOfLetter),
        1 => Just(Extra::Gdef),
        3 => (0u8..4, 0u8..10).prop_map(|(mode, err)| Extra::Mode { mode, err }),
        2 => (high_char, 0u8..16, any::<u16>()).prop_map(|(c, cat, math)| Extra::HighCode { c, cat, math }),
        1 => Just(Extra::ActiveHigh),
        4 => (0u8..4, any::<u16>(), int_strategy(), any::<i32>(), any::<i32>(), any::<u8>()).prop_map(|(kind, idx, a, b, c, ord)| Extra::FarReg { kind, idx, a, b, c, ord }),
        1 => (int_strategy(), int_strategy(), int_strategy()).prop_map(|(a, b, c)| Extra::Time(a, b, c)),
        1 => (0u8..3, int_strategy()).prop_map(|(a, b)| Extra::JobVars(a, b)),
        2 => (0u8..5).prop_map(Extra::RedefBuiltin),
        3 => (0u8..16, 0u8..3, 0u8..10, 0u8..10, 0u8..5).prop_map(|(s, file, before, after, then)| Extra::Stream { s, file, before, after, then }),
    ]
}

fn format_strategy() -> impl Strategy<Value = Format> {
    prop_oneof![Just(Format::Json), Just(Format::MessagePack), Just(Format::Bincode)]
}

fn case_strategy() -> impl Strategy<Value = CkCase> {
    (
        c01::program_strategy(30),
        any::<u16>(),
        proptest::collection::vec(extra_strategy(), 0..6),
        format_strategy(),
        any::<bool>(),
        prop_oneof![3 => Just(0u8), 2 => 1u8..=5],
        prop_oneof![2 => Just(None), 1 => (any::<u16>(), format_strategy()).prop_map(Some)],
        any::<bool>(),
    )
        .prop_map(|(program, split, extras, format, hoist, fin, second, via_trait)| CkCase { program, split, extras, format, hoist, fin, second, via_trait })
}

pub fn run_prop(ctx: &Ctx) {
    ctx.rule("cases = (P1, P2 [cut once more], formats): P1 is a prefix of a C01-style history (groups left open, registers, aliases, macros incl. active ~, catcode/mathcode, \\endlinechar, \\globaldefs) plus extras placed in the innermost open group, their defining halves optionally at depth 0 (\\newInt/\\newIntArray (several), parameter macros, fresh names, \\openin streams 0..15 read partially / to the end / missing, conditionals left open inside and outside all groups, \\let of primitives and characters, \\mathchardef, token lists holding control sequences, active-character definitions incl. a non-ASCII one, interaction modes with recorded recoverable errors, codes of characters >= 128, registers up to \\count32767/\\toks255 with negative, fractional and infinite glue, \\day/\\month/\\time/\\year, \\dumpFormat/\\dumpValidate/\\tracingmacros, names of built-ins redefined); P2 observes the extras inside the open group, continues the history (optionally through a second checkpoint in another format), closes every group and conditional, reads every target, observes the extras AGAIN at depth 0 (undefined names are recorded, not fatal), defines new names and optionally ends in a deliberate fatal error. The same VM<StdLibState> continued without a checkpoint is the reference for the serialised+deserialised VM: token-exact output, the fatal error in detail (title, kind, traces of all tokens, stack trace, notes except the hash-order dependent suggestion), and Rust-level sweeps right after every checkpoint and at the end (fingerprint of the command behind every interned name and active character; JSON view of every state component incl. recorded errors; all 3x32768 numeric registers). non-trivial = checkpoint inside a group with saved values or with an extra alive; distinct by the text of the parts");
    ctx.assume("StdLibState with its default built-in commands; terminal = an exhausted mock terminal installed by the host in every arm (it is #[serde(skip)], not part of the checkpoint); recoverable errors are only raised in errorstop mode (fatal) and batch mode (recorded silently) because scroll/nonstop mode print them to stdout, which carries the harness protocol: those two modes are observed through the state sweep and the terminal they select; \\tracingmacros is never positive (prints to stdout); font probes are not part of StdLibState and are dropped from the histories");
    ctx.assume("seed files <verif dir>/seeds/c08a.tex and c08b.tex are read through the real file system (StdLibState has no pluggable file system); the date of every fresh VM is set to a fixed value (the default reads the clock)");
    ctx.assume("both VMs of a comparison live in the same process (function pointers and tags of built-ins are compared as such); arm C (the parts as one source) only checks the harness's own splitting");
    let seed_dir = ctx.verif_dir.join("seeds").to_string_lossy().to_string();
    if !seed_dir.chars().all(|c| c.is_ascii_alphanumeric() || "/_.-".contains(c)) {
        ctx.fail_external("checkpoint", &seed_dir, "the seeds directory has a path that cannot be written as a TeX file name");
        return;
    }
    for f in ["c08a.tex", "c08b.tex"] {
        if !std::path::Path::new(&seed_dir).join(f).is_file() {
            ctx.fail_external("checkpoint", &f, &format!("seed file {seed_dir}/{f} is missing: the \\openin cases would silently test nothing"));
            return;
        }
    }
    if std::path::Path::new(&seed_dir).join("c08missing.tex").exists() {
        ctx.fail_external("checkpoint", &seed_dir, "seeds/c08missing.tex must not exist");
        return;
    }
    let all = [Format::Json, Format::MessagePack, Format::Bincode];
    match ctx.tier {
        Tier::Quick => {
            run_generated(ctx, "checkpoint", 8_000, case_strategy, |c: &CkCase, case| oracle(c, &[c.format], &seed_dir, case));
        }
        Tier::Thorough => {
            run_generated(ctx, "checkpoint", 60_000, case_strategy, |c: &CkCase, case| oracle(c, &all, &seed_dir, case));
        }
    }
    // P1 is error-free by construction: more than a handful of skipped cases means the generator (or the
    // C01 generator it builds on) drifted, and coverage would disappear silently.
    if ctx.is_generate() {
        let (skipped, evaluations) = {
            let st = ctx.stats.lock().unwrap();
            st.get("checkpoint").map(|s| (s.skipped.values().sum::<u64>(), s.evaluations)).unwrap_or((0, 0))
        };
        if evaluations >= 1000 && skipped * 100 > evaluations {
            ctx.fail_external("checkpoint", &skipped, &format!("{skipped} of {evaluations} cases were skipped because P1 ended in an error (allowed: 1%): the generator no longer produces error-free prefixes"));
        }
    }
}
