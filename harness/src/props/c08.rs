//! C08 Checkpointing a VM is transparent: serialise, deserialise, continue.

use crate::engine::*;
use crate::props::c01;
use crate::texvm::OutTok;
use proptest::prelude::*;
use serde::{Deserialize, Serialize};
use std::cell::RefCell;
use texlang::token::{self, Token, Value};
use texlang::traits::*;
use texlang::vm;
use texlang_stdlib::StdLibState;

thread_local! {
    static OUT: RefCell<Vec<OutTok>> = const { RefCell::new(vec![]) };
}

struct Capture;

fn to_out(vm: &vm::VM<StdLibState>, t: Token) -> OutTok {
    match t.value() {
        Value::CommandRef(token::CommandRef::ControlSequence(name)) => OutTok::Cs(vm.cs_name_interner().resolve(name).unwrap_or("?").to_string()),
        Value::CommandRef(token::CommandRef::ActiveCharacter(c)) => OutTok::Active(c),
        v => OutTok::Ch(v.char().unwrap(), v.cat_code().map(|c| c as u8).unwrap_or(0)),
    }
}

impl vm::Handlers<StdLibState> for Capture {
    fn character_handler(input: &mut vm::ExecutionInput<StdLibState>, token: Token, _c: char) -> texlang::prelude::Result<()> {
        let o = to_out(input.vm(), token);
        OUT.with(|v| v.borrow_mut().push(o));
        Ok(())
    }
    fn unexpanded_expansion_command(input: &mut vm::ExecutionInput<StdLibState>, token: Token) -> texlang::prelude::Result<()> {
        let o = to_out(input.vm(), token);
        OUT.with(|v| v.borrow_mut().push(o));
        Ok(())
    }
}

#[derive(Debug, Clone, PartialEq, Eq)]
struct Run {
    out: Vec<OutTok>,
    error: Option<String>,
}

fn run(vm: &mut vm::VM<StdLibState>, name: &str, src: &str) -> Run {
    OUT.with(|v| v.borrow_mut().clear());
    vm.push_source(name.to_string(), src.to_string()).ok();
    let r = vm.run::<Capture>();
    Run { out: OUT.with(|v| std::mem::take(&mut *v.borrow_mut())), error: r.err().map(|e| e.error.title()) }
}

#[derive(Clone, Copy, Debug, PartialEq, Eq, Serialize, Deserialize)]
pub enum Format {
    Json,
    MessagePack,
    Bincode,
}

fn checkpoint(vm: &vm::VM<StdLibState>, format: Format) -> Result<(vm::VM<StdLibState>, usize), String> {
    let built_ins = || StdLibState::default_built_in_commands();
    match format {
        Format::Json => {
            let s = serde_json::to_string(vm).map_err(|e| format!("JSON serialisation failed: {e}"))?;
            let mut d = serde_json::Deserializer::from_str(&s);
            let vm2 = vm::VM::deserialize_with_built_in_commands(&mut d, built_ins()).map_err(|e| format!("JSON deserialisation failed: {e}"))?;
            Ok((vm2, s.len()))
        }
        Format::MessagePack => {
            let s = rmp_serde::to_vec(vm).map_err(|e| format!("MessagePack serialisation failed: {e}"))?;
            let mut d = rmp_serde::decode::Deserializer::from_read_ref(&s);
            let vm2 = vm::VM::deserialize_with_built_in_commands(&mut d, built_ins()).map_err(|e| format!("MessagePack deserialisation failed: {e}"))?;
            Ok((vm2, s.len()))
        }
        Format::Bincode => {
            let s = bincode::serde::encode_to_vec(vm, bincode::config::standard()).map_err(|e| format!("bincode serialisation failed: {e}"))?;
            let d: Box<vm::serde::DeserializedVM<StdLibState>> = bincode::serde::decode_from_slice(&s, bincode::config::standard()).map_err(|e| format!("bincode deserialisation failed: {e}"))?.0;
            Ok((vm::serde::finish_deserialization(d, built_ins()), s.len()))
        }
    }
}

/// Extra state P1 may leave behind, each with an observer in P2.
#[derive(Clone, Debug, Serialize, Deserialize)]
pub enum Extra {
    NewInt(i32),
    NewIntArray(u8, i32),
    ParamMacro,
    FreshName(u8),
    /// \openin on a seed file; read `n` lines before the checkpoint
    OpenIn(u8, u8),
    /// leave a conditional open: 0 \iftrue, 1 \iffalse..\else, 2 \ifcase 1 ..\or, 3 \ifnum
    OpenCond(u8),
    LetPrimitive,
    LetChar,
    MathCharDef(u16),
    ToksWithCs,
    Year(i32),
    ActiveDef(u8),
    ActiveLet,
    CatcodeOfLetter,
    Gdef,
}

#[derive(Clone, Debug, Serialize, Deserialize)]
pub struct CkCase {
    pub program: c01::Program,
    /// split point as a fraction of the operation count
    pub split: u16,
    pub extras: Vec<Extra>,
    /// where among the operations of P1 the extras are placed is fixed: after them, inside the
    /// groups P1 left open
    pub format: Format,
}

const SEED_A: &str = "/verif/seeds/c08a";
const SEED_B: &str = "/verif/seeds/c08b";

fn render_extras(extras: &[Extra]) -> (String, String, bool, bool) {
    let mut p1 = String::new();
    let mut p2 = String::new();
    let mut closers = String::new();
    let mut has_cond = false;
    let mut has_active = false;
    let mut used_streams = [false; 4];
    let mut seen: Vec<std::mem::Discriminant<Extra>> = vec![];
    for e in extras {
        // each kind at most once (names are fixed)
        let d = std::mem::discriminant(e);
        if seen.contains(&d) && !matches!(e, Extra::OpenCond(_) | Extra::OpenIn(..)) {
            continue;
        }
        seen.push(d);
        match e {
            Extra::NewInt(v) => {
                p1.push_str(&format!("\\newInt\\vpnewint \\vpnewint={}\\relax ", v));
                p2.push_str("\\the\\vpnewint;\\advance\\vpnewint by 1\\relax \\the\\vpnewint;");
            }
            Extra::NewIntArray(n, v) => {
                let n = (*n % 5) as usize + 1;
                p1.push_str(&format!("\\newIntArray\\vpnewarr {} \\vpnewarr {}={}\\relax ", n, n - 1, v));
                p2.push_str(&format!("\\the\\vpnewarr {};\\vpnewarr 0=3\\relax \\the\\vpnewarr 0;", n - 1));
            }
            Extra::ParamMacro => {
                p1.push_str("\\def\\vpmp#1.#2{[#2|#1]}");
                p2.push_str("\\vpmp ab.c;\\vpmp{x.y}.{zz};");
            }
            Extra::FreshName(k) => {
                let name = format!("vpfresh{}", ["A", "Bb", "Ccc", "Dddd"][(*k % 4) as usize]);
                p1.push_str(&format!("\\def\\{}{{Q\\{}x }}\\def\\{}x{{R}}", name, name, name));
                p2.push_str(&format!("\\{};", name));
            }
            Extra::OpenIn(stream, n) => {
                let s = (*stream % 4) as usize;
                if used_streams[s] {
                    continue;
                }
                used_streams[s] = true;
                let file = if s % 2 == 0 { SEED_A } else { SEED_B };
                p1.push_str(&format!("\\openin{}={} ", s, file));
                for k in 0..(*n % 3) {
                    p1.push_str(&format!("\\read{} to\\vpline{} ", s, ["a", "b", "c"][k as usize]));
                }
                for k in 0..(*n % 3) {
                    p2.push_str(&format!("\\vpline{};", ["a", "b", "c"][k as usize]));
                }
                p2.push_str(&format!("\\ifeof{} T\\else F\\fi;\\read{} to\\vplinez \\vplinez;\\ifeof{} T\\else F\\fi;", s, s, s));
            }
            Extra::OpenCond(k) => {
                has_cond = true;
                match k % 4 {
                    0 => {
                        p1.push_str("\\iftrue ");
                        closers.insert_str(0, "T\\else F\\fi;");
                    }
                    1 => {
                        p1.push_str("\\iffalse A\\else ");
                        closers.insert_str(0, "E\\fi;");
                    }
                    2 => {
                        p1.push_str("\\ifcase 1 A\\or ");
                        closers.insert_str(0, "B\\or C\\else D\\fi;");
                    }
                    _ => {
                        p1.push_str("\\ifnum 1<2 ");
                        closers.insert_str(0, "L\\else G\\fi;");
                    }
                }
            }
            Extra::LetPrimitive => {
                p1.push_str("\\let\\vpmycount=\\count \\let\\vpmyfi=\\fi \\let\\vpmydef=\\def ");
                p2.push_str("\\vpmycount 7=5\\relax \\the\\count7;\\iftrue Y\\vpmyfi;\\vpmydef\\vpz{Z}\\vpz;");
            }
            Extra::LetChar => {
                p1.push_str("\\let\\vpch=a\\let\\vpbg={");
                p2.push_str("\\vpch;\\vpbg\\count9=4\\relax}\\the\\count9;");
            }
            Extra::MathCharDef(v) => {
                p1.push_str(&format!("\\mathchardef\\vpmc={}\\relax ", v % 32768));
                p2.push_str("\\the\\vpmc;");
            }
            Extra::ToksWithCs => {
                p1.push_str("\\def\\vptk{K}\\toks3={\\vptk b\\vptk}");
                p2.push_str("\\the\\toks3;");
            }
            Extra::Year(v) => {
                p1.push_str(&format!("\\year={}\\relax ", v));
                p2.push_str("\\the\\year;");
            }
            Extra::ActiveDef(k) => {
                has_active = true;
                let body = ["U", "VW", ""][(*k % 3) as usize];
                p1.push_str(&format!("\\catcode`\\|=13\\relax \\def|{{{}}}", body));
                p2.push_str("|;");
            }
            Extra::ActiveLet => {
                has_active = true;
                p1.push_str("\\catcode`\\!=13\\relax \\let!=\\relax \\def\\vpal{(!)}");
                p2.push_str("\\vpal;");
            }
            Extra::CatcodeOfLetter => {
                p1.push_str("\\catcode`\\Q=12\\relax \\catcode`\\@=11\\relax \\def\\vp@x{@}");
                p2.push_str("\\the\\catcode`\\Q;\\vp@x;");
            }
            Extra::Gdef => {
                p1.push_str("\\gdef\\vpg{G}\\def\\vpl{L}");
                p2.push_str("\\vpg;\\vpl;");
            }
        }
    }
    // observers first (inside the open conditionals' live branch), then close the conditionals
    p2.push_str(&closers);
    (p1, p2, has_cond, has_active)
}

fn oracle(ctx: &Ctx, c: &CkCase, formats: &[Format], case: &mut Case) -> Verdict {
    let nops = c.program.ops.iter().filter(|o| !matches!(o, c01::Op::Assign { t: c01::Tgt::Font, .. } | c01::Op::Read(c01::Tgt::Font))).count();
    let k = (c.split as usize * (nops + 1)) >> 16;
    let (built, split_pos) = c01::build_opts(&c.program, c01::Deviations::default(), Some(k), true);
    let (x1, x2, has_cond, has_active) = render_extras(&c.extras);
    // P1 = operations before the split + extras (statements complete, input exhausted at the end)
    let p1_body = format!("{}{}", &built.text[..split_pos], x1);
    let p1 = format!("{}%", p1_body);
    // P2 = observers of the extras, then the remaining operations, closers and reads
    let p2 = format!("{}{}", x2, &built.text[split_pos..]);
    case.note = Some(format!("P1: {}  ||  P2: {}", p1, p2));
    // depth at the checkpoint
    let mut depth = 0i32;
    for o in c.program.ops.iter().take(k) {
        match o {
            c01::Op::Begin => depth += 1,
            c01::Op::End => depth = (depth - 1).max(0),
            _ => {}
        }
    }
    let saved = depth >= 1 && c.program.ops.iter().take(k).any(|o| matches!(o, c01::Op::Assign { .. }));
    case.class_if(depth >= 1, "checkpoint inside a group");
    case.class_if(depth >= 3, "checkpoint at depth>=3");
    case.class_if(has_cond, "checkpoint inside a conditional");
    case.class_if(has_active, "active character defined");
    case.class_if(c.extras.iter().any(|e| matches!(e, Extra::OpenIn(..))), "open \\openin stream");
    let nontrivial = saved || has_cond || has_active || !c.extras.is_empty();

    // Arm A: one VM, no serialisation.
    let mut vm_a = Box::new(vm::VM::<StdLibState>::new());
    let a1 = run(&mut vm_a, "p1.tex", &p1);
    if a1.error.is_some() {
        // P1 itself fails (e.g. a listed scoping deviation does not matter here): nothing to checkpoint
        return Verdict::Skip("P1 ends in an error");
    }
    let a2 = run(&mut vm_a, "p2.tex", &p2);

    for format in formats {
        let mut vm_b = Box::new(vm::VM::<StdLibState>::new());
        let b1 = run(&mut vm_b, "p1.tex", &p1);
        if b1 != a1 {
            return Verdict::Fail(format!("non-deterministic run of P1: {:?} vs {:?}", a1, b1));
        }
        let (vm_c, size) = match crate::engine::panics::catch(|| checkpoint(&vm_b, *format)) {
            Ok(Ok(v)) => v,
            Ok(Err(e)) => return Verdict::Fail(format!("{:?}: {}\nP1: {}", format, e, p1)),
            Err(p) => return Verdict::Fail(format!("{:?}: panic while (de)serialising at {}: {}\nP1: {}", format, p.site(), p.message, p1)),
        };
        let _ = size;
        let mut vm_c = Box::new(vm_c);
        let b2 = run(&mut vm_c, "p2.tex", &p2);
        if b2 != a2 {
            if has_active && ctx.known("flag:serde_drops_active_chars") && b2.error.as_deref().map(|e| e.contains("undefined")).unwrap_or(false) {
                // must agree up to the first use of an active character
                if a2.out.starts_with(&b2.out) {
                    return Verdict::Known("flag:serde_drops_active_chars".into());
                }
            }
            return Verdict::Fail(format!(
                "{:?}: the deserialised VM behaves differently on P2\nP1: {}\nP2: {}\nwithout checkpoint: {} error={:?}\nwith checkpoint:    {} error={:?}",
                format,
                p1,
                p2,
                crate::texvm::render(&a2.out),
                a2.error,
                crate::texvm::render(&b2.out),
                b2.error
            ));
        }
    }
    // Arm C: the concatenated program in a fresh VM.
    let mut vm_d = Box::new(vm::VM::<StdLibState>::new());
    let d = run(&mut vm_d, "p.tex", &format!("{}{}", p1_body, p2));
    let mut joined = a1.out.clone();
    joined.extend(a2.out.iter().cloned());
    if d.out != joined || d.error != a2.error {
        return Verdict::Fail(format!("running P1 P2 as one source differs from running them one after the other\nP1: {}\nP2: {}\none source: {} error={:?}\ntwo runs:   {} error={:?}", p1, p2, crate::texvm::render(&d.out), d.error, crate::texvm::render(&joined), a2.error));
    }
    Verdict::pass(nontrivial)
}

fn extra_strategy() -> impl Strategy<Value = Extra> {
    prop_oneof![
        any::<i32>().prop_map(Extra::NewInt),
        (any::<u8>(), any::<i32>()).prop_map(|(a, b)| Extra::NewIntArray(a, b)),
        Just(Extra::ParamMacro),
        (0u8..4).prop_map(Extra::FreshName),
        (0u8..4, 0u8..3).prop_map(|(a, b)| Extra::OpenIn(a, b)),
        (0u8..4).prop_map(Extra::OpenCond),
        (0u8..4).prop_map(Extra::OpenCond),
        Just(Extra::LetPrimitive),
        Just(Extra::LetChar),
        any::<u16>().prop_map(Extra::MathCharDef),
        Just(Extra::ToksWithCs),
        (1i32..3000).prop_map(Extra::Year),
        (0u8..3).prop_map(Extra::ActiveDef),
        Just(Extra::ActiveLet),
        Just(Extra::CatcodeOfLetter),
        Just(Extra::Gdef),
    ]
}

fn case_strategy() -> impl Strategy<Value = CkCase> {
    (c01::program_strategy(30), any::<u16>(), proptest::collection::vec(extra_strategy(), 0..5), prop_oneof![Just(Format::Json), Just(Format::MessagePack), Just(Format::Bincode)]).prop_map(|(program, split, extras, format)| CkCase { program, split, extras, format })
}

pub fn run_prop(ctx: &Ctx) {
    ctx.rule("cases = (P1, P2, format): P1 is a prefix of a C01-style history (groups left open, registers, aliases, macros incl. active ~, catcode/mathcode, \\endlinechar, \\globaldefs) plus extras (\\newInt/\\newIntArray, parameter macros, fresh names, open \\openin streams, open conditionals, \\let of primitives and characters, \\mathchardef, token lists holding control sequences, active-character definitions); P2 observes the extras, continues the history, closes every group and conditional and reads every target. The same VM<StdLibState> continued without a checkpoint is the reference for the serialised+deserialised VM (token-exact output and error title), and the concatenated program in a fresh VM must agree too. non-trivial = checkpoint inside a group with saved values, inside a conditional, or with an extra alive; distinct by (P1,P2) text");
    ctx.assume("StdLibState with its default built-in commands; no terminal input, no error-recovery modes (they print to stdout); font probes are not part of StdLibState and are dropped from the histories");
    ctx.assume("seed files /verif/seeds/c08a.tex and c08b.tex are read through the real file system (StdLibState has no pluggable file system)");
    let all = [Format::Json, Format::MessagePack, Format::Bincode];
    match ctx.tier {
        Tier::Quick => {
            run_generated(ctx, "checkpoint", 8_000, case_strategy, |c: &CkCase, case| oracle(ctx, c, &[c.format], case));
        }
        Tier::Thorough => {
            run_generated(ctx, "checkpoint", 60_000, case_strategy, |c: &CkCase, case| oracle(ctx, c, &all, case));
        }
    }
}
