//! C20 Core containers and identifiers.

use crate::engine::*;
use proptest::prelude::*;
use serde::{de::DeserializeOwned, Deserialize, Serialize};
use std::collections::{BTreeMap, BTreeSet, HashSet, VecDeque};
use texcraft_stdext::algorithms::substringsearch::Matcher;
use texcraft_stdext::collections::groupingmap::{
    BackingContainer, GroupingContainer, Item, Scope,
};
use texcraft_stdext::collections::interner::Interner;
use texcraft_stdext::collections::nevec::Nevec;
use texcraft_stdext::nevec;

// ---------------------------------------------------------------------------------
// Scoped map

#[derive(Clone, Debug, PartialEq, Eq, Serialize, Deserialize)]
pub enum MOp {
    Local(u8, u8),
    Global(u8, u8),
    Begin,
    End,
    /// Replace the container by `iter_all().collect()`.
    Rebuild,
    /// `extend(pairs)`: documented as local inserts in iteration order.
    Extend(Vec<(u8, u8)>),
    /// Replace the container by `pairs.into_iter().collect()` (`FromIterator<(K, V)>`, the way
    /// texlang seeds its command map): no open group, a later pair of the same key wins.
    Collect(Vec<(u8, u8)>),
    /// Replace the container by its (derived) serde_json round trip.
    Serde,
}

/// What an operation reports back to its caller.
#[derive(Clone, Copy, Debug, PartialEq, Eq)]
enum Outcome {
    Done,
    /// `end_group` without an open group.
    Rejected,
    /// The flag returned by `insert`: the key had a visible value before the call.
    Inserted(bool),
}

type Frame = BTreeMap<usize, u8>;

#[derive(Clone, Debug, PartialEq, Eq, PartialOrd, Ord)]
struct Model {
    frames: Vec<Frame>,
}

impl Model {
    fn new() -> Self {
        Model { frames: vec![Frame::new()] }
    }
    fn apply(&mut self, op: &MOp) -> Outcome {
        match op {
            MOp::Local(k, v) => {
                return Outcome::Inserted(self.frames.last_mut().unwrap().insert(*k as usize, *v).is_some());
            }
            MOp::Global(k, v) => {
                let existed = self.top().contains_key(&(*k as usize));
                for f in &mut self.frames {
                    f.insert(*k as usize, *v);
                }
                return Outcome::Inserted(existed);
            }
            MOp::Begin => {
                let top = self.frames.last().unwrap().clone();
                self.frames.push(top);
            }
            MOp::End => {
                if self.frames.len() == 1 {
                    return Outcome::Rejected;
                }
                self.frames.pop();
            }
            MOp::Extend(pairs) => {
                for (k, v) in pairs {
                    self.frames.last_mut().unwrap().insert(*k as usize, *v);
                }
            }
            MOp::Collect(pairs) => {
                let mut f = Frame::new();
                for (k, v) in pairs {
                    f.insert(*k as usize, *v);
                }
                self.frames = vec![f];
            }
            MOp::Rebuild | MOp::Serde => {}
        }
        Outcome::Done
    }
    fn top(&self) -> &Frame {
        self.frames.last().unwrap()
    }
}

/// The two backing containers of the repository, plus what the `Serde` operation needs.
pub trait Backing: BackingContainer<usize, u8> + Serialize + DeserializeOwned {}
impl<T: BackingContainer<usize, u8> + Serialize + DeserializeOwned> Backing for T {}
type GC<T> = GroupingContainer<usize, u8, T>;

fn rebuild<T: Backing>(c: &GC<T>) -> GC<T> {
    c.iter_all().map(Item::adapt_map(|(k, v): (usize, &u8)| (k, *v))).collect()
}

fn apply_impl<T: Backing>(c: &mut GC<T>, op: &MOp) -> Result<Outcome, String> {
    Ok(match op {
        MOp::Local(k, v) => Outcome::Inserted(c.insert(*k as usize, *v, Scope::Local)),
        MOp::Global(k, v) => Outcome::Inserted(c.insert(*k as usize, *v, Scope::Global)),
        MOp::Begin => {
            c.begin_group();
            Outcome::Done
        }
        MOp::End => {
            if c.end_group().is_ok() {
                Outcome::Done
            } else {
                Outcome::Rejected
            }
        }
        MOp::Rebuild => {
            *c = rebuild(c);
            Outcome::Done
        }
        MOp::Extend(pairs) => {
            c.extend(pairs.iter().map(|(k, v)| (*k as usize, *v)));
            Outcome::Done
        }
        MOp::Collect(pairs) => {
            *c = pairs.iter().map(|(k, v)| (*k as usize, *v)).collect();
            Outcome::Done
        }
        MOp::Serde => {
            let text = serde_json::to_string(&*c).map_err(|e| format!("serialising the container: {e}"))?;
            *c = serde_json::from_str(&text).map_err(|e| format!("deserialising the container from {text}: {e}"))?;
            Outcome::Done
        }
    })
}

fn compare<T: Backing>(c: &GC<T>, m: &Model, keys: &[usize], at: &str) -> Result<(), String> {
    let bc = c.backing_container();
    for k in keys {
        let a = c.get(k).copied();
        let b = m.top().get(k).copied();
        if a != b {
            return Err(format!("{at}: get({k}) = {a:?}, model {b:?}"));
        }
        // documented: get == backing_container().get
        let d = BackingContainer::<usize, u8>::get(bc, k).copied();
        if d != b {
            return Err(format!("{at}: backing_container().get({k}) = {d:?}, get({k}) = {a:?}, model {b:?}"));
        }
    }
    if c.len() != m.top().len() {
        return Err(format!("{at}: len {} vs model {}", c.len(), m.top().len()));
    }
    if c.is_empty() != m.top().is_empty() {
        return Err(format!("{at}: is_empty() = {} but the model has {} visible entries", c.is_empty(), m.top().len()));
    }
    let mut vis: Vec<(usize, u8)> = c.iter().map(|(k, v)| (k, *v)).collect();
    vis.sort();
    let exp: Vec<(usize, u8)> = m.top().iter().map(|(k, v)| (*k, *v)).collect();
    if vis != exp {
        return Err(format!("{at}: iter() {vis:?} vs model {exp:?}"));
    }
    let mut bvis: Vec<(usize, u8)> = BackingContainer::<usize, u8>::iter(bc).map(|(k, v)| (k, *v)).collect();
    bvis.sort();
    if bvis != exp || BackingContainer::<usize, u8>::len(bc) != exp.len() {
        return Err(format!("{at}: backing_container() holds {bvis:?} (len {}) vs model {exp:?}", BackingContainer::<usize, u8>::len(bc)));
    }
    Ok(())
}

/// Unwind both to depth 0, comparing after each end_group: this is what makes saved
/// (invisible) values observable.
fn unwind_compare<T: Backing>(mut c: GC<T>, mut m: Model, keys: &[usize], at: &str) -> Result<(), String> {
    loop {
        let ok_m = m.apply(&MOp::End) == Outcome::Done;
        let ok_c = c.end_group().is_ok();
        if ok_m != ok_c {
            return Err(format!("{at}: unwinding: end_group ok={ok_c}, model ok={ok_m}"));
        }
        if !ok_m {
            return Ok(());
        }
        compare(&c, &m, keys, &format!("{at} (after unwinding to depth {})", m.frames.len() - 1))?;
    }
}

fn run_history<T: Backing>(ops: &[MOp], keys: &[usize], check_rebuild_suffixes: usize, alphabet: &[MOp]) -> Result<(), String> {
    let mut c: GC<T> = Default::default();
    let mut m = Model::new();
    for (i, op) in ops.iter().enumerate() {
        let out_m = m.apply(op);
        let out_c = apply_impl(&mut c, op)?;
        if out_m != out_c {
            return Err(format!("step {i} {op:?}: implementation reports {out_c:?}, model {out_m:?}"));
        }
        compare(&c, &m, keys, &format!("after step {i} {op:?}"))?;
    }
    // Rebuild from iter_all: same visible values, same group count, same future.
    let r = rebuild(&c);
    compare(&r, &m, keys, "rebuilt container")?;
    if check_rebuild_suffixes >= 1 {
        for a in alphabet {
            let mut r1 = rebuild(&c);
            let mut m1 = m.clone();
            let out_m = m1.apply(a);
            let out_c = apply_impl(&mut r1, a)?;
            if out_m != out_c {
                return Err(format!("rebuilt, then {a:?}: implementation reports {out_c:?}, model {out_m:?}"));
            }
            compare(&r1, &m1, keys, &format!("rebuilt, then {a:?}"))?;
            if check_rebuild_suffixes >= 2 {
                for b in alphabet {
                    let mut r2 = rebuild(&r1);
                    // r2 is a rebuild of a continued rebuild; continue it with b
                    let mut m2 = m1.clone();
                    let out_m = m2.apply(b);
                    let out_c = apply_impl(&mut r2, b)?;
                    if out_m != out_c {
                        return Err(format!("rebuilt, then {a:?} {b:?}: implementation reports {out_c:?}, model {out_m:?}"));
                    }
                    compare(&r2, &m2, keys, &format!("rebuilt, then {a:?} {b:?}"))?;
                    unwind_compare(r2, m2, keys, &format!("rebuilt, then {a:?}, rebuilt again, then {b:?}"))?;
                }
            }
            unwind_compare(r1, m1, keys, &format!("rebuilt, then {a:?}"))?;
        }
    }
    unwind_compare(r, m.clone(), keys, "rebuilt container")?;
    unwind_compare(c, m, keys, "original container")?;
    Ok(())
}

fn small_alphabet(k0: u8, k1: u8) -> Vec<MOp> {
    let mut v = vec![];
    for k in [k0, k1] {
        for val in [1u8, 2u8] {
            v.push(MOp::Local(k, val));
            v.push(MOp::Global(k, val));
        }
    }
    v.push(MOp::Begin);
    v.push(MOp::End);
    v
}

/// The small alphabet plus the entry points texlang uses besides insert/begin/end:
/// `extend` and `FromIterator<(K, V)>` (empty, two keys, the same key twice).
fn entry_alphabet(k0: u8, k1: u8) -> Vec<MOp> {
    let mut v = small_alphabet(k0, k1);
    v.push(MOp::Extend(vec![]));
    v.push(MOp::Extend(vec![(k0, 1), (k1, 2)]));
    v.push(MOp::Extend(vec![(k1, 1), (k1, 2)]));
    v.push(MOp::Collect(vec![]));
    v.push(MOp::Collect(vec![(k0, 2), (k1, 1)]));
    v.push(MOp::Collect(vec![(k1, 2), (k1, 1)]));
    v
}

fn history_from_index(mut i: u64, max_len: usize, alphabet: &[MOp]) -> Vec<MOp> {
    // lengths 0..=max_len, shortest first
    let n = alphabet.len() as u64;
    let mut len = 0usize;
    let mut block = 1u64;
    while i >= block {
        i -= block;
        block *= n;
        len += 1;
        assert!(len <= max_len);
    }
    let mut ops = Vec::with_capacity(len);
    for _ in 0..len {
        ops.push(alphabet[(i % n) as usize].clone());
        i /= n;
    }
    ops
}

fn history_nontrivial(ops: &[MOp]) -> bool {
    // a global insert at depth >= 1 to a key that was locally changed in a group that is
    // still open, followed later by a group end.
    let mut open: Vec<BTreeSet<u8>> = vec![]; // locally changed keys, one set per open group
    let mut armed = false;
    for op in ops {
        match op {
            MOp::Begin => open.push(BTreeSet::new()),
            MOp::End => {
                if open.pop().is_some() && armed {
                    return true;
                }
            }
            MOp::Local(k, _) => {
                if let Some(t) = open.last_mut() {
                    t.insert(*k);
                }
            }
            MOp::Extend(pairs) => {
                if let Some(t) = open.last_mut() {
                    t.extend(pairs.iter().map(|p| p.0));
                }
            }
            MOp::Global(k, _) => {
                let mut hit = false;
                for t in &mut open {
                    hit |= t.remove(k);
                }
                armed |= hit;
            }
            MOp::Collect(_) => {
                open.clear();
                armed = false;
            }
            MOp::Rebuild | MOp::Serde => {}
        }
    }
    false
}

/// True when the history tries to end a group at depth 0 after at least `after` operations.
fn late_end_at_depth0(ops: &[MOp], after: usize) -> bool {
    let mut depth = 0usize;
    for (i, op) in ops.iter().enumerate() {
        match op {
            MOp::Begin => depth += 1,
            MOp::End => {
                if depth == 0 {
                    if i >= after {
                        return true;
                    }
                } else {
                    depth -= 1;
                }
            }
            MOp::Collect(_) => depth = 0,
            _ => {}
        }
    }
    false
}

fn map_classes(ops: &[MOp], case: &mut Case) {
    case.class_if(ops.iter().any(|o| matches!(o, MOp::Rebuild)), "has_rebuild");
    case.class_if(ops.len() >= 50, "len>=50");
    case.class_if(matches!(ops.first(), Some(MOp::Collect(p)) if !p.is_empty()), "starts_from_collected_pairs");
    case.class_if(ops.iter().any(|o| matches!(o, MOp::Extend(p) if !p.is_empty())), "has_extend");
    case.class_if(ops.iter().any(|o| matches!(o, MOp::Serde)), "has_container_serde");
    case.class_if(late_end_at_depth0(ops, 20), "end_at_depth0_after_20_ops");
}

fn map_strategy(nkeys: u8, max_len: usize) -> impl Strategy<Value = Vec<MOp>> {
    let pairs = move || proptest::collection::vec((0..nkeys, 1u8..5), 0..6);
    let ops = move |end_weight: u32| {
        let op = prop_oneof![
            6 => (0..nkeys, 1u8..5).prop_map(|(k, v)| MOp::Local(k, v)),
            6 => (0..nkeys, 1u8..5).prop_map(|(k, v)| MOp::Global(k, v)),
            6 => Just(MOp::Begin),
            end_weight => Just(MOp::End),
            2 => Just(MOp::Rebuild),
            1 => pairs().prop_map(MOp::Extend),
            1 => Just(MOp::Serde),
        ];
        proptest::collection::vec(op, 0..max_len)
    };
    // Three in four histories drift deeper (begin 3 : end 2), one in four keeps returning to
    // depth 0 (begin 3 : end 4); one in four starts from a container collected from pairs.
    let body = prop_oneof![3 => ops(4), 1 => ops(8)];
    let start = prop_oneof![3 => Just(None), 1 => pairs().prop_map(Some)];
    (start, body).prop_map(|(start, mut body)| {
        if let Some(p) = start {
            body.insert(0, MOp::Collect(p));
        }
        body
    })
}

fn map_bfs<T: Backing>(ctx: &Ctx, sub: &str, depth: usize, cap: usize, keys: &[usize], alphabet: &[MOp]) {
    // Abstract state: model frames + per-frame set of locally touched keys. Distinct
    // abstract states are expanded once, through the first history that reached them.
    let keys_v = keys.to_vec();
    let alphabet_v = alphabet.to_vec();
    let oracle = |ops: &Vec<MOp>, _case: &mut Case| match run_history::<T>(ops, &keys_v, 1, &alphabet_v) {
        Ok(()) => Verdict::pass(history_nontrivial(ops) || ops.len() >= 3),
        Err(e) => Verdict::Fail(e),
    };
    if !matches!(ctx.mode, Mode::Generate) {
        // Replay: the stored history goes straight through the oracle, no state enumeration.
        run_indexed(ctx, sub, 0, false, |_| Vec::<MOp>::new(), oracle);
        return;
    }
    if ctx.stop.load(std::sync::atomic::Ordering::SeqCst) {
        return;
    }
    type Abs = (Vec<Frame>, Vec<BTreeSet<usize>>);
    let mut seen: BTreeSet<Abs> = BTreeSet::new();
    let mut queue: VecDeque<(Vec<MOp>, Abs)> = VecDeque::new();
    let start: Abs = (vec![Frame::new()], vec![BTreeSet::new()]);
    seen.insert(start.clone());
    queue.push_back((vec![], start));
    let mut histories: Vec<Vec<MOp>> = vec![];
    let mut capped = false;
    while let Some((h, abs)) = queue.pop_front() {
        histories.push(h.clone());
        if h.len() >= depth {
            continue;
        }
        for op in alphabet {
            let (mut frames, mut touched) = abs.clone();
            match op {
                MOp::Local(k, v) => {
                    frames.last_mut().unwrap().insert(*k as usize, *v);
                    touched.last_mut().unwrap().insert(*k as usize);
                }
                MOp::Global(k, v) => {
                    for f in &mut frames {
                        f.insert(*k as usize, *v);
                    }
                    for t in &mut touched {
                        t.remove(&(*k as usize));
                    }
                }
                MOp::Begin => {
                    let t = frames.last().unwrap().clone();
                    frames.push(t);
                    touched.push(BTreeSet::new());
                }
                MOp::End => {
                    if frames.len() == 1 {
                        continue;
                    }
                    frames.pop();
                    touched.pop();
                }
                MOp::Rebuild | MOp::Extend(_) | MOp::Collect(_) | MOp::Serde => continue,
            }
            let n: Abs = (frames, touched);
            if seen.len() >= cap {
                capped = true;
                continue;
            }
            if seen.insert(n.clone()) {
                let mut h2 = h.clone();
                h2.push(op.clone());
                queue.push_back((h2, n));
            }
        }
    }
    let total = histories.len() as u64;
    ctx.extra(sub, "bfs_distinct_states", serde_json::json!(total));
    ctx.extra(sub, "bfs_depth", serde_json::json!(depth));
    ctx.extra(sub, "bfs_capped", serde_json::json!(capped));
    run_indexed(ctx, sub, total, !capped, |i| histories[i as usize].clone(), oracle);
}

// ---------------------------------------------------------------------------------
// Interner

#[derive(Default, Clone)]
pub struct ConstantHasher;
impl std::hash::Hasher for ConstantHasher {
    fn finish(&self) -> u64 {
        42
    }
    fn write(&mut self, _bytes: &[u8]) {}
}
#[derive(Default, Clone)]
pub struct ConstantBuild;
impl std::hash::BuildHasher for ConstantBuild {
    type Hasher = ConstantHasher;
    fn build_hasher(&self) -> ConstantHasher {
        ConstantHasher
    }
}
/// Hash = string length mod 3: few buckets, long chains, several buckets.
#[derive(Default, Clone)]
pub struct LenHasher(u64);
impl std::hash::Hasher for LenHasher {
    fn finish(&self) -> u64 {
        self.0 % 3
    }
    fn write(&mut self, bytes: &[u8]) {
        self.0 += bytes.len() as u64;
    }
}
#[derive(Default, Clone)]
pub struct LenBuild;
impl std::hash::BuildHasher for LenBuild {
    type Hasher = LenHasher;
    fn build_hasher(&self) -> LenHasher {
        LenHasher(0)
    }
}

#[derive(Clone, Debug, Serialize, Deserialize)]
pub enum IOp {
    Intern(String),
    Get(String),
    Serde,
}

/// Which strings share a hash bucket, as far as the harness can know it (classes only; the
/// oracle itself never depends on it).
type BucketFn = fn(&str) -> Option<u64>;
fn bucket_constant(_s: &str) -> Option<u64> {
    Some(0)
}
fn bucket_len(s: &str) -> Option<u64> {
    // `impl Hash for str` writes the bytes and one 0xff byte; only equality of buckets matters here
    Some(s.len() as u64 % 3)
}
fn bucket_unknown(_s: &str) -> Option<u64> {
    None
}

#[derive(Default, Clone, Copy)]
struct IStats {
    nontrivial: bool,
    has_serde: bool,
    /// some bucket holds >= 3 distinct strings
    chain3: bool,
    /// explicit Get / re-Intern of a string that is neither the first nor the latest of a bucket of >= 3
    middle_lookup: bool,
    /// the same after a serde round trip that rebuilt a bucket of >= 3
    middle_lookup_after_serde: bool,
    /// a fourth or later string was added to a bucket after the round trip and a middle one looked up
    middle_lookup_after_serde_and_growth: bool,
}

impl IStats {
    fn classes(&self, case: &mut Case) {
        case.class_if(self.has_serde, "has_serde");
        case.class_if(self.chain3, "bucket_of>=3_strings");
        case.class_if(self.middle_lookup, "middle_of_bucket_looked_up");
        case.class_if(self.middle_lookup_after_serde, "middle_of_bucket_looked_up_after_serde");
        case.class_if(self.middle_lookup_after_serde_and_growth, "middle_of_bucket_looked_up_after_serde_then_growth");
    }
}

fn interner_oracle<S: std::hash::BuildHasher + Default>(ops: &[IOp], bucket: BucketFn) -> Result<IStats, String> {
    use std::num::NonZeroU32;
    let mut it: Interner<NonZeroU32, S> = Default::default();
    let mut model: Vec<String> = vec![]; // index = order of first interning
    let mut keys: Vec<NonZeroU32> = vec![];
    let mut had_dup_after_serde = false;
    let mut serde_seen = false;
    let mut grown_after_serde = false;
    let mut st = IStats::default();
    // position of s inside its bucket: (index, size), in interning order
    let place = |model: &[String], s: &str| -> Option<(usize, usize)> {
        let b = bucket(s)?;
        let members: Vec<&String> = model.iter().filter(|m| bucket(m) == Some(b)).collect();
        members.iter().position(|m| m.as_str() == s).map(|p| (p, members.len()))
    };
    for (i, op) in ops.iter().enumerate() {
        if let IOp::Intern(s) | IOp::Get(s) = op {
            if let Some((p, n)) = place(&model, s) {
                if n >= 3 && p > 0 && p + 1 < n {
                    st.middle_lookup = true;
                    st.middle_lookup_after_serde |= serde_seen;
                    st.middle_lookup_after_serde_and_growth |= grown_after_serde;
                }
            }
        }
        match op {
            IOp::Intern(s) => {
                let k = it.get_or_intern(s);
                match model.iter().position(|m| m == s) {
                    Some(p) => {
                        if keys[p] != k {
                            return Err(format!("step {i}: re-interning {s:?} gave key {k:?}, first key was {:?}", keys[p]));
                        }
                        if serde_seen {
                            had_dup_after_serde = true;
                        }
                    }
                    None => {
                        if let Some(p) = keys.iter().position(|x| *x == k) {
                            return Err(format!("step {i}: new string {s:?} got the key of {:?}", model[p]));
                        }
                        model.push(s.clone());
                        keys.push(k);
                        if let Some((_, n)) = place(&model, s) {
                            st.chain3 |= n >= 3;
                            grown_after_serde |= serde_seen && n >= 4;
                        }
                    }
                }
            }
            IOp::Get(s) => {
                let g = it.get(s);
                let exp = model.iter().position(|m| m == s).map(|p| keys[p]);
                if g != exp {
                    return Err(format!("step {i}: get({s:?}) = {g:?}, expected {exp:?}"));
                }
            }
            IOp::Serde => {
                let text = serde_json::to_string(&it).map_err(|e| format!("serialize: {e}"))?;
                it = serde_json::from_str(&text).map_err(|e| format!("deserialize: {e}"))?;
                serde_seen = true;
                st.has_serde = true;
            }
        }
        for (p, s) in model.iter().enumerate() {
            let r = it.resolve(keys[p]);
            if r != Some(s.as_str()) {
                return Err(format!("step {i}: resolve(key of {s:?}) = {r:?}"));
            }
            if it.get(s) != Some(keys[p]) {
                return Err(format!("step {i}: get({s:?}) = {:?}, expected {:?}", it.get(s), keys[p]));
            }
        }
        // keys that were never issued resolve to nothing (documented Option; matters after
        // deserialising an interner shorter than keys held elsewhere)
        let n = model.len() as u32;
        for never in [n + 1, n + 2, u32::MAX] {
            let k = NonZeroU32::new(never).unwrap();
            if !keys.contains(&k) {
                let r = it.resolve(k);
                if r.is_some() {
                    return Err(format!("step {i}: resolve({never}) = {r:?} although only {n} keys were issued"));
                }
            }
        }
    }
    st.nontrivial = model.len() >= 3 && (had_dup_after_serde || ops.iter().any(|o| matches!(o, IOp::Get(_))));
    Ok(st)
}

fn interner_strategy() -> impl Strategy<Value = Vec<IOp>> {
    // A small pool so duplicates, prefixes and the empty string are common.
    let s = prop_oneof![
        4 => proptest::sample::select(vec!["", "a", "ab", "abc", "b", "bc", "é", "éa", "日本", "a\u{0}", "\\", "ba"]).prop_map(|s| s.to_string()),
        2 => "[a-c]{0,4}",
        1 => "\\PC{0,6}",
    ];
    let op = prop_oneof![
        5 => s.clone().prop_map(IOp::Intern),
        3 => s.prop_map(IOp::Get),
        1 => Just(IOp::Serde),
    ];
    proptest::collection::vec(op, 0..40)
}

/// Sequence number `i` over the 2*|pool|+1 symbols Intern(s), Get(s), Serde; shortest first.
fn iops_from_index(mut i: u64, max_len: usize, pool: &[&str]) -> Vec<IOp> {
    let n = 2 * pool.len() as u64 + 1;
    let mut len = 0usize;
    let mut block = 1u64;
    while i >= block {
        i -= block;
        block *= n;
        len += 1;
        assert!(len <= max_len);
    }
    let mut ops = Vec::with_capacity(len);
    for _ in 0..len {
        let d = (i % n) as usize;
        i /= n;
        ops.push(if d < pool.len() {
            IOp::Intern(pool[d].to_string())
        } else if d < 2 * pool.len() {
            IOp::Get(pool[d - pool.len()].to_string())
        } else {
            IOp::Serde
        });
    }
    ops
}

// ---------------------------------------------------------------------------------
// Matcher

#[derive(Clone, Debug, Serialize, Deserialize)]
pub struct MCase {
    pattern: Vec<u8>,
    text: Vec<u8>,
}

fn naive_hit(pattern: &[u8], text: &[u8], i: usize) -> bool {
    i + 1 >= pattern.len() && text[i + 1 - pattern.len()..=i] == pattern[..]
}

/// Everything a `Nevec` lets one read must agree with the `Vec` holding the same elements.
fn nevec_observe<T: PartialEq + Clone + std::fmt::Debug>(v: &Nevec<T>, m: &[T], at: &str) -> Result<(), String> {
    if v.len() != m.len() {
        return Err(format!("{at}: len() = {}, expected {}", v.len(), m.len()));
    }
    if Some(v.last()) != m.last() {
        return Err(format!("{at}: last() = {:?}, expected {:?}", v.last(), m.last()));
    }
    for i in 0..m.len() + 2 {
        if v.get(i) != m.get(i) {
            return Err(format!("{at}: get({i}) = {:?}, expected {:?}", v.get(i), m.get(i)));
        }
    }
    for (i, x) in m.iter().enumerate() {
        if v[i] != *x {
            return Err(format!("{at}: [{i}] = {:?}, expected {:?}", v[i], x));
        }
    }
    let it: Vec<T> = v.into_iter().cloned().collect();
    if it != m {
        return Err(format!("{at}: iteration yields {it:?}, expected {m:?}"));
    }
    let mut n = 0usize;
    for x in v {
        if m.get(n) != Some(x) {
            return Err(format!("{at}: for-loop element {n} = {x:?}, expected {:?}", m.get(n)));
        }
        n += 1;
    }
    if n != m.len() {
        return Err(format!("{at}: for-loop ran {n} times, expected {}", m.len()));
    }
    let mut c = v.clone();
    if Some(&*c.last_mut()) != m.last() {
        return Err(format!("{at}: last_mut() reads {:?}, expected {:?}", c.last_mut(), m.last()));
    }
    let popped = c.pop();
    if Some(&popped) != m.last() {
        return Err(format!("{at}: pop() = {popped:?}, expected {:?}", m.last()));
    }
    Ok(())
}

fn matcher_oracle(c: &MCase) -> Result<bool, String> {
    let p = &c.pattern;
    // the two ways texlang builds a delimiter: all at once, or first element + push
    let sub = if (p.len() + c.text.len()) % 2 == 0 {
        Nevec::new_with_tail(p[0], p[1..].to_vec())
    } else {
        let mut n = nevec![p[0]];
        for x in &p[1..] {
            n.push(*x);
        }
        n
    };
    let m = Matcher::new(sub);
    // The accessors texlang::texmacro relies on (`substring().last()` for the `#{` rule,
    // `substring().len()` for removing the delimiter): the matcher hands back its pattern.
    nevec_observe(m.substring(), p, &format!("pattern {p:?}: substring()"))?;
    nevec_observe(&m.clone().take_substring(), p, &format!("pattern {p:?}: take_substring()"))?;
    // One Matcher, several searches: the text and its reverse are fed alternately to two
    // searches; a third search starts after the first two were used.
    let rev: Vec<u8> = c.text.iter().rev().copied().collect();
    let mut s = m.start();
    let mut s2 = m.start();
    let mut hits = 0;
    let mut last_hit: Option<usize> = None;
    let mut overlap = false;
    for i in 0..c.text.len() {
        let got = s.next(&c.text[i]);
        let got2 = s2.next(&rev[i]);
        let exp = naive_hit(p, &c.text, i);
        if got != exp {
            return Err(format!("pattern {:?} text {:?}: at position {i} matcher says {got}, naive says {exp}", c.pattern, c.text));
        }
        let exp2 = naive_hit(p, &rev, i);
        if got2 != exp2 {
            return Err(format!("pattern {:?} text {:?} (second search of the same matcher, interleaved with a search of the reversed text): at position {i} matcher says {got2}, naive says {exp2}", c.pattern, rev));
        }
        if exp {
            hits += 1;
            if let Some(l) = last_hit {
                if i - l < c.pattern.len() {
                    overlap = true;
                }
            }
            last_hit = Some(i);
        }
    }
    let mut s3 = m.start();
    for i in 0..c.text.len() {
        let got = s3.next(&c.text[i]);
        let exp = naive_hit(p, &c.text, i);
        if got != exp {
            return Err(format!("pattern {:?} text {:?} (fresh search after earlier searches of the same matcher): at position {i} matcher says {got}, naive says {exp}", c.pattern, c.text));
        }
    }
    nevec_observe(m.substring(), p, &format!("pattern {p:?}: substring() after searching"))?;
    Ok(overlap || (hits >= 1 && c.pattern.len() >= 2))
}

fn mcase_from_index(mut i: u64, alpha: u64, maxp: u32, maxt: u32) -> MCase {
    // enumerate (plen in 1..=maxp, tlen in 0..=maxt, pattern digits, text digits)
    for plen in 1..=maxp {
        for tlen in 0..=maxt {
            let block = alpha.pow(plen) * alpha.pow(tlen);
            if i < block {
                let mut pattern = vec![];
                for _ in 0..plen {
                    pattern.push((i % alpha) as u8);
                    i /= alpha;
                }
                let mut text = vec![];
                for _ in 0..tlen {
                    text.push((i % alpha) as u8);
                    i /= alpha;
                }
                return MCase { pattern, text };
            }
            i -= block;
        }
    }
    unreachable!()
}

fn mcase_total(alpha: u64, maxp: u32, maxt: u32) -> u64 {
    let mut t = 0;
    for plen in 1..=maxp {
        for tlen in 0..=maxt {
            t += alpha.pow(plen) * alpha.pow(tlen);
        }
    }
    t
}

// ---------------------------------------------------------------------------------
// Nevec against Vec

#[derive(Clone, Copy, Debug, PartialEq, Eq, Serialize, Deserialize)]
pub enum NOp {
    Push,
    PopTail,
    /// write through `last_mut()`
    SetLast,
    /// write through `get_mut(i)` (must be `None` exactly when i >= len)
    SetAt(u8),
    /// `get_mut(len)` and `get_mut(len + 1)` must be `None`
    SetPastEnd,
}

const NEVEC_ALPHABET: [NOp; 7] = [NOp::Push, NOp::PopTail, NOp::SetLast, NOp::SetAt(0), NOp::SetAt(1), NOp::SetAt(2), NOp::SetPastEnd];
const NEVEC_CTORS: u64 = 8;

#[derive(Clone, Debug, Serialize, Deserialize)]
pub struct NCase {
    /// 0 new, 1 with_capacity, 2/3 new_with_tail, 4/5/6 the `nevec!` forms, 7 Default
    ctor: u8,
    ops: Vec<NOp>,
}

fn ncase_from_index(i: u64, max_len: usize) -> NCase {
    let ctor = (i % NEVEC_CTORS) as u8;
    let mut i = i / NEVEC_CTORS;
    let n = NEVEC_ALPHABET.len() as u64;
    let mut len = 0usize;
    let mut block = 1u64;
    while i >= block {
        i -= block;
        block *= n;
        len += 1;
        assert!(len <= max_len);
    }
    let mut ops = Vec::with_capacity(len);
    for _ in 0..len {
        ops.push(NEVEC_ALPHABET[(i % n) as usize]);
        i /= n;
    }
    NCase { ctor, ops }
}

fn nevec_oracle(c: &NCase) -> Result<bool, String> {
    let (mut v, mut m): (Nevec<u32>, Vec<u32>) = match c.ctor {
        0 => (Nevec::new(0), vec![0]),
        1 => (Nevec::with_capacity(0, 3), vec![0]),
        2 => (Nevec::new_with_tail(0, vec![1]), vec![0, 1]),
        3 => (Nevec::new_with_tail(0, vec![1, 2]), vec![0, 1, 2]),
        4 => (nevec![0], vec![0]),
        5 => (nevec![0, 1], vec![0, 1]),
        6 => (nevec![0, 1, 2,], vec![0, 1, 2]),
        _ => (Nevec::default(), vec![0]),
    };
    nevec_observe(&v, &m, "after construction")?;
    let mut shrunk_then_read = false;
    for (i, op) in c.ops.iter().enumerate() {
        let fresh = 10 * (i as u32 + 1); // every written value is new
        let at = format!("step {i} {op:?}");
        match op {
            NOp::Push => {
                v.push(fresh);
                m.push(fresh);
            }
            NOp::PopTail => {
                let exp = if m.len() > 1 { m.pop() } else { None };
                let got = v.pop_from_tail();
                if got != exp {
                    return Err(format!("{at}: pop_from_tail() = {got:?}, expected {exp:?}"));
                }
                shrunk_then_read |= exp.is_some();
            }
            NOp::SetLast => {
                *v.last_mut() = fresh + 1;
                *m.last_mut().unwrap() = fresh + 1;
            }
            NOp::SetAt(j) => {
                let j = *j as usize;
                match (v.get_mut(j), m.get_mut(j)) {
                    (Some(a), Some(b)) => {
                        if *a != *b {
                            return Err(format!("{at}: get_mut({j}) reads {a}, expected {b}"));
                        }
                        *a = fresh + 2;
                        *b = fresh + 2;
                    }
                    (None, None) => {}
                    (a, b) => return Err(format!("{at}: get_mut({j}) = {a:?}, expected {b:?}")),
                }
            }
            NOp::SetPastEnd => {
                for j in [m.len(), m.len() + 1] {
                    if let Some(a) = v.get_mut(j) {
                        return Err(format!("{at}: get_mut({j}) = Some({a}) on a vector of {} elements", m.len()));
                    }
                }
            }
        }
        nevec_observe(&v, &m, &at)?;
    }
    let last = v.pop();
    if Some(&last) != m.last() {
        return Err(format!("final pop() = {last}, expected {:?}", m.last()));
    }
    Ok(shrunk_then_read && c.ops.contains(&NOp::Push))
}

// ---------------------------------------------------------------------------------
// Tags

fn one() -> usize {
    1
}

#[derive(Clone, Debug, Serialize, Deserialize)]
pub struct TagCase {
    threads: usize,
    per_thread: usize,
    round: u64,
    /// Number of `StaticTag`s of the round.
    #[serde(default = "one")]
    statics: usize,
}

type Tag = texlang::command::Tag;

/// Every tag this process has ever been handed (dynamic and static), over all rounds, witness
/// replays and regression inputs: "pairwise distinct" is a statement about the process.
fn seen_tags() -> std::sync::MutexGuard<'static, HashSet<Tag>> {
    static SEEN: std::sync::OnceLock<std::sync::Mutex<HashSet<Tag>>> = std::sync::OnceLock::new();
    SEEN.get_or_init(Default::default).lock().unwrap_or_else(|e| e.into_inner())
}

/// Keep the most telling panic of a round: the original one rather than the "poisoned mutex"
/// panics it causes in the other threads.
fn note_panic(slot: &mut Option<String>, msg: String) {
    match slot {
        Some(old) if !old.contains("PoisonError") || msg.contains("PoisonError") => {}
        _ => *slot = Some(msg),
    }
}

fn tag_oracle(c: &TagCase) -> Result<bool, String> {
    use texlang::command::StaticTag;
    let ns = c.statics.max(1);
    let sts: Vec<&'static StaticTag> = (0..ns)
        .map(|j| -> &'static StaticTag {
            if j % 2 == 0 {
                Box::leak(Box::new(StaticTag::new()))
            } else {
                Box::leak(Box::default())
            }
        })
        .collect();
    // the spawning thread takes part in the race
    let barrier = std::sync::Barrier::new(c.threads + 1);
    let mut all: Vec<Tag> = vec![];
    let mut statics: Vec<Vec<Tag>> = vec![]; // per observing thread: the tag of every static
    let mut panicked: Option<String> = None;
    std::thread::scope(|s| {
        let mut hs = vec![];
        for t in 0..c.threads {
            let barrier = &barrier;
            let sts = &sts;
            let n = c.per_thread;
            hs.push(s.spawn(move || {
                barrier.wait();
                panics::catch(|| {
                    let mut v = Vec::with_capacity(n);
                    let mut sv: Vec<Option<Tag>> = vec![None; ns];
                    for i in 0..n {
                        if i == (t % n.max(1)) {
                            // every thread asks for the statics in its own order
                            for j in 0..ns {
                                let id = (t + j) % ns;
                                sv[id] = Some(sts[id].get());
                            }
                        }
                        v.push(Tag::new());
                    }
                    let sv: Vec<Tag> = (0..ns).map(|id| sv[id].unwrap_or_else(|| sts[id].get())).collect();
                    (v, sv)
                })
            }));
        }
        barrier.wait();
        match panics::catch(|| (0..c.per_thread.min(50)).map(|_| Tag::new()).collect::<Vec<Tag>>()) {
            Ok(v) => all.extend(v),
            Err(p) => note_panic(&mut panicked, format!("panic at {}: {}", p.site(), p.message)),
        }
        for h in hs {
            match h.join() {
                Ok(Ok((v, sv))) => {
                    all.extend(v);
                    statics.push(sv);
                }
                Ok(Err(p)) => note_panic(&mut panicked, format!("panic at {}: {}", p.site(), p.message)),
                Err(_) => note_panic(&mut panicked, "a tag-creating thread died".into()),
            }
        }
    });
    if let Some(p) = panicked {
        return Err(format!("creating tags from {} threads: {p}", c.threads + 1));
    }
    let n = all.len();
    let set: HashSet<Tag> = all.iter().copied().collect();
    if set.len() != n {
        return Err(format!("{} tags created by {} threads, only {} distinct", n, c.threads + 1, set.len()));
    }
    let mut seen = seen_tags();
    for t in &all {
        if !seen.insert(*t) {
            return Err(format!("{t:?}, created in round {}, had already been handed out earlier in this process", c.round));
        }
    }
    for id in 0..ns {
        let s0 = statics[0][id];
        if statics.iter().any(|sv| sv[id] != s0) {
            return Err("StaticTag::get returned different tags in different threads".into());
        }
        if sts[id].get() != s0 {
            return Err("StaticTag::get not stable".into());
        }
        for other in 0..id {
            if statics[0][other] == s0 {
                return Err(format!("two different StaticTags resolve to the same tag {s0:?}"));
            }
        }
        if set.contains(&s0) {
            return Err("static tag collides with a dynamically created tag".into());
        }
        if !seen.insert(s0) {
            return Err(format!("static tag {s0:?} of round {} had already been handed out earlier in this process", c.round));
        }
    }
    Ok(c.threads >= 2)
}

fn tag_verdict(c: &TagCase) -> Verdict {
    match panics::catch(|| tag_oracle(c)) {
        Ok(Ok(nt)) => Verdict::pass(nt),
        Ok(Err(e)) => Verdict::Fail(e),
        Err(p) => Verdict::Fail(format!("panic at {}: {}", p.site(), p.message)),
    }
}

// ---------------------------------------------------------------------------------

pub fn run(ctx: &Ctx) {
    ctx.rule("scoped map: operation histories over {local,global}x2 keys x2 values, begin, end (exhaustive up to a length, BFS over distinct abstract states, random long histories incl. iter_all rebuilds, extend, containers collected from pairs, serde round trips) compared step by step (visible values through get/iter/len/is_empty/backing_container, the flag returned by insert) with a stack-of-snapshots model, non-trivial = a global insert to a key locally changed in a still open group followed by a group end; interner: op sequences under colliding hashers (all sequences over 4 strings up to a length, and random ones), non-trivial = >=3 distinct strings with lookups or re-interning after a serde round trip; matcher: all pattern/text pairs, several searches per matcher, non-trivial = overlapping hits or a hit of a pattern of length>=2; nevec: all short operation sequences against Vec, non-trivial = push and a successful pop_from_tail; tags: rounds of T+1 threads x N creations and 2-4 static tags checked against every tag of the process so far, non-trivial = T>=2");
    ctx.assume("tag uniqueness is stress-tested under the OS scheduler, not under all interleavings");
    ctx.assume("the undocumented bool returned by GroupingContainer::insert is taken to mean 'the key had a visible value before the call' (the analogue of HashMap::insert returning Some)");
    ctx.assume("Nevec::is_empty (doc and code contradict the std convention) and the Display format of Nevec are not observed");
    let tier = ctx.tier;
    type HashBacking = std::collections::HashMap<usize, u8>;
    type VecBacking = Vec<Option<u8>>;

    // --- scoped map, exhaustive short histories
    let max_len = tier.pick(6usize, 7usize);
    for (sub, k0, k1) in [("map_hash_exhaustive", 0u8, 1u8), ("map_vec_exhaustive", 0u8, 2u8)] {
        let alphabet = small_alphabet(k0, k1);
        let total: u64 = (0..=max_len as u32).map(|l| 10u64.pow(l)).sum();
        let keys = vec![k0 as usize, k1 as usize, 1usize, 3usize];
        let is_hash = sub.starts_with("map_hash");
        let alpha2 = alphabet.clone();
        run_indexed(
            ctx,
            sub,
            total,
            true,
            |i| history_from_index(i, max_len, &alphabet),
            |ops: &Vec<MOp>, _case| {
                let depth = if ops.len() + 2 <= max_len.min(6) { 2 } else if ops.len() < max_len { 1 } else { 0 };
                let r = if is_hash {
                    run_history::<HashBacking>(ops, &keys, depth, &alpha2)
                } else {
                    run_history::<VecBacking>(ops, &keys, depth, &alpha2)
                };
                match r {
                    Ok(()) => Verdict::pass(history_nontrivial(ops)),
                    Err(e) => Verdict::Fail(e),
                }
            },
        );
        ctx.extra(sub, "max_history_length", serde_json::json!(max_len));
    }

    // --- scoped map, the other entry points (extend, FromIterator<(K,V)>) in every position of
    // every short history; the rebuilt copy is continued with every symbol of the same alphabet
    let max_len_e = tier.pick(4usize, 5usize);
    for (sub, k0, k1) in [("map_hash_entrypoints", 0u8, 1u8), ("map_vec_entrypoints", 0u8, 2u8)] {
        let alphabet = entry_alphabet(k0, k1);
        let total: u64 = (0..=max_len_e as u32).map(|l| (alphabet.len() as u64).pow(l)).sum();
        let keys = vec![k0 as usize, k1 as usize, 1usize, 3usize];
        let is_hash = sub.starts_with("map_hash");
        let alpha2 = alphabet.clone();
        run_indexed(
            ctx,
            sub,
            total,
            true,
            |i| history_from_index(i, max_len_e, &alphabet),
            |ops: &Vec<MOp>, case| {
                let collect_in_group = {
                    let mut depth = 0i32;
                    let mut hit = false;
                    for o in ops {
                        match o {
                            MOp::Begin => depth += 1,
                            MOp::End => depth = (depth - 1).max(0),
                            MOp::Collect(_) => {
                                hit |= depth > 0;
                                depth = 0;
                            }
                            _ => {}
                        }
                    }
                    hit
                };
                let extend_in_group = {
                    let mut depth = 0i32;
                    let mut hit = false;
                    for o in ops {
                        match o {
                            MOp::Begin => depth += 1,
                            MOp::End => depth = (depth - 1).max(0),
                            MOp::Collect(_) => depth = 0,
                            MOp::Extend(p) => hit |= depth > 0 && !p.is_empty(),
                            _ => {}
                        }
                    }
                    hit
                };
                case.class_if(ops.iter().any(|o| matches!(o, MOp::Collect(p) if !p.is_empty())), "has_collect");
                case.class_if(collect_in_group, "collect_replaces_container_with_open_groups");
                case.class_if(ops.iter().any(|o| matches!(o, MOp::Extend(p) if !p.is_empty())), "has_extend");
                case.class_if(extend_in_group, "extend_inside_group");
                let depth = if ops.len() < max_len_e { 1 } else { 0 };
                let r = if is_hash {
                    run_history::<HashBacking>(ops, &keys, depth, &alpha2)
                } else {
                    run_history::<VecBacking>(ops, &keys, depth, &alpha2)
                };
                match r {
                    Ok(()) => Verdict::pass(history_nontrivial(ops) || extend_in_group && ops.contains(&MOp::End)),
                    Err(e) => Verdict::Fail(e),
                }
            },
        );
        ctx.extra(sub, "max_history_length", serde_json::json!(max_len_e));
    }

    // --- scoped map, long random histories with rebuilds inside
    let n = tier.pick(150_000u64, 1_000_000u64);
    let keys: Vec<usize> = (0..8).collect();
    let alphabet = small_alphabet(0, 1);
    run_generated(ctx, "map_hash_random", n, || map_strategy(8, 200), |ops: &Vec<MOp>, case| {
        map_classes(ops, case);
        match run_history::<HashBacking>(ops, &keys, 1, &alphabet) {
            Ok(()) => Verdict::pass(history_nontrivial(ops)),
            Err(e) => Verdict::Fail(e),
        }
    });
    run_generated(ctx, "map_vec_random", n, || map_strategy(8, 200), |ops: &Vec<MOp>, case| {
        map_classes(ops, case);
        match run_history::<VecBacking>(ops, &keys, 1, &alphabet) {
            Ok(()) => Verdict::pass(history_nontrivial(ops)),
            Err(e) => Verdict::Fail(e),
        }
    });

    // --- BFS over distinct abstract states
    let (depth, cap) = tier.pick((8usize, 150_000usize), (12usize, 3_000_000usize));
    map_bfs::<HashBacking>(ctx, "map_hash_bfs", depth, cap, &[0, 1], &small_alphabet(0, 1));
    if tier == Tier::Thorough || !ctx.is_generate() {
        map_bfs::<VecBacking>(ctx, "map_vec_bfs", depth, cap, &[0, 2], &small_alphabet(0, 2));
    }

    // --- interner, every sequence over 4 strings (a bucket of 3 and more; one string elsewhere
    // under the length hasher) up to a length: chains of >= 3 colliding strings, lookups and
    // re-interning of their middle elements, before and after the deserialisation rebuild
    let max_len_i = tier.pick(6usize, 7usize);
    let total_i: u64 = (0..=max_len_i as u32).map(|l| 9u64.pow(l)).sum();
    run_indexed(ctx, "interner_constant_exhaustive", total_i, true, |i| iops_from_index(i, max_len_i, &["", "a", "ab", "b"]), |ops: &Vec<IOp>, case| {
        match interner_oracle::<ConstantBuild>(ops, bucket_constant) {
            Ok(st) => {
                st.classes(case);
                Verdict::pass(st.nontrivial)
            }
            Err(e) => Verdict::Fail(e),
        }
    });
    ctx.extra("interner_constant_exhaustive", "max_sequence_length", serde_json::json!(max_len_i));
    run_indexed(ctx, "interner_len_exhaustive", total_i, true, |i| iops_from_index(i, max_len_i, &["a", "b", "c", "ab"]), |ops: &Vec<IOp>, case| {
        match interner_oracle::<LenBuild>(ops, bucket_len) {
            Ok(st) => {
                st.classes(case);
                Verdict::pass(st.nontrivial)
            }
            Err(e) => Verdict::Fail(e),
        }
    });
    ctx.extra("interner_len_exhaustive", "max_sequence_length", serde_json::json!(max_len_i));

    // --- interner, random
    let n = tier.pick(150_000u64, 1_000_000u64);
    run_generated(ctx, "interner_constant_hash", n, interner_strategy, |ops: &Vec<IOp>, case| {
        match interner_oracle::<ConstantBuild>(ops, bucket_constant) {
            Ok(st) => {
                st.classes(case);
                Verdict::pass(st.nontrivial)
            }
            Err(e) => Verdict::Fail(e),
        }
    });
    run_generated(ctx, "interner_len_hash", n / 2, interner_strategy, |ops: &Vec<IOp>, case| match interner_oracle::<LenBuild>(ops, bucket_len) {
        Ok(st) => {
            st.classes(case);
            Verdict::pass(st.nontrivial)
        }
        Err(e) => Verdict::Fail(e),
    });
    run_generated(ctx, "interner_default_hash", n / 2, interner_strategy, |ops: &Vec<IOp>, case| {
        match interner_oracle::<std::collections::hash_map::RandomState>(ops, bucket_unknown) {
            Ok(st) => {
                st.classes(case);
                Verdict::pass(st.nontrivial)
            }
            Err(e) => Verdict::Fail(e),
        }
    });

    // --- matcher, exhaustive
    let (maxp, maxt) = tier.pick((5u32, 12u32), (6u32, 14u32));
    let total = mcase_total(2, maxp, maxt);
    run_indexed(ctx, "matcher_ab", total, true, |i| mcase_from_index(i, 2, maxp, maxt), |c: &MCase, _| match matcher_oracle(c) {
        Ok(nt) => Verdict::pass(nt),
        Err(e) => Verdict::Fail(e),
    });
    let (maxp3, maxt3) = tier.pick((3u32, 8u32), (4u32, 10u32));
    let total3 = mcase_total(3, maxp3, maxt3);
    run_indexed(ctx, "matcher_abc", total3, true, |i| mcase_from_index(i, 3, maxp3, maxt3), |c: &MCase, _| match matcher_oracle(c) {
        Ok(nt) => Verdict::pass(nt),
        Err(e) => Verdict::Fail(e),
    });

    // --- nevec against Vec, exhaustive
    let max_len_n = tier.pick(5usize, 7usize);
    let total_n: u64 = NEVEC_CTORS * (0..=max_len_n as u32).map(|l| (NEVEC_ALPHABET.len() as u64).pow(l)).sum::<u64>();
    run_indexed(ctx, "nevec_model", total_n, true, |i| ncase_from_index(i, max_len_n), |c: &NCase, case| {
        case.class_if(c.ops.iter().any(|o| matches!(o, NOp::SetAt(_))), "writes_through_get_mut");
        case.class_if(c.ops.contains(&NOp::PopTail), "has_pop_from_tail");
        match nevec_oracle(c) {
            Ok(nt) => Verdict::pass(nt),
            Err(e) => Verdict::Fail(e),
        }
    });
    ctx.extra("nevec_model", "max_sequence_length", serde_json::json!(max_len_n));

    // --- tags (single "worker": the oracle spawns its own threads)
    let rounds = tier.pick(1_500u64, 20_000u64);
    if let Mode::Replay { sub, case } = &ctx.mode {
        if sub == "tags" {
            let c: TagCase = match serde_json::from_value(case.clone()) {
                Ok(c) => c,
                Err(e) => {
                    eprintln!("replay file does not decode for {}:tags: {}", ctx.prop, e);
                    std::process::exit(2);
                }
            };
            // A duplicate across rounds needs more than one round to show: the stored round is
            // run three times against the process-wide set of tags.
            let mut v = tag_verdict(&c);
            for _ in 0..2 {
                if matches!(v, Verdict::Pass { .. }) {
                    v = tag_verdict(&c);
                }
            }
            ctx.replay_verdicts.lock().unwrap().push(("tags".into(), v));
        }
    } else {
        run_tags(ctx, rounds);
    }
}

fn run_tags(ctx: &Ctx, rounds: u64) {
    // Sequential over rounds on purpose: each round owns all cores for maximal contention.
    let sizes = [1usize, 2, 3, 4, 8, 16, 32, 64];
    run_indexed_serial(ctx, "tags", rounds, |i| TagCase {
        threads: sizes[(i % sizes.len() as u64) as usize],
        per_thread: [1usize, 2, 50, 400][((i / sizes.len() as u64) % 4) as usize],
        round: i,
        statics: 2 + (i % 3) as usize,
    });
}

fn run_indexed_serial(ctx: &Ctx, sub: &str, total: u64, make: impl Fn(u64) -> TagCase) {
    if ctx.stop.load(std::sync::atomic::Ordering::SeqCst) {
        return;
    }
    let mut evals = 0u64;
    let mut nt = 0u64;
    let mut sample = vec![];
    let mut tags_checked = 0u64;
    for i in 0..total {
        let c = make(i);
        evals += 1;
        match tag_verdict(&c) {
            Verdict::Fail(e) => {
                ctx.fail_external(sub, &c, &e);
                break;
            }
            Verdict::Pass { nontrivial: true } => {
                nt += 1;
                if sample.len() < 2 {
                    sample.push(format!("{:?}", c));
                }
            }
            _ => {}
        }
        tags_checked = seen_tags().len() as u64;
    }
    ctx.add_stats(sub, evals, nt, sample);
    ctx.extra(sub, "distinct_tags_in_process_wide_set", serde_json::json!(tags_checked));
}
