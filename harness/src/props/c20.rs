//! C20 Core containers and identifiers.

use crate::engine::*;
use proptest::prelude::*;
use serde::{Deserialize, Serialize};
use std::collections::{BTreeMap, BTreeSet, VecDeque};
use texcraft_stdext::algorithms::substringsearch::Matcher;
use texcraft_stdext::collections::groupingmap::{
    BackingContainer, GroupingContainer, Item, Scope,
};
use texcraft_stdext::collections::interner::Interner;
use texcraft_stdext::collections::nevec::Nevec;

// ---------------------------------------------------------------------------------
// Scoped map

#[derive(Clone, Copy, Debug, PartialEq, Eq, Serialize, Deserialize)]
pub enum MOp {
    Local(u8, u8),
    Global(u8, u8),
    Begin,
    End,
    /// Replace the container by `iter_all().collect()`.
    Rebuild,
}

type Frame = BTreeMap<usize, u8>;

#[derive(Clone, Debug, PartialEq, Eq, PartialOrd, Ord)]
struct Model {
    frames: Vec<Frame>,
}

impl Model {
    fn new() -> Self {
        Model { frames: vec![Frame::new()] }
    }
    /// Returns false when the operation must be rejected (end at depth 0).
    fn apply(&mut self, op: MOp) -> bool {
        match op {
            MOp::Local(k, v) => {
                self.frames.last_mut().unwrap().insert(k as usize, v);
            }
            MOp::Global(k, v) => {
                for f in &mut self.frames {
                    f.insert(k as usize, v);
                }
            }
            MOp::Begin => {
                let top = self.frames.last().unwrap().clone();
                self.frames.push(top);
            }
            MOp::End => {
                if self.frames.len() == 1 {
                    return false;
                }
                self.frames.pop();
            }
            MOp::Rebuild => {}
        }
        true
    }
    fn top(&self) -> &Frame {
        self.frames.last().unwrap()
    }
}

fn rebuild<T: BackingContainer<usize, u8>>(c: &GroupingContainer<usize, u8, T>) -> GroupingContainer<usize, u8, T> {
    c.iter_all().map(Item::adapt_map(|(k, v): (usize, &u8)| (k, *v))).collect()
}

fn apply_impl<T: BackingContainer<usize, u8>>(c: &mut GroupingContainer<usize, u8, T>, op: MOp) -> Result<bool, String> {
    match op {
        MOp::Local(k, v) => {
            c.insert(k as usize, v, Scope::Local);
        }
        MOp::Global(k, v) => {
            c.insert(k as usize, v, Scope::Global);
        }
        MOp::Begin => c.begin_group(),
        MOp::End => return Ok(c.end_group().is_ok()),
        MOp::Rebuild => {
            *c = rebuild(c);
        }
    }
    Ok(true)
}

fn compare<T: BackingContainer<usize, u8>>(c: &GroupingContainer<usize, u8, T>, m: &Model, keys: &[usize], at: &str) -> Result<(), String> {
    for k in keys {
        let a = c.get(k).copied();
        let b = m.top().get(k).copied();
        if a != b {
            return Err(format!("{at}: get({k}) = {a:?}, model {b:?}"));
        }
    }
    if c.len() != m.top().len() {
        return Err(format!("{at}: len {} vs model {}", c.len(), m.top().len()));
    }
    let mut vis: Vec<(usize, u8)> = c.iter().map(|(k, v)| (k, *v)).collect();
    vis.sort();
    let exp: Vec<(usize, u8)> = m.top().iter().map(|(k, v)| (*k, *v)).collect();
    if vis != exp {
        return Err(format!("{at}: iter() {vis:?} vs model {exp:?}"));
    }
    Ok(())
}

/// Unwind both to depth 0, comparing after each end_group: this is what makes saved
/// (invisible) values observable.
fn unwind_compare<T: BackingContainer<usize, u8>>(mut c: GroupingContainer<usize, u8, T>, mut m: Model, keys: &[usize], at: &str) -> Result<(), String> {
    loop {
        let ok_m = m.apply(MOp::End);
        let ok_c = c.end_group().is_ok();
        if ok_m != ok_c {
            return Err(format!("{at}: unwinding: end_group ok={ok_c}, model ok={ok_m}"));
        }
        if !ok_m {
            return Ok(());
        }
        compare(&c, &m, keys, &format!("{at} (after unwinding to depth {})", m.frames.len() - 1))?;
    }
}

fn run_history<T: BackingContainer<usize, u8>>(ops: &[MOp], keys: &[usize], check_rebuild_suffixes: usize, alphabet: &[MOp]) -> Result<(), String> {
    let mut c: GroupingContainer<usize, u8, T> = Default::default();
    let mut m = Model::new();
    for (i, op) in ops.iter().enumerate() {
        let ok_m = m.apply(*op);
        let ok_c = apply_impl(&mut c, *op)?;
        if ok_m != ok_c {
            return Err(format!("step {i} {op:?}: implementation ok={ok_c}, model ok={ok_m}"));
        }
        compare(&c, &m, keys, &format!("after step {i} {op:?}"))?;
    }
    // Rebuild from iter_all: same visible values, same group count, same future.
    let r = rebuild(&c);
    compare(&r, &m, keys, "rebuilt container")?;
    if check_rebuild_suffixes >= 1 {
        for a in alphabet {
            let mut r1 = rebuild(&c);
            let mut m1 = m.clone();
            let ok_m = m1.apply(*a);
            let ok_c = apply_impl(&mut r1, *a)?;
            if ok_m != ok_c {
                return Err(format!("rebuilt, then {a:?}: ok={ok_c} model ok={ok_m}"));
            }
            compare(&r1, &m1, keys, &format!("rebuilt, then {a:?}"))?;
            if check_rebuild_suffixes >= 2 {
                for b in alphabet {
                    let mut r2 = rebuild(&r1);
                    // r2 is a rebuild of a continued rebuild; continue it with b
                    let mut m2 = m1.clone();
                    let ok_m = m2.apply(*b);
                    let ok_c = apply_impl(&mut r2, *b)?;
                    if ok_m != ok_c {
                        return Err(format!("rebuilt, then {a:?} {b:?}: ok={ok_c} model ok={ok_m}"));
                    }
                    compare(&r2, &m2, keys, &format!("rebuilt, then {a:?} {b:?}"))?;
                }
            }
            unwind_compare(r1, m1, keys, &format!("rebuilt, then {a:?}"))?;
        }
    }
    unwind_compare(r, m.clone(), keys, "rebuilt container")?;
    unwind_compare(c, m, keys, "original container")?;
    Ok(())
}

fn small_alphabet(k0: u8, k1: u8) -> Vec<MOp> {
    let mut v = vec![];
    for k in [k0, k1] {
        for val in [1u8, 2u8] {
            v.push(MOp::Local(k, val));
            v.push(MOp::Global(k, val));
        }
    }
    v.push(MOp::Begin);
    v.push(MOp::End);
    v
}

fn history_from_index(mut i: u64, max_len: usize, alphabet: &[MOp]) -> Vec<MOp> {
    // lengths 0..=max_len, shortest first
    let n = alphabet.len() as u64;
    let mut len = 0usize;
    let mut block = 1u64;
    while i >= block {
        i -= block;
        block *= n;
        len += 1;
        assert!(len <= max_len);
    }
    let mut ops = Vec::with_capacity(len);
    for _ in 0..len {
        ops.push(alphabet[(i % n) as usize]);
        i /= n;
    }
    ops
}

fn history_nontrivial(ops: &[MOp]) -> bool {
    // a global insert at depth >= 1 after a local insert to the same key in an open group,
    // followed later by an end.
    let mut depth = 0i32;
    let mut local_in_group: BTreeSet<u8> = BTreeSet::new();
    let mut armed = false;
    for op in ops {
        match op {
            MOp::Begin => depth += 1,
            MOp::End => {
                if depth > 0 {
                    depth -= 1;
                    if armed {
                        return true;
                    }
                }
            }
            MOp::Local(k, _) => {
                if depth > 0 {
                    local_in_group.insert(*k);
                }
            }
            MOp::Global(k, _) => {
                if depth > 0 && local_in_group.contains(k) {
                    armed = true;
                }
            }
            MOp::Rebuild => {}
        }
    }
    false
}

fn map_strategy(nkeys: u8, max_len: usize) -> impl Strategy<Value = Vec<MOp>> {
    let op = prop_oneof![
        3 => (0..nkeys, 1u8..5).prop_map(|(k, v)| MOp::Local(k, v)),
        3 => (0..nkeys, 1u8..5).prop_map(|(k, v)| MOp::Global(k, v)),
        3 => Just(MOp::Begin),
        2 => Just(MOp::End),
        1 => Just(MOp::Rebuild),
    ];
    proptest::collection::vec(op, 0..max_len)
}

fn map_bfs<T: BackingContainer<usize, u8>>(ctx: &Ctx, sub: &str, depth: usize, cap: usize, keys: &[usize], alphabet: &[MOp]) {
    // Abstract state: model frames + per-frame set of locally touched keys. Distinct
    // abstract states are expanded once, through the first history that reached them.
    if !matches!(ctx.mode, Mode::Generate) {
        return;
    }
    type Abs = (Vec<Frame>, Vec<BTreeSet<usize>>);
    let mut seen: BTreeSet<Abs> = BTreeSet::new();
    let mut queue: VecDeque<(Vec<MOp>, Abs)> = VecDeque::new();
    let start: Abs = (vec![Frame::new()], vec![BTreeSet::new()]);
    seen.insert(start.clone());
    queue.push_back((vec![], start));
    let mut histories: Vec<Vec<MOp>> = vec![];
    let mut capped = false;
    while let Some((h, abs)) = queue.pop_front() {
        histories.push(h.clone());
        if h.len() >= depth {
            continue;
        }
        for op in alphabet {
            let (mut frames, mut touched) = abs.clone();
            match op {
                MOp::Local(k, v) => {
                    frames.last_mut().unwrap().insert(*k as usize, *v);
                    touched.last_mut().unwrap().insert(*k as usize);
                }
                MOp::Global(k, v) => {
                    for f in &mut frames {
                        f.insert(*k as usize, *v);
                    }
                    for t in &mut touched {
                        t.remove(&(*k as usize));
                    }
                }
                MOp::Begin => {
                    let t = frames.last().unwrap().clone();
                    frames.push(t);
                    touched.push(BTreeSet::new());
                }
                MOp::End => {
                    if frames.len() == 1 {
                        continue;
                    }
                    frames.pop();
                    touched.pop();
                }
                MOp::Rebuild => continue,
            }
            let n: Abs = (frames, touched);
            if seen.len() >= cap {
                capped = true;
                continue;
            }
            if seen.insert(n.clone()) {
                let mut h2 = h.clone();
                h2.push(*op);
                queue.push_back((h2, n));
            }
        }
    }
    let total = histories.len() as u64;
    ctx.extra(sub, "bfs_distinct_states", serde_json::json!(total));
    ctx.extra(sub, "bfs_depth", serde_json::json!(depth));
    ctx.extra(sub, "bfs_capped", serde_json::json!(capped));
    let keys = keys.to_vec();
    let alphabet = alphabet.to_vec();
    run_indexed(
        ctx,
        sub,
        total,
        !capped,
        |i| histories[i as usize].clone(),
        |ops: &Vec<MOp>, _case| match run_history::<T>(ops, &keys, 1, &alphabet) {
            Ok(()) => Verdict::pass(history_nontrivial(ops) || ops.len() >= 3),
            Err(e) => Verdict::Fail(e),
        },
    );
}

// ---------------------------------------------------------------------------------
// Interner

#[derive(Default, Clone)]
pub struct ConstantHasher;
impl std::hash::Hasher for ConstantHasher {
    fn finish(&self) -> u64 {
        42
    }
    fn write(&mut self, _bytes: &[u8]) {}
}
#[derive(Default, Clone)]
pub struct ConstantBuild;
impl std::hash::BuildHasher for ConstantBuild {
    type Hasher = ConstantHasher;
    fn build_hasher(&self) -> ConstantHasher {
        ConstantHasher
    }
}
/// Hash = string length mod 3: few buckets, long chains, several buckets.
#[derive(Default, Clone)]
pub struct LenHasher(u64);
impl std::hash::Hasher for LenHasher {
    fn finish(&self) -> u64 {
        self.0 % 3
    }
    fn write(&mut self, bytes: &[u8]) {
        self.0 += bytes.len() as u64;
    }
}
#[derive(Default, Clone)]
pub struct LenBuild;
impl std::hash::BuildHasher for LenBuild {
    type Hasher = LenHasher;
    fn build_hasher(&self) -> LenHasher {
        LenHasher(0)
    }
}

#[derive(Clone, Debug, Serialize, Deserialize)]
pub enum IOp {
    Intern(String),
    Get(String),
    Serde,
}

fn interner_oracle<S: std::hash::BuildHasher + Default>(ops: &[IOp]) -> Result<bool, String> {
    let mut it: Interner<std::num::NonZeroU32, S> = Default::default();
    let mut model: Vec<String> = vec![]; // index = order of first interning
    let mut keys: Vec<std::num::NonZeroU32> = vec![];
    let mut had_dup_after_serde = false;
    let mut serde_seen = false;
    for (i, op) in ops.iter().enumerate() {
        match op {
            IOp::Intern(s) => {
                let k = it.get_or_intern(s);
                match model.iter().position(|m| m == s) {
                    Some(p) => {
                        if keys[p] != k {
                            return Err(format!("step {i}: re-interning {s:?} gave key {k:?}, first key was {:?}", keys[p]));
                        }
                        if serde_seen {
                            had_dup_after_serde = true;
                        }
                    }
                    None => {
                        if let Some(p) = keys.iter().position(|x| *x == k) {
                            return Err(format!("step {i}: new string {s:?} got the key of {:?}", model[p]));
                        }
                        model.push(s.clone());
                        keys.push(k);
                    }
                }
            }
            IOp::Get(s) => {
                let g = it.get(s);
                let exp = model.iter().position(|m| m == s).map(|p| keys[p]);
                if g != exp {
                    return Err(format!("step {i}: get({s:?}) = {g:?}, expected {exp:?}"));
                }
            }
            IOp::Serde => {
                let text = serde_json::to_string(&it).map_err(|e| format!("serialize: {e}"))?;
                it = serde_json::from_str(&text).map_err(|e| format!("deserialize: {e}"))?;
                serde_seen = true;
            }
        }
        for (p, s) in model.iter().enumerate() {
            let r = it.resolve(keys[p]);
            if r != Some(s.as_str()) {
                return Err(format!("step {i}: resolve(key of {s:?}) = {r:?}"));
            }
            if it.get(s) != Some(keys[p]) {
                return Err(format!("step {i}: get({s:?}) = {:?}, expected {:?}", it.get(s), keys[p]));
            }
        }
    }
    Ok(model.len() >= 3 && (had_dup_after_serde || ops.iter().any(|o| matches!(o, IOp::Get(_)))))
}

fn interner_strategy() -> impl Strategy<Value = Vec<IOp>> {
    // A small pool so duplicates, prefixes and the empty string are common.
    let s = prop_oneof![
        4 => proptest::sample::select(vec!["", "a", "ab", "abc", "b", "bc", "é", "éa", "日本", "a\u{0}", "\\", "ba"]).prop_map(|s| s.to_string()),
        2 => "[a-c]{0,4}",
        1 => "\\PC{0,6}",
    ];
    let op = prop_oneof![
        5 => s.clone().prop_map(IOp::Intern),
        3 => s.prop_map(IOp::Get),
        1 => Just(IOp::Serde),
    ];
    proptest::collection::vec(op, 0..40)
}

// ---------------------------------------------------------------------------------
// Matcher

#[derive(Clone, Debug, Serialize, Deserialize)]
pub struct MCase {
    pattern: Vec<u8>,
    text: Vec<u8>,
}

fn matcher_oracle(c: &MCase) -> Result<bool, String> {
    let m = Matcher::new(Nevec::new_with_tail(c.pattern[0], c.pattern[1..].to_vec()));
    let mut s = m.start();
    let mut hits = 0;
    let mut last_hit: Option<usize> = None;
    let mut overlap = false;
    for i in 0..c.text.len() {
        let got = s.next(&c.text[i]);
        let exp = i + 1 >= c.pattern.len() && c.text[i + 1 - c.pattern.len()..=i] == c.pattern[..];
        if got != exp {
            return Err(format!("pattern {:?} text {:?}: at position {i} matcher says {got}, naive says {exp}", c.pattern, c.text));
        }
        if exp {
            hits += 1;
            if let Some(l) = last_hit {
                if i - l < c.pattern.len() {
                    overlap = true;
                }
            }
            last_hit = Some(i);
        }
    }
    Ok(overlap || (hits >= 1 && c.pattern.len() >= 2))
}

fn mcase_from_index(mut i: u64, alpha: u64, maxp: u32, maxt: u32) -> MCase {
    // enumerate (plen in 1..=maxp, tlen in 0..=maxt, pattern digits, text digits)
    for plen in 1..=maxp {
        for tlen in 0..=maxt {
            let block = alpha.pow(plen) * alpha.pow(tlen);
            if i < block {
                let mut pattern = vec![];
                for _ in 0..plen {
                    pattern.push((i % alpha) as u8);
                    i /= alpha;
                }
                let mut text = vec![];
                for _ in 0..tlen {
                    text.push((i % alpha) as u8);
                    i /= alpha;
                }
                return MCase { pattern, text };
            }
            i -= block;
        }
    }
    unreachable!()
}

fn mcase_total(alpha: u64, maxp: u32, maxt: u32) -> u64 {
    let mut t = 0;
    for plen in 1..=maxp {
        for tlen in 0..=maxt {
            t += alpha.pow(plen) * alpha.pow(tlen);
        }
    }
    t
}

// ---------------------------------------------------------------------------------
// Tags

#[derive(Clone, Debug, Serialize, Deserialize)]
pub struct TagCase {
    threads: usize,
    per_thread: usize,
    round: u64,
}

fn tag_oracle(c: &TagCase) -> Result<bool, String> {
    use texlang::command::{StaticTag, Tag};
    let st: &'static StaticTag = Box::leak(Box::new(StaticTag::new()));
    let barrier = std::sync::Barrier::new(c.threads);
    let mut all: Vec<Tag> = vec![];
    let mut statics: Vec<Tag> = vec![];
    std::thread::scope(|s| {
        let mut hs = vec![];
        for t in 0..c.threads {
            let barrier = &barrier;
            let n = c.per_thread;
            hs.push(s.spawn(move || {
                barrier.wait();
                let mut v = Vec::with_capacity(n);
                let mut sv = None;
                for i in 0..n {
                    if i == (t % n.max(1)) {
                        sv = Some(st.get());
                    }
                    v.push(Tag::new());
                }
                (v, sv.unwrap_or_else(|| st.get()))
            }));
        }
        for h in hs {
            let (v, sv) = h.join().unwrap();
            all.extend(v);
            statics.push(sv);
        }
    });
    let n = all.len();
    let set: std::collections::HashSet<Tag> = all.iter().copied().collect();
    if set.len() != n {
        return Err(format!("{} tags created by {} threads, only {} distinct", n, c.threads, set.len()));
    }
    let s0 = statics[0];
    if statics.iter().any(|s| *s != s0) {
        return Err("StaticTag::get returned different tags in different threads".into());
    }
    if st.get() != s0 {
        return Err("StaticTag::get not stable".into());
    }
    if set.contains(&s0) {
        return Err("static tag collides with a dynamically created tag".into());
    }
    Ok(c.threads >= 2)
}

// ---------------------------------------------------------------------------------

pub fn run(ctx: &Ctx) {
    ctx.rule("scoped map: operation histories over {local,global}x2 keys x2 values, begin, end (exhaustive up to a length, BFS over distinct abstract states, random long histories incl. iter_all rebuilds) compared step by step with a stack-of-snapshots model, non-trivial = a global insert to a key locally changed in an open group followed by a group end; interner: op sequences under colliding hashers, non-trivial = >=3 distinct strings with lookups or re-interning after a serde round trip; matcher: all pattern/text pairs, non-trivial = overlapping hits or a hit of a pattern of length>=2; tags: rounds of T threads x N creations, non-trivial = T>=2");
    ctx.assume("tag uniqueness is stress-tested under the OS scheduler, not under all interleavings");
    let tier = ctx.tier;

    // --- scoped map, exhaustive short histories
    let max_len = tier.pick(6usize, 7usize);
    for (sub, k0, k1) in [("map_hash_exhaustive", 0u8, 1u8), ("map_vec_exhaustive", 0u8, 2u8)] {
        let alphabet = small_alphabet(k0, k1);
        let total: u64 = (0..=max_len as u32).map(|l| 10u64.pow(l)).sum();
        let keys = vec![k0 as usize, k1 as usize, 1usize, 3usize];
        let is_hash = sub.starts_with("map_hash");
        let alpha2 = alphabet.clone();
        run_indexed(
            ctx,
            sub,
            total,
            true,
            |i| history_from_index(i, max_len, &alphabet),
            |ops: &Vec<MOp>, _case| {
                let depth = if ops.len() + 2 <= max_len.min(6) { 2 } else if ops.len() < max_len { 1 } else { 0 };
                let r = if is_hash {
                    run_history::<std::collections::HashMap<usize, u8>>(ops, &keys, depth, &alpha2)
                } else {
                    run_history::<Vec<Option<u8>>>(ops, &keys, depth, &alpha2)
                };
                match r {
                    Ok(()) => Verdict::pass(history_nontrivial(ops)),
                    Err(e) => Verdict::Fail(e),
                }
            },
        );
        ctx.extra(sub, "max_history_length", serde_json::json!(max_len));
    }

    // --- scoped map, long random histories with rebuilds inside
    let n = tier.pick(150_000u64, 1_000_000u64);
    let keys: Vec<usize> = (0..8).collect();
    let alphabet = small_alphabet(0, 1);
    run_generated(ctx, "map_hash_random", n, || map_strategy(8, 200), |ops: &Vec<MOp>, case| {
        case.class_if(ops.iter().any(|o| matches!(o, MOp::Rebuild)), "has_rebuild");
        case.class_if(ops.len() >= 50, "len>=50");
        match run_history::<std::collections::HashMap<usize, u8>>(ops, &keys, 1, &alphabet) {
            Ok(()) => Verdict::pass(history_nontrivial(ops)),
            Err(e) => Verdict::Fail(e),
        }
    });
    run_generated(ctx, "map_vec_random", n, || map_strategy(8, 200), |ops: &Vec<MOp>, case| {
        case.class_if(ops.iter().any(|o| matches!(o, MOp::Rebuild)), "has_rebuild");
        case.class_if(ops.len() >= 50, "len>=50");
        match run_history::<Vec<Option<u8>>>(ops, &keys, 1, &alphabet) {
            Ok(()) => Verdict::pass(history_nontrivial(ops)),
            Err(e) => Verdict::Fail(e),
        }
    });

    // --- BFS over distinct abstract states
    let (depth, cap) = tier.pick((8usize, 150_000usize), (12usize, 3_000_000usize));
    map_bfs::<std::collections::HashMap<usize, u8>>(ctx, "map_hash_bfs", depth, cap, &[0, 1], &small_alphabet(0, 1));
    if tier == Tier::Thorough {
        map_bfs::<Vec<Option<u8>>>(ctx, "map_vec_bfs", depth, cap, &[0, 2], &small_alphabet(0, 2));
    }

    // --- interner
    let n = tier.pick(150_000u64, 1_000_000u64);
    run_generated(ctx, "interner_constant_hash", n, interner_strategy, |ops: &Vec<IOp>, case| {
        case.class_if(ops.iter().any(|o| matches!(o, IOp::Serde)), "has_serde");
        match interner_oracle::<ConstantBuild>(ops) {
            Ok(nt) => Verdict::pass(nt),
            Err(e) => Verdict::Fail(e),
        }
    });
    run_generated(ctx, "interner_len_hash", n / 2, interner_strategy, |ops: &Vec<IOp>, _| match interner_oracle::<LenBuild>(ops) {
        Ok(nt) => Verdict::pass(nt),
        Err(e) => Verdict::Fail(e),
    });
    run_generated(ctx, "interner_default_hash", n / 2, interner_strategy, |ops: &Vec<IOp>, _| {
        match interner_oracle::<std::collections::hash_map::RandomState>(ops) {
            Ok(nt) => Verdict::pass(nt),
            Err(e) => Verdict::Fail(e),
        }
    });

    // --- matcher, exhaustive
    let (maxp, maxt) = tier.pick((5u32, 12u32), (6u32, 14u32));
    let total = mcase_total(2, maxp, maxt);
    run_indexed(ctx, "matcher_ab", total, true, |i| mcase_from_index(i, 2, maxp, maxt), |c: &MCase, _| match matcher_oracle(c) {
        Ok(nt) => Verdict::pass(nt),
        Err(e) => Verdict::Fail(e),
    });
    let (maxp3, maxt3) = tier.pick((3u32, 8u32), (4u32, 10u32));
    let total3 = mcase_total(3, maxp3, maxt3);
    run_indexed(ctx, "matcher_abc", total3, true, |i| mcase_from_index(i, 3, maxp3, maxt3), |c: &MCase, _| match matcher_oracle(c) {
        Ok(nt) => Verdict::pass(nt),
        Err(e) => Verdict::Fail(e),
    });

    // --- tags (single "worker": the oracle spawns its own threads)
    let rounds = tier.pick(1_500u64, 20_000u64);
    if let Mode::Replay { sub, case } = &ctx.mode {
        if sub == "tags" {
            let c: TagCase = serde_json::from_value(case.clone()).unwrap();
            let v = match tag_oracle(&c) {
                Ok(nt) => Verdict::pass(nt),
                Err(e) => Verdict::Fail(e),
            };
            ctx.replay_verdicts.lock().unwrap().push(("tags".into(), v));
        }
    } else {
        run_tags(ctx, rounds);
    }
}

fn run_tags(ctx: &Ctx, rounds: u64) {
    // Sequential over rounds on purpose: each round owns all cores for maximal contention.
    let sizes = [2usize, 3, 4, 8, 16, 32, 64];
    run_indexed_serial(ctx, "tags", rounds, |i| TagCase {
        threads: sizes[(i % sizes.len() as u64) as usize],
        per_thread: [1usize, 2, 50, 400][((i / 7) % 4) as usize],
        round: i,
    });
}

fn run_indexed_serial(ctx: &Ctx, sub: &str, total: u64, make: impl Fn(u64) -> TagCase) {
    if ctx.stop.load(std::sync::atomic::Ordering::SeqCst) {
        return;
    }
    let mut evals = 0u64;
    let mut nt = 0u64;
    let mut sample = vec![];
    for i in 0..total {
        let c = make(i);
        evals += 1;
        match tag_oracle(&c) {
            Ok(n) => {
                if n {
                    nt += 1;
                    if sample.len() < 2 {
                        sample.push(format!("{:?}", c));
                    }
                }
            }
            Err(e) => {
                ctx.fail_external(sub, &c, &e);
                break;
            }
        }
    }
    ctx.add_stats(sub, evals, nt, sample);
}
