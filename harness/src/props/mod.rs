pub mod c01;
pub mod c02;
pub mod c03;
pub mod c04;
pub mod c05;
pub mod c06;
pub mod c07;
pub mod c08;
pub mod c09;
pub mod c10;
pub mod c11;
pub mod c12;
pub mod c13;
pub mod c14;
pub mod c15;
pub mod c16;
pub mod c17;
pub mod c18;
pub mod c19;
pub mod c20;

use crate::engine::PropFn;

pub fn table() -> Vec<(&'static str, PropFn)> {
    vec![
        ("C01", c01::run as PropFn),
        ("C02", c02::run as PropFn),
        ("C03", c03::run as PropFn),
        ("C04", c04::run as PropFn),
        ("C05", c05::run as PropFn),
        ("C06", c06::run as PropFn),
        ("C07", c07::run as PropFn),
        ("C08", c08::run_prop as PropFn),
        ("C09", c09::run as PropFn),
        ("C10", c10::run as PropFn),
        ("C11", c11::run as PropFn),
        ("C12", c12::run as PropFn),
        ("C13", c13::run as PropFn),
        ("C14", c14::run as PropFn),
        ("C15", c15::run as PropFn),
        ("C16", c16::run as PropFn),
        ("C17", c17::run as PropFn),
        ("C18", c18::run as PropFn),
        ("C19", c19::run as PropFn),
        ("C20", c20::run as PropFn),
    ]
}
