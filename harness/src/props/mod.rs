pub mod c20;

use crate::engine::PropFn;

pub fn table() -> Vec<(&'static str, PropFn)> {
    vec![
        ("C20", c20::run as PropFn),
    ]
}
