//! C10 TFM and PL readers are total; PL->TFM output is always a readable TFM.
//!
//! Oracle (all under `panics::catch`, overflow checks on in the harness profile):
//!  * `tfm_to_pl(bytes)` returns; its outcome is compared with an independent transcription of
//!    TFtoPL sections 20-21 (`header_model`): which documented error (or acceptance) the twelve header
//!    words call for. The model also gives the exact input zones of the known panics D19/D20, so that
//!    a listed panic signature only excuses inputs inside its zone.
//!  * `pl_to_tfm(text)` returns, `File::deserialize(output)` is `Ok`, the output passes the header model
//!    with `4*lf == len`, and `tfm_to_pl(output)` returns.
//!  * chain: a property list produced by `tfm_to_pl` is fed back through the PL oracle.
//!  * nesting against the 8 MiB stack of the `pltotf` binary: directed texts of depth up to 10^6 are converted in a
//!    child process (sub-check `small_stack_nesting`); a stack overflow aborts the process and is a violation.
//!  * every returned warning and error is rendered to its text the way the two binaries do
//!    (`pltotf_message(text)`, `tftopl_message()`), under `panics::catch`: "returns ... plus warnings".
//!  * size bound (work, not time): each table of the `pl_to_tfm` output is at most as long as the text can
//!    call for (counted independently from the text); the listed finding KF-C10-1 excuses an output of more
//!    than 32767 words only when the text really holds that many lig/kern steps and kerns and the output is
//!    otherwise a consistent sequence of tables.

use crate::engine::*;
use proptest::prelude::*;
use serde::{Deserialize, Serialize};
use std::borrow::Cow;
use std::collections::BTreeMap;
use std::sync::atomic::{AtomicU64, Ordering};
use std::sync::{Mutex, OnceLock};

const CORPUS_DIR: &str = "/repo/crates/tfm/corpus";

/// Panic signatures whose trigger zone is known exactly (see `header_model`).
const SIG_D19: &str = "panic:crates/tfm/src/deserialize.rs:3 < lf <= b.len()";
const SIG_D20: &str = "panic:crates/tfm/src/deserialize.rs:attempt to add with overflow";

/// pl_to_tfm output longer than 32767 words (only observable once the D20 overflow in valid_lf is repaired).
const FLAG_TOO_LONG: &str = "flag:pl_output_longer_than_32767_words";

/// The TFM reader rejects the 256 extensible recipes that pl_to_tfm writes for 256 VARCHAR characters
/// (TFtoPL 21 rejects `ne>256` only). Excuses exactly: output with ne = 256, reader error TooManyExtensibleCharacters(256).
const FLAG_NE_256: &str = "flag:reader_rejects_256_extensible_recipes";

fn survey() -> bool {
    static S: OnceLock<bool> = OnceLock::new();
    *S.get_or_init(|| std::env::var("VP_C10_SURVEY").is_ok())
}

// ------------------------------------------------------------------------------------
// Corpus

struct Corpus {
    tfm: Vec<(String, Vec<u8>)>,
    pl: Vec<(String, String)>,
    pl_tokens: Vec<Vec<&'static str>>,
}

fn walk(dir: &std::path::Path, out: &mut Vec<std::path::PathBuf>) {
    let Ok(rd) = std::fs::read_dir(dir) else { return };
    let mut es: Vec<std::path::PathBuf> = rd.filter_map(|e| e.ok().map(|e| e.path())).collect();
    es.sort();
    for p in es {
        if p.is_dir() {
            walk(&p, out);
        } else {
            out.push(p);
        }
    }
}

fn corpus() -> &'static Corpus {
    static C: OnceLock<Corpus> = OnceLock::new();
    C.get_or_init(|| {
        let mut files = vec![];
        walk(std::path::Path::new(CORPUS_DIR), &mut files);
        let mut tfm = vec![];
        let mut pl = vec![];
        for p in files {
            let name = p.strip_prefix(CORPUS_DIR).unwrap_or(&p).to_string_lossy().to_string();
            match p.extension().and_then(|e| e.to_str()) {
                Some("tfm") => {
                    if let Ok(b) = std::fs::read(&p) {
                        tfm.push((name, b));
                    }
                }
                Some("plst") | Some("pl") => {
                    if let Ok(b) = std::fs::read(&p) {
                        pl.push((name, String::from_utf8_lossy(&b).to_string()));
                    }
                }
                _ => {}
            }
        }
        // Header-sweep order: small fonts first (stable: size, then name).
        tfm.sort_by(|a, b| (a.1.len(), &a.0).cmp(&(b.1.len(), &b.0)));
        pl.sort_by(|a, b| (a.1.len(), &a.0).cmp(&(b.1.len(), &b.0)));
        let pl_tokens = pl
            .iter()
            .map(|(_, s)| {
                // The corpus lives as long as the process: hand out 'static slices.
                let st: &'static str = Box::leak(s.clone().into_boxed_str());
                tokenize(st)
            })
            .collect();
        Corpus { tfm, pl, pl_tokens }
    })
}

// ------------------------------------------------------------------------------------
// Independent header model (TFtoPL.2014 sections 20 and 21)

#[derive(Debug, Clone, PartialEq, Eq)]
enum Expect {
    Empty,
    OneByte(u8),
    Negative(i16),
    Zero,
    TooBig(i16),
    /// 1 <= lf <= 5: the file claims fewer than the 24 bytes every TFM file has. Must be rejected.
    SmallZone(i16),
    NegSize,
    LhSmall(i16),
    BadRange(i16, i16),
    Incomplete,
    TooManyExt(i16),
    Inconsistent,
    Valid,
}

#[derive(Debug, Clone)]
struct HeaderModel {
    expect: Expect,
    /// A second acceptable outcome where TFtoPL and the crate's documentation differ.
    alt: Option<Expect>,
    /// ec > 255 with an empty range (bc = ec+1): TFtoPL rejects, the crate reads an empty range.
    lenient_range: bool,
    junk: bool,
    d19_zone: bool,
    d20_zone: bool,
    words: [i16; 12],
}

/// D20 zone from the eleven sizes alone: every check that precedes the lf comparison passes and the sum
/// 6+lh+(ec-bc+1)+nw+...+np does not fit 16 bits.
fn d20_from_words(w: &[i32]) -> bool {
    let (lh, bc, ec, nw, nh, nd, ni, ne) = (w[1], w[2], w[3], w[4], w[5], w[6], w[7], w[10]);
    if w[1..].iter().any(|&x| x < 0) || lh < 2 {
        return false;
    }
    let range_ok = (bc <= ec + 1 && ec <= 255) || (ec > 255 && (bc == ec + 1 || (ec == 32767 && bc == 32767)));
    if !range_ok || nw == 0 || nh == 0 || nd == 0 || ni == 0 || ne > 255 {
        return false;
    }
    6 + lh + (ec - bc + 1) + w[4..].iter().sum::<i32>() > i16::MAX as i32
}

fn header_model(b: &[u8]) -> HeaderModel {
    let mut m = HeaderModel { expect: Expect::Valid, alt: None, lenient_range: false, junk: false, d19_zone: false, d20_zone: false, words: [0; 12] };
    let n = b.len();
    if n == 0 {
        m.expect = Expect::Empty;
        return m;
    }
    if n == 1 {
        m.expect = Expect::OneByte(b[0]);
        return m;
    }
    let lf = i16::from_be_bytes([b[0], b[1]]);
    m.words[0] = lf;
    if lf < 0 {
        m.expect = Expect::Negative(lf);
        return m;
    }
    if lf == 0 {
        m.expect = Expect::Zero;
        return m;
    }
    let claimed = lf as usize * 4;
    if n < claimed {
        m.expect = Expect::TooBig(lf);
        return m;
    }
    m.junk = n > claimed;
    if lf <= 5 {
        m.d19_zone = lf >= 4 && n < 24;
        if lf >= 4 && n >= 24 {
            // The crate reads the sub-file sizes from the 24 real bytes: D20 can be reached here too.
            let w: Vec<i32> = (0..12).map(|k| i16::from_be_bytes([b[2 * k], b[2 * k + 1]]) as i32).collect();
            m.d20_zone = d20_from_words(&w);
        }
        m.expect = Expect::SmallZone(lf);
        return m;
    }
    // lf >= 6, so the 24 bytes exist.
    for k in 1..12 {
        m.words[k] = i16::from_be_bytes([b[2 * k], b[2 * k + 1]]);
    }
    let w: Vec<i32> = m.words.iter().map(|&x| x as i32).collect();
    let (lh, bc, ec, nw, nh, nd, ni, nl, nk, ne, np) = (w[1], w[2], w[3], w[4], w[5], w[6], w[7], w[8], w[9], w[10], w[11]);
    if w[1..].iter().any(|&x| x < 0) {
        m.expect = Expect::NegSize;
        return m;
    }
    if lh < 2 {
        m.expect = Expect::LhSmall(lh as i16);
        return m;
    }
    let mut nc = ec - bc + 1;
    if bc > ec + 1 || ec > 255 {
        if ec > 255 && (bc == ec + 1 || (ec == 32767 && bc == 32767)) {
            // TFtoPL: illegal. The crate: empty range. Both are tolerated (no panic, any documented outcome).
            m.lenient_range = true;
            nc = if bc == ec + 1 { 0 } else { 1 };
        } else {
            m.expect = Expect::BadRange(bc as i16, ec as i16);
            return m;
        }
    }
    if nw == 0 || nh == 0 || nd == 0 || ni == 0 {
        m.expect = Expect::Incomplete;
        return m;
    }
    if ne > 256 {
        m.expect = Expect::TooManyExt(ne as i16);
        return m;
    }
    if ne == 256 {
        // TFtoPL accepts 256 recipes ("ne>256"); the crate documents "more than 256" but rejects 256.
        m.alt = Some(Expect::TooManyExt(256));
    }
    let total = 6 + lh + nc + nw + nh + nd + ni + nl + nk + ne + np;
    // All terms are non-negative: 16-bit addition overflows in any order iff the total exceeds i16::MAX.
    m.d20_zone = total > i16::MAX as i32 && ne <= 255;
    m.expect = if total != lf as i32 { Expect::Inconsistent } else { Expect::Valid };
    m
}

fn sizes_equal(s: &tfm::SubFileSizes, w: &[i16; 12]) -> bool {
    [s.lf, s.lh, s.bc, s.ec, s.nw, s.nh, s.nd, s.ni, s.nl, s.nk, s.ne, s.np] == *w
}

/// Does the returned error agree with one expected outcome (kind and payload)?
fn err_matches(e: &tfm::DeserializationError, x: &Expect, m: &HeaderModel, n: usize) -> bool {
    use tfm::DeserializationError as E;
    match (e, x) {
        (E::FileIsEmpty, Expect::Empty) => true,
        (E::FileHasOneByte(a), Expect::OneByte(b)) => a == b,
        (E::InternalFileLengthIsNegative(a), Expect::Negative(b)) => a == b,
        (E::InternalFileLengthIsZero, Expect::Zero) => true,
        (E::InternalFileLengthIsTooBig(a, l), Expect::TooBig(b)) => a == b && *l == n,
        (E::InternalFileLengthIsTooSmall(a, l), Expect::SmallZone(b)) => a == b && *l == n,
        // lf in 1..=5: TFtoPL does not treat this case (it reads sub-file sizes from memory the file did not fill and
        // reports whatever section-21 error they call for), so any section-21 error is a documented outcome.
        (
            E::SubFileSizeIsNegative(_) | E::HeaderLengthIsTooSmall(_) | E::InvalidCharacterRange(_, _) | E::IncompleteSubFiles(_) | E::TooManyExtensibleCharacters(_) | E::InconsistentSubFileSizes(_),
            Expect::SmallZone(_),
        ) => true,
        (E::SubFileSizeIsNegative(s), Expect::NegSize) => sizes_equal(s, &m.words),
        (E::HeaderLengthIsTooSmall(a), Expect::LhSmall(b)) => a == b,
        (E::InvalidCharacterRange(a, b), Expect::BadRange(c, d)) => a == c && b == d,
        (E::IncompleteSubFiles(s), Expect::Incomplete) => sizes_equal(s, &m.words),
        (E::TooManyExtensibleCharacters(a), Expect::TooManyExt(b)) => a == b,
        (E::InconsistentSubFileSizes(s), Expect::Inconsistent) => sizes_equal(s, &m.words),
        _ => false,
    }
}

fn err_class(e: &tfm::DeserializationError) -> &'static str {
    use tfm::DeserializationError as E;
    match e {
        E::FileIsEmpty => "err:FileIsEmpty",
        E::FileHasOneByte(_) => "err:FileHasOneByte",
        E::InternalFileLengthIsZero => "err:InternalFileLengthIsZero",
        E::InternalFileLengthIsNegative(_) => "err:InternalFileLengthIsNegative",
        E::InternalFileLengthIsTooBig(_, _) => "err:InternalFileLengthIsTooBig",
        E::InternalFileLengthIsTooSmall(_, _) => "err:InternalFileLengthIsTooSmall",
        E::SubFileSizeIsNegative(_) => "err:SubFileSizeIsNegative",
        E::HeaderLengthIsTooSmall(_) => "err:HeaderLengthIsTooSmall",
        E::InvalidCharacterRange(_, _) => "err:InvalidCharacterRange",
        E::IncompleteSubFiles(_) => "err:IncompleteSubFiles",
        E::TooManyExtensibleCharacters(_) => "err:TooManyExtensibleCharacters",
        E::InconsistentSubFileSizes(_) => "err:InconsistentSubFileSizes",
    }
}

const ERR_CLASSES: [&str; 12] = [
    "err:FileIsEmpty",
    "err:FileHasOneByte",
    "err:InternalFileLengthIsZero",
    "err:InternalFileLengthIsNegative",
    "err:InternalFileLengthIsTooBig",
    "err:InternalFileLengthIsTooSmall",
    "err:SubFileSizeIsNegative",
    "err:HeaderLengthIsTooSmall",
    "err:InvalidCharacterRange",
    "err:IncompleteSubFiles",
    "err:TooManyExtensibleCharacters",
    "err:InconsistentSubFileSizes",
];

fn vw_class(w: &tfm::ValidationWarning) -> &'static str {
    use tfm::ligkern::lang::ValidationWarning as L;
    use tfm::NextLargerProgramWarning as N;
    use tfm::ValidationWarning as V;
    match w {
        V::DesignSizeIsTooSmall => "vw:DesignSizeIsTooSmall",
        V::DesignSizeIsNegative => "vw:DesignSizeIsNegative",
        V::StringIsTooLong(_) => "vw:StringIsTooLong",
        V::StringContainsParenthesis => "vw:StringContainsParenthesis",
        V::StringContainsNonstandardAsciiCharacter(_) => "vw:StringContainsNonstandardAscii",
        V::ParameterIsTooBig(_) => "vw:ParameterIsTooBig",
        V::UnusualNumberOfParameters { .. } => "vw:UnusualNumberOfParameters",
        V::InvalidCharacterInExtensibleRecipe(_) => "vw:InvalidCharacterInExtensibleRecipe",
        V::InvalidWidthIndex(_, _) => "vw:InvalidWidthIndex",
        V::InvalidHeightIndex(_, _) => "vw:InvalidHeightIndex",
        V::InvalidDepthIndex(_, _) => "vw:InvalidDepthIndex",
        V::InvalidItalicCorrectionIndex(_, _) => "vw:InvalidItalicCorrectionIndex",
        V::InvalidExtensibleRecipeIndex(_, _) => "vw:InvalidExtensibleRecipeIndex",
        V::FirstWidthIsNonZero => "vw:FirstWidthIsNonZero",
        V::FirstDepthIsNonZero => "vw:FirstDepthIsNonZero",
        V::FirstHeightIsNonZero => "vw:FirstHeightIsNonZero",
        V::FirstItalicCorrectionIsNonZero => "vw:FirstItalicCorrectionIsNonZero",
        V::WidthIsTooBig(_) => "vw:WidthIsTooBig",
        V::HeightIsTooBig(_) => "vw:HeightIsTooBig",
        V::DepthIsTooBig(_) => "vw:DepthIsTooBig",
        V::ItalicCorrectionIsTooBig(_) => "vw:ItalicCorrectionIsTooBig",
        V::KernIsTooBig(_) => "vw:KernIsTooBig",
        V::NextLargerWarning(N::NonExistentCharacter { .. }) => "vw:nl:NonExistentCharacter",
        V::NextLargerWarning(N::InfiniteLoop { .. }) => "vw:nl:InfiniteLoop",
        V::LigKernWarning(l) => match l {
            L::SkipTooLarge(_) => "vw:lk:SkipTooLarge",
            L::LigatureStepForNonExistentCharacter { .. } => "vw:lk:LigatureStepForNonExistentCharacter",
            L::KernStepForNonExistentCharacter { .. } => "vw:lk:KernStepForNonExistentCharacter",
            L::LigatureStepProducesNonExistentCharacter { .. } => "vw:lk:LigatureStepProducesNonExistentCharacter",
            L::KernIndexTooBig(_) => "vw:lk:KernIndexTooBig",
            L::InvalidLigTag(_) => "vw:lk:InvalidLigTag",
            L::EntrypointRedirectTooBig(_) => "vw:lk:EntrypointRedirectTooBig",
            L::InvalidEntrypoint(_) => "vw:lk:InvalidEntrypoint",
            L::InvalidBoundaryCharEntrypoint => "vw:lk:InvalidBoundaryCharEntrypoint",
            L::InfiniteLoop(_) => "vw:lk:InfiniteLoop",
        },
    }
}

fn pw_class(k: &tfm::pl::ParseWarningKind) -> &'static str {
    use tfm::pl::ParseWarningKind as K;
    use tfm::NextLargerProgramWarning as N;
    match k {
        K::UnbalancedOpeningParenthesis { .. } => "pw:UnbalancedOpeningParenthesis",
        K::UnexpectedClosingParenthesis => "pw:UnexpectedClosingParenthesis",
        K::JunkInsidePropertyList { .. } => "pw:JunkInsidePropertyList",
        K::JunkAfterPropertyValue { .. } => "pw:JunkAfterPropertyValue",
        K::ParameterNumberIsTooBig => "pw:ParameterNumberIsTooBig",
        K::ParameterNumberIsZero => "pw:ParameterNumberIsZero",
        K::SmallIntegerIsTooBig { .. } => "pw:SmallIntegerIsTooBig",
        K::IntegerIsTooBig { .. } => "pw:IntegerIsTooBig",
        K::DecimalNumberIsTooBig => "pw:DecimalNumberIsTooBig",
        K::InvalidPropertyName { .. } => "pw:InvalidPropertyName",
        K::InvalidPrefixForInteger { .. } => "pw:InvalidPrefixForInteger",
        K::InvalidPrefixForSmallInteger => "pw:InvalidPrefixForSmallInteger",
        K::InvalidPrefixForDecimalNumber => "pw:InvalidPrefixForDecimalNumber",
        K::InvalidOctalDigit { .. } => "pw:InvalidOctalDigit",
        K::EmptyCharacterValue => "pw:EmptyCharacterValue",
        K::InvalidFaceCode => "pw:InvalidFaceCode",
        K::InvalidBoolean => "pw:InvalidBoolean",
        K::HeaderIndexIsTooSmall => "pw:HeaderIndexIsTooSmall",
        K::LigTableIsTooBig => "pw:LigTableIsTooBig",
        K::CycleInLigKernProgram(_) => "pw:CycleInLigKernProgram",
        K::CycleInNextLargerProgram(N::NonExistentCharacter { .. }) => "pw:NextLargerNonExistentCharacter",
        K::CycleInNextLargerProgram(N::InfiniteLoop { .. }) => "pw:NextLargerInfiniteLoop",
        K::NotReallySevenBitSafe => "pw:NotReallySevenBitSafe",
        K::DesignSizeIsTooSmall => "pw:DesignSizeIsTooSmall",
        K::NonVisibleAsciiCharacter { .. } => "pw:NonVisibleAsciiCharacter",
    }
}

// ------------------------------------------------------------------------------------
// The oracles

/// Class sink: per-case classes (deduplicated) or nothing (hot loop).
struct Sink<'a> {
    case: Option<&'a mut Case>,
}

impl<'a> Sink<'a> {
    fn add(&mut self, c: &'static str) {
        if let Some(case) = self.case.as_deref_mut() {
            if !case.classes.contains(&c) {
                case.classes.push(c);
            }
        }
    }
}

/// A panic is excused only when its signature is listed and, for D19/D20, the input lies in the exact
/// zone the header model derives for that defect.
fn panic_verdict(ctx: &Ctx, info: &panics::PanicInfo, stage: &str, model: Option<&HeaderModel>) -> Verdict {
    let sig = info.signature();
    if survey() {
        // diagnostic mode (VP_C10_SURVEY): every panic site is tallied with its line, nothing fails
        return Verdict::Known(format!("{sig} @{} [{stage}]", info.line));
    }
    if ctx.known(&sig) {
        let in_zone = match (sig.as_str(), model) {
            (SIG_D19, Some(m)) => m.d19_zone,
            (SIG_D20, Some(m)) => m.d20_zone,
            _ => true,
        };
        if in_zone {
            return Verdict::Known(sig);
        }
        return Verdict::Fail(format!("{stage}: panic at {} with a listed signature but outside that defect's input zone: {}", info.site(), info.message));
    }
    Verdict::Fail(format!("{stage}: panic at {}: {} [sig {}]", info.site(), info.message, sig))
}

/// The display format the `tftopl` binary would pick (`tfm-bin/src/shared.rs`): for `--charcode-format default`
/// it looks at the coding scheme of the converted file.
fn display_format(sel: u64, pl: &tfm::pl::File) -> tfm::pl::CharDisplayFormat {
    match sel % 3 {
        0 => {
            let scheme = pl.header.character_coding_scheme.as_deref().unwrap_or("").to_uppercase();
            if scheme.starts_with("TEX MATH SY") || scheme.starts_with("TEX MATH EX") {
                tfm::pl::CharDisplayFormat::Octal
            } else {
                tfm::pl::CharDisplayFormat::Default
            }
        }
        1 => tfm::pl::CharDisplayFormat::Ascii,
        _ => tfm::pl::CharDisplayFormat::Octal,
    }
}

struct TfmOutcome {
    nontrivial: bool,
    pl: Option<String>,
    err_idx: Option<usize>,
}

/// `tfm_to_pl` on arbitrary bytes: returns, and the outcome is the one the header words call for.
fn check_tfm(ctx: &Ctx, bytes: &[u8], fmt_sel: u64, render: bool, sink: &mut Sink) -> Result<TfmOutcome, Verdict> {
    let model = header_model(bytes);
    let out = match panics::catch(|| tfm::algorithms::tfm_to_pl(bytes, 3, &|pl| display_format(fmt_sel, pl))) {
        Err(info) => return Err(panic_verdict(ctx, &info, "tfm_to_pl", Some(&model))),
        Ok(Err(e)) => return Err(Verdict::Fail(format!("tfm_to_pl returned the undocumented error {e:?}"))),
        Ok(Ok(o)) => o,
    };
    if render {
        // What `tftopl` does with the result: every message and the error are turned into text.
        let r = panics::catch(|| {
            let mut n = 0usize;
            for m in &out.error_messages {
                n += m.tftopl_message().len();
            }
            if let Err(e) = &out.pl_data {
                n += e.tftopl_message().len() + e.to_string().len();
            }
            n
        });
        if let Err(info) = r {
            return Err(panic_verdict(ctx, &info, "tftopl_message (rendering a returned warning/error the way tftopl does)", Some(&model)));
        }
        sink.add("tfm:messages_rendered");
    }
    let mut junk_warnings = 0usize;
    let mut other = 0usize;
    for m in &out.error_messages {
        match m {
            tfm::algorithms::TfmToPlErrorMessage::DeserializationWarning(tfm::DeserializationWarning::InternalFileLengthIsSmall(lf, l)) => {
                junk_warnings += 1;
                sink.add("dw:junk_at_end");
                if *lf != model.words[0] || *l != bytes.len() {
                    return Err(Verdict::Fail(format!("junk warning carries ({lf},{l}), file has lf={} len={}", model.words[0], bytes.len())));
                }
            }
            tfm::algorithms::TfmToPlErrorMessage::ValidationWarning(w) => {
                other += 1;
                sink.add(vw_class(w));
            }
        }
    }
    match &out.pl_data {
        Err(e) => {
            sink.add(err_class(e));
            if other != 0 {
                return Err(Verdict::Fail(format!("rejected file ({e:?}) also carries validation warnings")));
            }
            let ok = if model.lenient_range {
                true
            } else {
                err_matches(e, &model.expect, &model, bytes.len()) || model.alt.as_ref().is_some_and(|a| err_matches(e, a, &model, bytes.len()))
            };
            if !ok {
                return Err(Verdict::Fail(format!("wrong outcome: returned {e:?}, the header words call for {:?} (TFtoPL 20-21)", model.expect)));
            }
            let idx = ERR_CLASSES.iter().position(|c| *c == err_class(e));
            Ok(TfmOutcome { nontrivial: true, pl: None, err_idx: idx })
        }
        Ok(pl) => {
            if !(model.expect == Expect::Valid) {
                return Err(Verdict::Fail(format!("wrong outcome: file accepted, the header words call for {:?} (TFtoPL 20-21)", model.expect)));
            }
            if junk_warnings != model.junk as usize {
                return Err(Verdict::Fail(format!("{} junk-at-end warnings for a file with len={} and lf={}", junk_warnings, bytes.len(), model.words[0])));
            }
            if pl.is_empty() {
                return Err(Verdict::Fail("accepted file gave an empty property list".into()));
            }
            sink.add(if junk_warnings + other == 0 { "tfm:accepted_clean" } else { "tfm:accepted_with_warnings" });
            Ok(TfmOutcome { nontrivial: junk_warnings + other > 0, pl: Some(out.pl_data.unwrap()), err_idx: None })
        }
    }
}

/// Upper bounds on the tables of the TFM file a property list can call for, counted from the text alone
/// (PLtoTF: one lig/kern word per LIG/KRN element plus at most 257 entry words; one kern word per distinct KRN
/// amount; one width per CHARWD element plus the zero width; indices of the TFM format bound the rest).
/// Property names are matched the way PLtoTF reads them (ASCII letters, either case); occurrences inside comments
/// or data only make the bound larger.
#[derive(Debug, Clone, Copy)]
struct SizeBound {
    lh: i32,
    nw: i32,
    nh: i32,
    nd: i32,
    ni: i32,
    nl: i32,
    nk: i32,
    ne: i32,
    np: i32,
}

/// PLtoTF's `max_lig_steps` in today's distributions and the crate's documented `MAX_LIG_KERN_INSTRUCTIONS`.
const MAX_STEPS: i32 = 32510;

/// Occurrences of each of `NEEDLES` in the text, ASCII letters compared without case (one pass).
const NEEDLES: [&[u8]; 9] = [b"KRN", b"LIG", b"HEADER", b"CHARWD", b"CHARHT", b"CHARDP", b"CHARIC", b"VARCHAR", b"BOUNDARYCHAR"];

fn count_needles(hay: &[u8]) -> [i32; 9] {
    let mut n = [0i32; 9];
    for i in 0..hay.len() {
        // upper-case form of an ASCII letter; no other byte maps into b'A'..=b'Z'
        let u = hay[i] & 0xDF;
        if !matches!(u, b'K' | b'L' | b'H' | b'C' | b'V' | b'B') {
            continue;
        }
        for (k, needle) in NEEDLES.iter().enumerate() {
            if needle[0] == u && hay.len() - i >= needle.len() && hay[i + 1..i + needle.len()].iter().zip(&needle[1..]).all(|(a, b)| a.to_ascii_uppercase() == *b) {
                n[k] += 1;
            }
        }
    }
    n
}

fn size_bound(text: &str) -> SizeBound {
    let [krn, lig, header, charwd, charht, chardp, charic, varchar, boundarychar] = count_needles(text.as_bytes());
    SizeBound {
        lh: if header == 0 { 18 } else { 256 },
        // the width table holds the zero width twice when a character has no CHARWD (PLtoTF 75: zero widths are sorted in)
        nw: (2 + charwd).min(256),
        nh: (1 + charht).min(16),
        nd: (1 + chardp).min(16),
        ni: (1 + charic).min(64),
        nl: if krn + lig == 0 && boundarychar == 0 { 0 } else { (krn + lig).min(MAX_STEPS) + 257 },
        nk: krn.min(MAX_STEPS),
        ne: varchar.min(256),
        np: 254,
    }
}

impl SizeBound {
    fn total(&self) -> i32 {
        6 + self.lh + 256 + self.nw + self.nh + self.nd + self.ni + self.nl + self.nk + self.ne + self.np
    }
    /// First table of the output (header words `w`) that is longer than the text can call for.
    fn exceeded(&self, w: &[i32]) -> Option<String> {
        let rows = [("lh", w[1], self.lh), ("nw", w[4], self.nw), ("nh", w[5], self.nh), ("nd", w[6], self.nd), ("ni", w[7], self.ni), ("nl", w[8], self.nl), ("nk", w[9], self.nk), ("ne", w[10], self.ne), ("np", w[11], self.np)];
        rows.iter().find(|(_, got, ub)| got > ub).map(|(n, got, ub)| format!("{n}={got} but the text can call for at most {ub}"))
    }
}

/// Which warnings to render. A message with a context line walks the text up to its offset, so rendering every
/// warning of a long text is quadratic work. All are rendered while the summed offsets stay below `work` (4*10^5 quick, 3*10^6 thorough); otherwise
/// the first of every kind, the first and last four, and evenly spaced others as far as the work budget reaches.
/// Deterministic (a function of the returned warnings).
fn render_selection(warnings: &[tfm::pl::ParseWarning], kinds: &[&'static str], text_len: usize, work: usize) -> Vec<usize> {
    let n = warnings.len();
    let cost = |i: usize| warnings[i].knuth_pltotf_offset.map(|o| o.min(text_len)).unwrap_or(0) + 64;
    if (0..n).map(cost).sum::<usize>() <= work {
        return (0..n).collect();
    }
    let mut picked = vec![false; n];
    let mut seen: Vec<&'static str> = vec![];
    let mut spent = 0usize;
    for (i, k) in kinds.iter().enumerate() {
        if !seen.contains(k) || i < 4 || i + 4 >= n {
            if !seen.contains(k) {
                seen.push(k);
            }
            picked[i] = true;
            spent += cost(i);
        }
    }
    let stride = n.div_ceil(64).max(1);
    let mut i = stride / 2;
    while i < n && spent < work {
        if !picked[i] {
            picked[i] = true;
            spent += cost(i);
        }
        i += stride;
    }
    (0..n).filter(|i| picked[*i]).collect()
}

/// `pl_to_tfm` on arbitrary text: returns, and the output is a TFM the reader accepts.
/// Returns the number of parse warnings.
fn check_pl(ctx: &Ctx, text: &str, deep: bool, sink: &mut Sink) -> Result<usize, Verdict> {
    let (bytes, warnings) = match panics::catch(|| tfm::algorithms::pl_to_tfm(text)) {
        Err(info) => return Err(panic_verdict(ctx, &info, "pl_to_tfm", None)),
        Ok(r) => r,
    };
    let kinds: Vec<&'static str> = warnings.iter().map(|w| pw_class(&w.kind)).collect();
    for k in &kinds {
        sink.add(k);
    }
    // What `pltotf` does with the result: every warning is turned into text (with its context line).
    let sel = render_selection(&warnings, &kinds, text.len(), ctx.tier.pick(400_000, 3_000_000));
    sink.add(if sel.len() == warnings.len() { "pl:all_warnings_rendered" } else { "pl:warnings_rendered_sampled" });
    // A listed rendering panic does not end the case: the output is still checked, and the case counts as a hit of
    // the finding only if nothing else is wrong with it.
    let mut known_rendering_panic: Option<Verdict> = None;
    for i in sel {
        let w = &warnings[i];
        if let Err(info) = panics::catch(|| w.pltotf_message(text).len()) {
            match panic_verdict(ctx, &info, "pltotf_message", None) {
                Verdict::Fail(m) => return Err(Verdict::Fail(format!("{m}; rendering the returned warning {:?} (span {:?}, offset {:?}) the way pltotf does", w.kind, w.span, w.knuth_pltotf_offset))),
                v => {
                    known_rendering_panic.get_or_insert(v);
                }
            }
        }
    }
    let bound = size_bound(text);
    let raw_words: Vec<i32> = (0..12).map(|k| bytes.get(2 * k..2 * k + 2).map(|p| i16::from_be_bytes([p[0], p[1]]) as i32).unwrap_or(-1)).collect();
    if bytes.len() / 4 > i16::MAX as usize {
        // No 16-bit lf can describe this output (PLtoTF refuses such property lists: "too many different kerns").
        // The listed finding covers exactly this: the text calls for more words than lf can express, and the output is
        // otherwise a consistent sequence of tables, none longer than the text calls for.
        if bound.total() <= i16::MAX as i32 {
            return Err(Verdict::Fail(format!("pl_to_tfm wrote {} words for a text that cannot call for more than {} ({bound:?}): size bound", bytes.len() / 4, bound.total())));
        }
        let w = &raw_words;
        let sum = 6 + w[1] + (w[3] - w[2] + 1) + w[4..].iter().sum::<i32>();
        if bytes.len() % 4 != 0 || w[1..].iter().any(|x| *x < 0) || sum as usize != bytes.len() / 4 {
            return Err(Verdict::Fail(format!("pl_to_tfm wrote {} bytes whose table sizes {:?} do not add up to the length (beyond the 16-bit lf of the listed finding)", bytes.len(), &w[1..])));
        }
        if let Some(m) = bound.exceeded(w) {
            return Err(Verdict::Fail(format!("pl_to_tfm output has {m}: size bound")));
        }
        if w[8] == i16::MAX as i32 {
            sink.add("pl:too_long_output_with_nl=32767");
        }
        if w[8] >= i16::MAX as i32 - 2 {
            sink.add("pl:too_long_output_with_nl>=32765");
        }
        if ctx.known(FLAG_TOO_LONG) || survey() {
            return Err(Verdict::Known(FLAG_TOO_LONG.into()));
        }
        return Err(Verdict::Fail(format!("pl_to_tfm wrote {} words; no TFM file can be longer than 32767 words, so the output cannot be read back", bytes.len() / 4)));
    }
    // Independent acceptance: header words of the output.
    let model = header_model(&bytes);
    if model.expect != Expect::Valid || model.lenient_range {
        return Err(Verdict::Fail(format!("pl_to_tfm output is not a TFM: header words {:?} call for {:?}", model.words, model.expect)));
    }
    if model.junk || bytes.len() % 4 != 0 {
        return Err(Verdict::Fail(format!("pl_to_tfm output has {} bytes but lf={}", bytes.len(), model.words[0])));
    }
    // Work bound: no table is longer than the text can call for.
    if let Some(m) = bound.exceeded(&raw_words) {
        return Err(Verdict::Fail(format!("pl_to_tfm output has {m}: size bound")));
    }
    // The composition statement: the crate's own reader accepts it.
    match panics::catch(|| tfm::File::deserialize(&bytes)) {
        Err(info) => return Err(panic_verdict(ctx, &info, "File::deserialize(pl_to_tfm(..))", Some(&model))),
        Ok((Err(e), _)) => {
            if model.words[10] == 256 && matches!(e, tfm::DeserializationError::TooManyExtensibleCharacters(256)) && ctx.known(FLAG_NE_256) {
                return Err(Verdict::Known(FLAG_NE_256.into()));
            }
            return Err(Verdict::Fail(format!("pl_to_tfm output rejected by the TFM reader: {e:?}")));
        }
        Ok((Ok(_), ws)) => {
            if !ws.is_empty() {
                sink.add("pl:output_reread_with_warning");
            }
        }
    }
    sink.add("pl:output_reread_ok");
    let w = &model.words;
    if w[8] > 255 {
        sink.add("pl:output_nl>255");
    }
    if w[8] >= 32000 {
        sink.add("pl:output_nl>=32000");
    }
    if w[10] == 256 {
        sink.add("pl:output_ne=256");
    }
    if w[10] >= 250 {
        sink.add("pl:output_ne>=250");
    }
    if w[4] == 256 {
        sink.add("pl:output_nw=256_(width_compression_at_its_limit)");
    }
    if w[2] == 0 && w[3] == 255 {
        sink.add("pl:output_bc=0_ec=255");
    }
    if w[0] >= 32000 {
        sink.add("pl:output_lf>=32000");
    }
    if deep {
        // The output is itself a byte string: tftopl on it must return as well.
        match panics::catch(|| tfm::algorithms::tfm_to_pl(&bytes, 3, &|pl| display_format(0, pl))) {
            Err(info) => return Err(panic_verdict(ctx, &info, "tfm_to_pl(pl_to_tfm(..))", Some(&model))),
            Ok(Err(e)) => return Err(Verdict::Fail(format!("tfm_to_pl(pl_to_tfm(..)) returned {e:?}"))),
            Ok(Ok(o)) => {
                if let Err(e) = o.pl_data {
                    return Err(Verdict::Fail(format!("tfm_to_pl rejects pl_to_tfm output: {e:?}")));
                }
                if !o.error_messages.is_empty() {
                    sink.add("pl:output_has_tftopl_warnings");
                    if let Err(info) = panics::catch(|| o.error_messages.iter().map(|m| m.tftopl_message().len()).sum::<usize>()) {
                        return Err(panic_verdict(ctx, &info, "tftopl_message on tfm_to_pl(pl_to_tfm(..))", Some(&model)));
                    }
                }
            }
        }
    }
    if let Some(v) = known_rendering_panic {
        return Err(v);
    }
    Ok(warnings.len())
}

/// Warning kinds whose TFtoPL message states the repair ("I reset it to zero", "I have set it to zero",
/// "I made it stop", "so I removed it", "has been broken", "changed to ..."): after `validate_and_fix` they
/// must not be reported by a second pass (the mechanism "clamps every out-of-range index/value, breaks cycles").
fn repaired_kind(w: &tfm::ValidationWarning) -> bool {
    use tfm::ligkern::lang::ValidationWarning as L;
    use tfm::ValidationWarning as V;
    match w {
        V::DesignSizeIsTooSmall
        | V::DesignSizeIsNegative
        | V::StringIsTooLong(_)
        | V::StringContainsParenthesis
        | V::StringContainsNonstandardAsciiCharacter(_)
        | V::ParameterIsTooBig(_)
        | V::InvalidWidthIndex(_, _)
        | V::InvalidHeightIndex(_, _)
        | V::InvalidDepthIndex(_, _)
        | V::InvalidItalicCorrectionIndex(_, _)
        | V::InvalidExtensibleRecipeIndex(_, _)
        | V::WidthIsTooBig(_)
        | V::HeightIsTooBig(_)
        | V::DepthIsTooBig(_)
        | V::ItalicCorrectionIsTooBig(_)
        | V::KernIsTooBig(_)
        | V::NextLargerWarning(_) => true,
        V::LigKernWarning(l) => matches!(l, L::SkipTooLarge(_) | L::InvalidEntrypoint(_) | L::InvalidBoundaryCharEntrypoint | L::InvalidLigTag(_)),
        _ => false,
    }
}

/// Second validation pass over an accepted file: every repaired kind is gone.
fn fixpoint_check(ctx: &Ctx, bytes: &[u8], sink: &mut Sink) -> Result<(), Verdict> {
    let r = panics::catch(|| {
        let (Ok(mut f), _) = tfm::File::deserialize(bytes) else { return None };
        let w1 = f.validate_and_fix();
        let w2 = f.validate_and_fix();
        Some((w1.iter().any(repaired_kind), w2.into_iter().find(repaired_kind)))
    });
    match r {
        Err(info) => Err(panic_verdict(ctx, &info, "validate_and_fix (second pass)", None)),
        Ok(None) => Ok(()),
        Ok(Some((had, again))) => {
            if let Some(w) = again {
                return Err(Verdict::Fail(format!("validate_and_fix did not repair what it reported: a second pass still reports {w:?}")));
            }
            if had {
                sink.add("fix:repaired_warnings_gone_on_second_pass");
            }
            Ok(())
        }
    }
}

/// Bytes oracle plus the chain through the produced property list.
fn tfm_case(ctx: &Ctx, bytes: &[u8], fmt_sel: u64, chain: bool, case: &mut Case) -> Verdict {
    let mut sink = Sink { case: Some(case) };
    let out = match check_tfm(ctx, bytes, fmt_sel, true, &mut sink) {
        Ok(o) => o,
        Err(v) => return v,
    };
    if out.pl.is_some() {
        if let Err(v) = fixpoint_check(ctx, bytes, &mut sink) {
            return v;
        }
    }
    if chain {
        if let Some(pl) = &out.pl {
            match check_pl(ctx, pl, false, &mut sink) {
                Ok(_) => sink.add("chain:pl_of_tfm_converts_back"),
                Err(Verdict::Fail(m)) => return Verdict::Fail(format!("chain (property list written by tfm_to_pl): {m}")),
                Err(v) => return v,
            }
        }
    }
    Verdict::pass(out.nontrivial)
}

fn pl_case(ctx: &Ctx, text: &str, case: &mut Case) -> Verdict {
    let mut sink = Sink { case: Some(case) };
    match check_pl(ctx, text, true, &mut sink) {
        Ok(n) => Verdict::pass(n > 0),
        Err(v) => v,
    }
}

fn hex(b: &[u8]) -> String {
    let mut s = String::with_capacity(b.len() * 2);
    for x in b {
        s.push_str(&format!("{:02x}", x));
    }
    s
}

fn unhex(s: &str) -> Vec<u8> {
    let c: Vec<u8> = s.bytes().filter(|c| c.is_ascii_hexdigit()).collect();
    c.chunks(2).filter(|p| p.len() == 2).map(|p| u8::from_str_radix(std::str::from_utf8(p).unwrap(), 16).unwrap()).collect()
}

fn words(w: [i16; 12]) -> Vec<u8> {
    w.iter().flat_map(|x| x.to_be_bytes()).collect()
}

fn snippet(s: &str, n: usize) -> String {
    let mut t: String = s.chars().take(n).collect();
    if s.chars().count() > n {
        t.push('…');
    }
    t
}

// ------------------------------------------------------------------------------------
// Calibration of the header model on the repository's own unit-test goldens
// (crates/tfm/src/deserialize.rs, `deserialize_tests!`).

fn extend(b: &[u8], n: usize) -> Vec<u8> {
    let mut v = b.to_vec();
    v.resize(n, 0);
    v
}

fn calibrate(ctx: &Ctx) {
    let goldens: Vec<(Vec<u8>, Expect)> = vec![
        (vec![], Expect::Empty),
        (vec![2], Expect::OneByte(2)),
        (vec![255], Expect::OneByte(255)),
        (vec![255, 0], Expect::Negative(-256)),
        (vec![0, 0, 1, 1], Expect::Zero),
        (vec![0, 2, 1, 1], Expect::TooBig(2)),
        (extend(&[0, 2, 255, 0], 24), Expect::SmallZone(2)),
        (extend(&[0, 3, 0, 0], 12), Expect::SmallZone(3)),
        (extend(&[0, 6, 255, 0], 24), Expect::NegSize),
        (extend(&[0, 6, 0, 0], 24), Expect::LhSmall(0)),
        (extend(&[0, 6, 0, 1], 24), Expect::LhSmall(1)),
        (extend(&[0, 6, 0, 2, 0, 2, 0, 0], 24), Expect::BadRange(2, 0)),
        (extend(&[0, 6, 0, 2, 0, 2, 1, 0], 24), Expect::BadRange(2, 256)),
        (extend(&[0, 6, 0, 2, 0, 1, 0, 2, 0, 3, 0, 4, 0, 5, 0, 0], 24), Expect::Incomplete),
        (extend(&[0, 6, 0, 2, 0, 1, 0, 2, 0, 3, 0, 4, 0, 5, 0, 6, 0, 0, 0, 0, 1, 1, 0, 0], 24), Expect::TooManyExt(257)),
        (extend(&[0, 6, 0, 2, 0, 3, 0, 4, 0, 5, 0, 6, 0, 7, 0, 8, 0, 9, 0, 10, 0, 11, 0, 12], 24), Expect::Inconsistent),
        (extend(&[0, 12, 0, 2, 0, 1, 0, 0, 0, 1, 0, 1, 0, 1, 0, 1], 40 * 4), Expect::Valid),
    ];
    for (b, want) in goldens {
        let got = header_model(&b);
        if got.expect != want {
            ctx.fail_external("model_calibration", &hex(&b), &format!("header model gives {:?}, the repository's golden expects {:?}", got.expect, want));
        }
    }
    let m = header_model(&extend(&[0, 12, 0, 2, 0, 1, 0, 0, 0, 1, 0, 1, 0, 1, 0, 1], 160));
    if !m.junk {
        ctx.fail_external("model_calibration", &"file_longer_than_expected", "header model misses the junk-at-end warning of the golden");
    }
}

// ------------------------------------------------------------------------------------
// Sub-check 0: directed inputs (witnesses of the known panics, hand-made edge cases)

#[derive(Debug, Clone, Serialize, Deserialize)]
pub enum Raw {
    /// TFM bytes in hex.
    Tfm(String),
    /// Property list text.
    Pl(String),
    /// Property list text `pre + rep*n + post`.
    PlRep { pre: String, rep: String, n: u32, post: String },
    /// A lig table of `n` KRN steps with pairwise different kern amounts.
    PlManyKerns { n: u32 },
    /// A lig table of `filler` KRN steps followed by `labels` blocks `(LABEL D c)(KRN D c R 1.0)`, c = 0,1,..;
    /// optionally a BOUNDARYCHAR.
    PlLateLabels {
        filler: u32,
        labels: u32,
        boundary: bool,
        /// a trailing `(LABEL BOUNDARYCHAR)(KRN D 0 R 2.0)`
        #[serde(default)]
        boundary_label: bool,
    },
    /// `n` characters D 0, D 1, .. each with a VARCHAR (one extensible recipe per character; 256 is the format's maximum).
    PlManyVarchars { n: u32, pieces: bool },
}

fn raw_oracle(ctx: &Ctx, r: &Raw, case: &mut Case) -> Verdict {
    match r {
        Raw::Tfm(h) => {
            let b = unhex(h);
            case.note = Some(format!("tfm[{}] {}", b.len(), snippet(h, 120)));
            tfm_case(ctx, &b, 0, true, case)
        }
        Raw::Pl(s) => {
            case.note = Some(snippet(s, 300));
            pl_case(ctx, s, case)
        }
        Raw::PlRep { pre, rep, n, post } => {
            let mut s = String::with_capacity(pre.len() + rep.len() * *n as usize + post.len());
            s.push_str(pre);
            for _ in 0..*n {
                s.push_str(rep);
            }
            s.push_str(post);
            case.note = Some(format!("{pre}{rep}*{n}{post}"));
            pl_case(ctx, &s, case)
        }
        Raw::PlManyKerns { n } => {
            let mut s = String::from("(CHARACTER C A (CHARWD R 1.0))\n(LIGTABLE (LABEL C A)\n");
            for k in 0..*n {
                s.push_str(&format!("(KRN D {} R {}.{:05})\n", k % 256, k / 100000, k % 100000));
            }
            s.push(')');
            case.note = Some(format!("lig table with {n} KRN steps, all amounts different"));
            pl_case(ctx, &s, case)
        }
        Raw::PlLateLabels { filler, labels, boundary, boundary_label } => {
            let mut s = String::new();
            if *boundary {
                s.push_str("(BOUNDARYCHAR D 0)\n");
            }
            s.push_str("(LIGTABLE\n");
            for k in 0..*filler {
                s.push_str(&format!("(KRN D {} R 0.5)\n", k % 256));
            }
            for c in 0..*labels {
                s.push_str(&format!("(LABEL D {})(KRN D {} R 1.0)\n", c % 256, c % 256));
            }
            if *boundary_label {
                s.push_str("(LABEL BOUNDARYCHAR)(KRN D 0 R 2.0)\n");
            }
            s.push_str(")\n");
            for c in 0..(*labels).min(256) {
                s.push_str(&format!("(CHARACTER D {c} (CHARWD R 1.0))\n"));
            }
            case.note = Some(format!("{filler} filler KRN steps, then {labels} labelled steps, boundary={boundary}, boundary label={boundary_label}"));
            case.class_if(*filler + *labels + *boundary_label as u32 == MAX_STEPS as u32 && *labels >= 256 && *boundary_label, "directed:nl=32767_called_for");
            pl_case(ctx, &s, case)
        }
        Raw::PlManyVarchars { n, pieces } => {
            let mut s = String::new();
            for c in 0..(*n).min(256) {
                if *pieces {
                    s.push_str(&format!("(CHARACTER D {c} (CHARWD R 1.0) (VARCHAR (TOP D {}) (MID D {c}) (BOT D {}) (REP D {c})))\n", (c + 1) % 256, (c + 255) % 256));
                } else {
                    s.push_str(&format!("(CHARACTER D {c} (VARCHAR (REP D {c})))\n"));
                }
            }
            case.note = Some(format!("{n} characters, each with a VARCHAR (pieces={pieces})"));
            case.class_if(*n >= 256, "directed:256_varchars");
            pl_case(ctx, &s, case)
        }
    }
}

fn minimal_font() -> Vec<u8> {
    // lf=12 lh=2 bc=1 ec=0 nw=nh=nd=ni=1, design size 10.0
    let mut b = words([12, 2, 1, 0, 1, 1, 1, 1, 0, 0, 0, 0]);
    b.extend([0, 0, 0, 0, 0, 0xA0, 0, 0]);
    b.resize(48, 0);
    b
}

fn directed_cases() -> Vec<Raw> {
    let mut v = vec![];
    // D19: 16-byte file, lf=4.
    v.push(Raw::Tfm(hex(&extend(&[0, 4], 16))));
    v.push(Raw::Tfm(hex(&extend(&[0, 5], 20))));
    v.push(Raw::Tfm(hex(&extend(&[0, 5], 23))));
    // D20: sub-file sizes summing past 2^15.
    v.push(Raw::Tfm(hex(&words([6, 2, 0, 0, 0x7fff, 0x7fff, 1, 1, 0, 0, 0, 0]))));
    v.push(Raw::Tfm(hex(&words([6, 0x7fff, 1, 0, 1, 1, 1, 1, 0, 0, 0, 0x7fff]))));
    // header larger than HEADER D 255 can express
    for lh in [255i16, 256, 257, 300] {
        let lf = 6 + lh + 4;
        let mut b = words([lf, lh, 1, 0, 1, 1, 1, 1, 0, 0, 0, 0]);
        b.resize(lf as usize * 4, 0);
        b[24 + 5] = 0xA0;
        v.push(Raw::Tfm(hex(&b)));
    }
    // empty character ranges beyond 255, ne = 256
    for (bc, ec) in [(256i16, 255i16), (300, 299), (0x7fff, 0x7ffe), (0x7fff, 0x7fff)] {
        let nc = if bc == ec { 1 } else { 0 };
        let mut b = words([12 + nc, 2, bc, ec, 1, 1, 1, 1, 0, 0, 0, 0]);
        b.resize((12 + nc) as usize * 4, 0);
        v.push(Raw::Tfm(hex(&b)));
    }
    {
        let mut b = words([12 + 256, 2, 1, 0, 1, 1, 1, 1, 0, 0, 256, 0]);
        b.resize((12 + 256) * 4, 0);
        v.push(Raw::Tfm(hex(&b)));
    }
    v.push(Raw::Tfm(hex(&minimal_font())));
    // D21: LIGTABLE label for a character below the first CHARACTER.
    v.push(Raw::Pl("(CHARACTER C B)(LIGTABLE (LABEL C A)(KRN C B R 1))".into()));
    v.push(Raw::Pl("(CHARACTER C B)(LIGTABLE (LABEL C A))".into()));
    v.push(Raw::Pl("(CHARACTER C B)(CHARACTER C A (NEXTLARGER C A))".into()));
    v.push(Raw::Pl("(CHARACTER C B (NEXTLARGER C A))(CHARACTER C A (NEXTLARGER C B))".into()));
    v.push(Raw::Pl("".into()));
    v.push(Raw::Pl("(LIGTABLE (LABEL BOUNDARYCHAR))".into()));
    v.push(Raw::Pl("(LIGTABLE (STOP)(SKIP D 3)(LABEL D 0)(STOP))".into()));
    v.push(Raw::Pl("(FONTDIMEN (PARAMETER D 0 R 1.0)(PARAMETER D 255 R 1.0)(PARAMETER D 254 R 1.0))".into()));
    v.push(Raw::Pl("(HEADER D 255 O 1)(HEADER D 17 O 1)".into()));
    v.push(Raw::Pl("(CHARACTER D 0 (CHARWD R -100.0))".into()));
    v.push(Raw::Pl("(CHARACTER C A (CHARWD R 2047.0))".into()));
    v.push(Raw::Pl("(CHARACTER C A (CHARWD R -2047.9999999))".into()));
    v.push(Raw::Pl("(LIGTABLE (LABEL C A)(KRN C A R 16))".into()));
    v.push(Raw::Pl("(LIGTABLE (LABEL C A)(KRN C A R -16)(KRN C B R 15.9999))".into()));
    v.push(Raw::Pl("(CHARACTER C A (CHARWD R 5000))(DESIGNSIZE R 0.5)(SEVENBITSAFEFLAG TRUE)(CHARACTER C B (NEXTLARGER D 200))".into()));
    {
        let mut s = String::new();
        for i in 0..20 {
            s.push_str(&format!("(CHARACTER D {} (CHARHT R {}))", i, if i % 2 == 0 { 2000 - i } else { -2000 + i }));
        }
        v.push(Raw::Pl(s));
    }
    {
        let mut s = String::new();
        for i in 0..300 {
            s.push_str(&format!("(CHARACTER D {} (CHARWD R {}.{}))", i % 256, (i * 7) % 2047, i));
        }
        v.push(Raw::Pl(s));
    }
    v.push(Raw::Pl(format!("(CODINGSCHEME {})(FAMILY {})", "x".repeat(300), "aaaaaaaaaaaaaaaaaaé")));
    // lig tables: > 255 instructions with late labels; beyond the PLtoTF limit.
    v.push(Raw::PlRep { pre: "(CHARACTER C A)(LIGTABLE ".into(), rep: "(KRN C A R 1)".into(), n: 300, post: "(LABEL C A)(KRN C A R 2)(LABEL BOUNDARYCHAR)(LIG C A C A))".into() });
    v.push(Raw::PlRep { pre: "(LIGTABLE ".into(), rep: "(KRN C A R 1)".into(), n: 32600, post: ")".into() });
    v.push(Raw::PlRep { pre: "(LIGTABLE (LABEL C A)".into(), rep: "(LIG C A C A)".into(), n: 32509, post: "(LABEL C B)(KRN C A R 1))".into() });
    v.push(Raw::PlManyKerns { n: 300 });
    v.push(Raw::PlManyKerns { n: 16500 });
    v.push(Raw::PlManyKerns { n: 32510 });
    for (filler, labels, boundary) in [(0u32, 256u32, false), (256, 255, false), (256, 256, false), (256, 256, true), (255, 256, true), (300, 200, true), (1, 256, true)] {
        v.push(Raw::PlLateLabels { filler, labels, boundary, boundary_label: false });
    }
    // The upper end of the lig/kern table: 32510 steps in the text + 256 entry-point redirects + the boundary entry
    // = nl 32767 exactly (the largest value a size word can hold), and its neighbours on both sides of the PLtoTF cap.
    for filler in [32252u32, 32253, 32254, 32255] {
        v.push(Raw::PlLateLabels { filler, labels: 256, boundary: true, boundary_label: true });
    }
    v.push(Raw::PlLateLabels { filler: 32253, labels: 256, boundary: false, boundary_label: true });
    v.push(Raw::PlLateLabels { filler: 32254, labels: 256, boundary: true, boundary_label: false });
    v.push(Raw::PlLateLabels { filler: 32254, labels: 255, boundary: true, boundary_label: true });
    v.push(Raw::PlLateLabels { filler: 32400, labels: 256, boundary: true, boundary_label: true });
    // One extensible recipe per character: 255, 256 (the format's maximum: TFtoPL 21 rejects ne > 256 only).
    for (n, pieces) in [(255u32, false), (256, false), (256, true)] {
        v.push(Raw::PlManyVarchars { n, pieces });
    }
    // Warnings whose text is asked for right at / after the end of the text, and the kinds PLtoTF words specially.
    for t in ["(FACE\n", "(FACE", "(CHARACTER C A (CHARWD R 5000", "(CHARACTER C A (CHARWD R 5000\n\n", "(LIGTABLE (LABEL\n", "x", "x\n", ")\n", "(\n", "(COMMENT (\n", "(CHECKSUM\r\n", "(HEADER D 3\r\r\n", "(FAMILY é\n(", "\r", "(DESIGNSIZE R 1.é\r\n\r\n"] {
        v.push(Raw::Pl(t.into()));
    }
    v.push(Raw::Pl("(SEVENBITSAFEFLAG TRUE)(CHARACTER C A (NEXTLARGER D 200))".into()));
    v.push(Raw::Pl("(SEVENBITSAFEFLAG TRUE)(LIGTABLE (LABEL C A)(LIG C B D 200))(CHARACTER C A)(CHARACTER C B)".into()));
    v.push(Raw::Pl("(SEVENBITSAFEFLAG TRUE)(CHARACTER C A (VARCHAR (REP D 200)))".into()));
    // deep nesting
    v.push(Raw::PlRep { pre: "".into(), rep: "(CHARACTER C A ".into(), n: 5000, post: "".into() });
    v.push(Raw::PlRep { pre: "(CHARACTER C A ".into(), rep: "(COMMENT ".into(), n: 5000, post: "".into() });
    v.push(Raw::PlRep { pre: "".into(), rep: ")".into(), n: 5000, post: "(CHARACTER C A)".into() });
    v
}

// ------------------------------------------------------------------------------------
// Sub-check 1: header sweep

const WORD_NAMES: [&str; 12] = ["lf", "lh", "bc", "ec", "nw", "nh", "nd", "ni", "nl", "nk", "ne", "np"];

struct Lane {
    start: u64,
    count: u64,
    base: usize,
    word: usize,
}

struct Sweep {
    bases: Vec<(String, Vec<u8>)>,
    lanes: Vec<Lane>,
    /// First index after the lanes of base k.
    base_end: Vec<u64>,
}

fn claimed_len(b: &[u8]) -> Option<usize> {
    if b.len() < 2 {
        return None;
    }
    let lf = i16::from_be_bytes([b[0], b[1]]);
    if lf <= 0 {
        None
    } else {
        Some(lf as usize * 4)
    }
}

fn sweep_table() -> &'static Sweep {
    static S: OnceLock<Sweep> = OnceLock::new();
    S.get_or_init(|| {
        let mut bases: Vec<(String, Vec<u8>)> = vec![];
        bases.push(("header-only lf=6 zeros".into(), extend(&[0, 6], 24)));
        bases.push(("header-only lf=6 lh=2 bc=1 ec=0 n*=1".into(), words([6, 2, 1, 0, 1, 1, 1, 1, 0, 0, 0, 0])));
        bases.push(("16-byte file lf=4".into(), extend(&[0, 4], 16)));
        bases.push(("minimal font (48 bytes)".into(), minimal_font()));
        bases.push(("minimal font + 4 junk bytes".into(), extend(&minimal_font(), 52)));
        for (name, b) in &corpus().tfm {
            let mut cuts: Vec<usize> = vec![b.len()];
            if let Some(c) = claimed_len(b) {
                if c >= 1 && c - 1 < b.len() {
                    cuts.push(c - 1);
                }
            }
            for c in [24usize, 23, 2, 1, 0] {
                if c < b.len() {
                    cuts.push(c);
                }
            }
            let mut seen: Vec<usize> = vec![];
            for c in cuts {
                if seen.contains(&c) {
                    continue;
                }
                seen.push(c);
                bases.push((format!("{name}[..{c}]"), b[..c].to_vec()));
            }
        }
        let mut lanes = vec![];
        let mut base_end = vec![];
        let mut start = 0u64;
        for (bi, (_, b)) in bases.iter().enumerate() {
            for w in 0..12 {
                let count = if b.len() >= 2 * w + 2 {
                    65536
                } else if b.len() == 2 * w + 1 {
                    256 // only the high byte of the word exists
                } else {
                    0
                };
                if count > 0 {
                    lanes.push(Lane { start, count, base: bi, word: w });
                    start += count;
                }
            }
            if b.len() < 2 {
                // nothing to sweep: the base itself is one case
                lanes.push(Lane { start, count: 1, base: bi, word: 12 });
                start += 1;
            }
            base_end.push(start);
        }
        Sweep { bases, lanes, base_end }
    })
}

thread_local! {
    static SWEEP_BUF: std::cell::RefCell<(usize, Vec<u8>)> = const { std::cell::RefCell::new((usize::MAX, Vec::new())) };
}

fn sweep_bytes<R>(i: u64, f: impl FnOnce(&[u8], &Lane) -> R) -> R {
    let t = sweep_table();
    let li = t.lanes.partition_point(|l| l.start + l.count <= i);
    let lane = &t.lanes[li];
    let v = i - lane.start;
    SWEEP_BUF.with(|cell| {
        let mut g = cell.borrow_mut();
        if g.0 != lane.base {
            g.1.clear();
            g.1.extend_from_slice(&t.bases[lane.base].1);
            g.0 = lane.base;
        }
        let w = lane.word;
        let saved: [Option<u8>; 2] = [g.1.get(2 * w).copied(), g.1.get(2 * w + 1).copied()];
        if w < 12 {
            if lane.count == 65536 {
                g.1[2 * w] = (v >> 8) as u8;
                g.1[2 * w + 1] = v as u8;
            } else {
                g.1[2 * w] = v as u8;
            }
        }
        let r = f(&g.1, lane);
        if w < 12 {
            if let Some(x) = saved[0] {
                g.1[2 * w] = x;
            }
            if let Some(x) = saved[1] {
                g.1[2 * w + 1] = x;
            }
        }
        r
    })
}

fn header_sweep(ctx: &Ctx) {
    let t = sweep_table();
    let n_bases = ctx.tier.pick(SWEEP_QUICK_BASES.min(t.bases.len()), t.bases.len());
    let hi = t.base_end[n_bases - 1] as i64 - 1;
    let counts: Vec<AtomicU64> = (0..ERR_CLASSES.len() + 3).map(|_| AtomicU64::new(0)).collect();
    let known: Mutex<BTreeMap<String, u64>> = Mutex::new(BTreeMap::new());
    // A failure is stored as a self-contained `directed` replay (the bytes themselves): an index into the sweep
    // table would silently point at another input once a corpus file is added or removed.
    let reported = std::sync::atomic::AtomicBool::new(false);
    run_range(ctx, "header_sweep", 0, hi, true, |i| {
        if reported.load(Ordering::Relaxed) {
            return Ok(false);
        }
        sweep_bytes(i as u64, |bytes, lane| {
            let mut sink = Sink { case: None };
            // messages are rendered for one value in 251 (a prime: every word value class of every lane is hit)
            match check_tfm(ctx, bytes, 0, i % 251 == 0, &mut sink) {
                Ok(o) => {
                    let k = match o.err_idx {
                        Some(k) => k,
                        None if o.nontrivial => ERR_CLASSES.len(),
                        None => ERR_CLASSES.len() + 1,
                    };
                    counts[k].fetch_add(1, Ordering::Relaxed);
                    Ok(o.nontrivial)
                }
                Err(Verdict::Known(sig)) => {
                    counts[ERR_CLASSES.len() + 2].fetch_add(1, Ordering::Relaxed);
                    *known.lock().unwrap().entry(sig).or_default() += 1;
                    Ok(false)
                }
                Err(Verdict::Fail(m)) => {
                    let msg = format!(
                        "base {:?} with {} := {}: {}",
                        t.bases[lane.base].0,
                        WORD_NAMES.get(lane.word).unwrap_or(&"-"),
                        if lane.word < 12 && bytes.len() > 2 * lane.word + 1 { i16::from_be_bytes([bytes[2 * lane.word], bytes[2 * lane.word + 1]]) as i64 } else { -1 },
                        m
                    );
                    if ctx.is_generate() {
                        if !reported.swap(true, Ordering::SeqCst) {
                            ctx.fail_external("directed", &Raw::Tfm(hex(bytes)), &format!("header_sweep: {msg}"));
                        }
                        Ok(false)
                    } else {
                        // replay of an index stored by an earlier version
                        Err(msg)
                    }
                }
                Err(_) => Ok(false),
            }
        })
    });
    if ctx.is_generate() {
        let mut classes = serde_json::Map::new();
        for (k, c) in ERR_CLASSES.iter().enumerate() {
            classes.insert(c.to_string(), counts[k].load(Ordering::Relaxed).into());
        }
        classes.insert("tfm:accepted_with_warnings".into(), counts[ERR_CLASSES.len()].load(Ordering::Relaxed).into());
        classes.insert("tfm:accepted_clean".into(), counts[ERR_CLASSES.len() + 1].load(Ordering::Relaxed).into());
        classes.insert("known_panic".into(), counts[ERR_CLASSES.len() + 2].load(Ordering::Relaxed).into());
        ctx.extra("header_sweep", "classes_counted", serde_json::Value::Object(classes));
        ctx.extra("header_sweep", "known_finding_hits_by_signature", serde_json::to_value(&*known.lock().unwrap()).unwrap());
        ctx.extra("header_sweep", "bases_swept", serde_json::json!(n_bases));
        ctx.extra("header_sweep", "bases_total", serde_json::json!(t.bases.len()));
        ctx.extra("header_sweep", "first_bases", serde_json::json!(t.bases.iter().take(8).map(|b| b.0.clone()).collect::<Vec<_>>()));
    }
}

const SWEEP_QUICK_BASES: usize = 300;

// ------------------------------------------------------------------------------------
// Sub-check 2a: truncation of every corpus font at every length

#[derive(Debug, Clone, Serialize, Deserialize)]
pub struct Trunc {
    file: u16,
    len: u32,
}

fn truncations(ctx: &Ctx) {
    let c = corpus();
    let mut ends: Vec<u64> = vec![];
    let mut total = 0u64;
    for (_, b) in &c.tfm {
        total += b.len() as u64 + 1;
        ends.push(total);
    }
    run_indexed(
        ctx,
        "corpus_truncations",
        total,
        true,
        |i| {
            let f = ends.partition_point(|e| *e <= i);
            let start = if f == 0 { 0 } else { ends[f - 1] };
            Trunc { file: f as u16, len: (i - start) as u32 }
        },
        |t: &Trunc, case| {
            let Some((name, b)) = c.tfm.get(t.file as usize) else { return Verdict::Skip("no such corpus file") };
            let len = (t.len as usize).min(b.len());
            case.note = Some(format!("{name}[..{len}] of {}", b.len()));
            case.class_if(len == b.len(), "full_corpus_font");
            tfm_case(ctx, &b[..len], len as u64, len == b.len(), case)
        },
    );
}

// ------------------------------------------------------------------------------------
// Property-list tokens

/// Tokens: "(", ")" and maximal runs of other non-blank characters.
fn tokenize(s: &str) -> Vec<&str> {
    let mut out = vec![];
    let mut start: Option<usize> = None;
    for (i, c) in s.char_indices() {
        let brk = c == '(' || c == ')' || c == ' ' || c == '\n' || c == '\r' || c == '\t';
        if brk {
            if let Some(st) = start.take() {
                out.push(&s[st..i]);
            }
            if c == '(' || c == ')' {
                out.push(&s[i..i + 1]);
            }
        } else if start.is_none() {
            start = Some(i);
        }
    }
    if let Some(st) = start {
        out.push(&s[st..]);
    }
    out
}

fn render_tokens(t: &[Cow<'static, str>]) -> String {
    let mut s = String::with_capacity(t.iter().map(|x| x.len() + 1).sum());
    let mut depth = 0i64;
    for (i, tok) in t.iter().enumerate() {
        if i > 0 {
            let prev = t[i - 1].as_ref();
            if prev == ")" && depth <= 0 {
                s.push('\n');
            } else if prev != "(" && tok.as_ref() != ")" {
                s.push(' ');
            }
        }
        match tok.as_ref() {
            "(" => depth += 1,
            ")" => depth -= 1,
            _ => {}
        }
        s.push_str(tok);
    }
    s
}

// ------------------------------------------------------------------------------------
// Sub-check 2b: 1-8 byte mutations of corpus fonts

#[derive(Debug, Clone, Serialize, Deserialize)]
pub struct ByteMut {
    /// 0: anywhere, 1: the 24 header bytes, 2: first 256 bytes, 3: last 64 bytes
    region: u8,
    pos: u32,
    /// 0 set, 1 xor bit, 2 add, 3 boundary value
    kind: u8,
    val: u8,
}

#[derive(Debug, Clone, Serialize, Deserialize)]
pub struct MutCase {
    file: u16,
    muts: Vec<ByteMut>,
    /// Keep `lf` consistent with a changed sub-file size by editing lf as well.
    fix_lf: bool,
}

fn scale(frac: u32, n: usize) -> usize {
    ((frac as u64 * n as u64) >> 32) as usize
}

fn apply_byte_muts(b: &mut [u8], muts: &[ByteMut]) {
    let n = b.len();
    if n == 0 {
        return;
    }
    for m in muts {
        let (lo, len) = match m.region % 4 {
            0 => (0, n),
            1 => (0, n.min(24)),
            2 => (0, n.min(256)),
            _ => (n.saturating_sub(64), n.min(64)),
        };
        let p = lo + scale(m.pos, len);
        b[p] = match m.kind % 4 {
            0 => m.val,
            1 => b[p] ^ (1 << (m.val % 8)),
            2 => b[p].wrapping_add(m.val % 5).wrapping_sub(2),
            _ => [0u8, 1, 0x7f, 0x80, 0xff, 0xfe, 2, 3][(m.val % 8) as usize],
        };
    }
}

/// After a mutation of a sub-file size, optionally restore `lf = 6+lh+...` (when it fits) so the reader
/// gets past the consistency check with shifted tables.
fn refit_lf(b: &mut [u8]) {
    if b.len() < 24 {
        return;
    }
    let w: Vec<i32> = (0..12).map(|k| i16::from_be_bytes([b[2 * k], b[2 * k + 1]]) as i32).collect();
    if w[1..].iter().any(|x| *x < 0) {
        return;
    }
    let total = 6 + w[1] + (w[3] - w[2] + 1) + w[4..].iter().sum::<i32>();
    if total > 0 && total <= i16::MAX as i32 && (total as usize) * 4 <= b.len() {
        let x = (total as i16).to_be_bytes();
        b[0] = x[0];
        b[1] = x[1];
    }
}

fn mut_case_strategy(n_files: usize) -> BoxedStrategy<MutCase> {
    let bm = (0u8..4, any::<u32>(), 0u8..4, any::<u8>()).prop_map(|(region, pos, kind, val)| ByteMut { region, pos, kind, val });
    (0..n_files.max(1) as u16, prop::collection::vec(bm, 1..=8), prop::bool::weighted(0.3))
        .prop_map(|(file, muts, fix_lf)| MutCase { file, muts, fix_lf })
        .boxed()
}

fn mut_oracle(ctx: &Ctx, c: &MutCase, case: &mut Case) -> Verdict {
    let Some((name, orig)) = corpus().tfm.get(c.file as usize) else { return Verdict::Skip("no such corpus file") };
    let mut b = orig.clone();
    apply_byte_muts(&mut b, &c.muts);
    if c.fix_lf {
        refit_lf(&mut b);
    }
    case.note = Some(format!("{name} with {:?}{}", c.muts, if c.fix_lf { " +lf refit" } else { "" }));
    let sel = fnv64(&b[..b.len().min(64)]);
    tfm_case(ctx, &b, sel, true, case)
}

// ------------------------------------------------------------------------------------
// Sub-check 3: size-consistent random files, decoded by hand from generated integers
// (shape of crates/tfm/fuzz/fuzz_targets/fuzz_tftopl.rs `Input`, with shaped rather than uniform words)

#[derive(Debug, Clone, Serialize, Deserialize)]
pub struct Rc {
    checksum: u32,
    design: u8,
    scheme_kind: u8,
    scheme: Vec<u8>,
    family: Vec<u8>,
    sbs_face: (u8, u8),
    extra_header: u16,
    /// Number of header words kept (2..=18+extra); 0 = all.
    lh_cut: u8,
    bc: u8,
    empty_range_kind: u8,
    chars: Vec<[u8; 6]>,
    widths: Vec<(u8, u32)>,
    heights: Vec<(u8, u32)>,
    depths: Vec<(u8, u32)>,
    italics: Vec<(u8, u32)>,
    lig: Vec<[u8; 5]>,
    lig_frame: u8,
    kerns: Vec<(u8, u32)>,
    ext: Vec<[u8; 8]>,
    params: Vec<(u8, u32)>,
    tweak: Option<(u8, u8, i16)>,
    tail: i8,
    /// (table, delta): one table (kerns, params, extensible recipes, extra header words, one-step lig/kern programs) is
    /// extended until the file has 32767 + delta words: lf at the largest value a TFM file can have, and just past it.
    #[serde(default)]
    pad: Option<(u8, i8)>,
}

fn fix_from(sel: u8, raw: u32, first: bool) -> i32 {
    let small = (raw % (32 << 20)) as i32 - (16 << 20); // [-16,16)
    if first && sel % 4 != 0 {
        return 0;
    }
    match sel % 16 {
        0..=8 => small / 8,
        9 => small,
        10 => 0,
        11 => 16 << 20,
        12 => -(16 << 20),
        13 => -(16 << 20) - 1,
        14 => [i32::MIN, i32::MAX, i32::MIN + 1, (2047 << 20) + 0xfffff][(raw % 4) as usize],
        _ => raw as i32,
    }
}

fn string_field(kind: u8, body: &[u8], size: usize) -> Vec<u8> {
    // size = 40 or 20 bytes including the length byte
    let mut content: Vec<u8> = match kind % 8 {
        0 => b"TEX MATH SYMBOLS".to_vec(),
        1 => b"TeX math extension".to_vec(),
        2 => b"TEX MATH SY".to_vec(),
        _ => body.iter().map(|c| match c % 16 {
            0 => b'(',
            1 => b')',
            2 => *c,        // arbitrary byte, possibly non-ASCII / control
            3 => 0x7f,
            4 => b'a' + (c >> 4),
            _ => b'A' + (c >> 4),
        }).collect(),
    };
    content.truncate(size - 1);
    let len_byte = match kind / 8 % 8 {
        0 => 255,
        1 => (size - 1) as u8 + 1,
        2 => 0,
        3 => size as u8 + 40,
        _ => content.len() as u8,
    };
    let mut f = vec![len_byte];
    f.extend(content);
    f.resize(size, if kind & 64 != 0 { b'X' } else { 0 });
    f
}

fn be(b: &mut Vec<u8>, x: i32) {
    b.extend((x as u32).to_be_bytes());
}

fn build_rc(r: &Rc) -> Vec<u8> {
    if let Some((table, delta)) = r.pad {
        let plain = Rc { pad: None, tail: 0, tweak: None, ..r.clone() };
        let need = i16::MAX as i64 + delta as i64 - (build_rc(&plain).len() / 4) as i64;
        let mut padded = Rc { pad: None, ..r.clone() };
        if need > 0 {
            let need = need as usize;
            match table % 5 {
                0 => padded.kerns.extend((0..need).map(|k| (0u8, k as u32 * 37))),
                1 => padded.params.extend((0..need).map(|k| (1u8, k as u32 * 41))),
                2 => padded.ext.extend((0..need).map(|k| [1, 0, 1, 1, k as u8, 0, (k >> 8) as u8, k as u8])),
                3 if r.lh_cut == 0 => padded.extra_header = padded.extra_header.saturating_add(need as u16),
                // lig/kern words with the stop bit: programs of one step (a program shared by all characters is printed once per character)
                _ => padded.lig.extend((0..need).map(|k| [6, k as u8, (k >> 3) as u8, k as u8, 0])),
            }
        }
        return build_rc(&padded);
    }
    // header
    let mut h: Vec<u8> = vec![];
    h.extend(r.checksum.to_be_bytes());
    let design: i32 = match r.design % 8 {
        0..=3 => 10 << 20,
        4 => (1 << 20) - 1,
        5 => -(5 << 20),
        6 => 0,
        _ => i32::MAX,
    };
    be(&mut h, design);
    h.extend(string_field(r.scheme_kind, &r.scheme, 40));
    h.extend(string_field(r.scheme_kind.rotate_left(3) | 3, &r.family, 20));
    h.extend([r.sbs_face.0, 0, 0, r.sbs_face.1]);
    for i in 0..r.extra_header {
        be(&mut h, (i as i32).wrapping_mul(0x01010101));
    }
    let total_words = h.len() / 4;
    let lh = if r.lh_cut == 0 { total_words } else { (r.lh_cut as usize).clamp(2, total_words) };
    h.truncate(lh * 4);

    let nw = r.widths.len().max(1);
    let nh = r.heights.len().max(1);
    let nd = r.depths.len().max(1);
    let ni = r.italics.len().max(1);
    let nl = r.lig.len();
    let nk = r.kerns.len();
    let ne = r.ext.len();
    let max_chars = 256 - r.bc as usize;
    let nchars = r.chars.len().min(max_chars);
    let (bc, ec): (i32, i32) = if nchars == 0 {
        match r.empty_range_kind % 8 {
            0..=3 => (1, 0),
            4 => (r.bc as i32 + 1, r.bc as i32),
            5 => (256, 255),
            6 => (300, 299),
            _ => (0, -1),
        }
    } else {
        (r.bc as i32, r.bc as i32 + nchars as i32 - 1)
    };
    let existing = |sel: u8| -> u8 {
        if nchars == 0 {
            sel
        } else {
            (bc as usize + sel as usize % nchars) as u8
        }
    };
    let mut b = vec![0u8; 24];
    b.extend(&h);
    // char_info
    for (k, c) in r.chars.iter().take(nchars).enumerate() {
        let idx = |sel: u8, n: usize, cap: usize| -> u8 {
            match sel % 8 {
                0 => 0,
                1..=5 => {
                    if n > 1 {
                        (1 + (sel as usize >> 3) % (n - 1)).min(cap) as u8
                    } else {
                        0
                    }
                }
                6 => n.min(cap) as u8,
                _ => cap as u8,
            }
        };
        let mut wi = idx(c[0], nw, 255);
        if c[0] % 8 != 0 && wi == 0 {
            wi = 1;
        }
        let hi = idx(c[1], nh, 15);
        let di = idx(c[2], nd, 15);
        let ii = idx(c[3], ni, 63);
        let (tag, rem): (u8, u8) = match c[4] % 8 {
            0..=2 => (0, if c[4] & 64 != 0 { c[5] } else { 0 }),
            3 | 4 => (1, match c[5] % 4 {
                0 | 1 => if nl > 0 { ((c[5] as usize >> 2) % nl.min(256)) as u8 } else { 0 },
                2 => nl.min(255) as u8,
                _ => 255,
            }),
            5 => (2, match c[5] % 8 {
                0 => (bc + k as i32) as u8,                               // self loop
                1 | 2 => (bc + ((k + 1) % nchars) as i32) as u8,          // long chains, closing a cycle at the end
                3 => (bc + (k as i32 + nchars as i32 - 1) % nchars as i32) as u8,
                4 => (ec as u8).wrapping_add(1),
                5 => (bc as u8).wrapping_sub(1),
                _ => existing(c[5] >> 3),
            }),
            _ => (3, match c[5] % 4 {
                0 | 1 => if ne > 0 { ((c[5] as usize >> 2) % ne) as u8 } else { 0 },
                2 => ne.min(255) as u8,
                _ => 255,
            }),
        };
        b.extend([wi, hi << 4 | di, ii << 2 | tag, rem]);
    }
    for (tbl, _n) in [(&r.widths, nw), (&r.heights, nh), (&r.depths, nd), (&r.italics, ni)] {
        if tbl.is_empty() {
            be(&mut b, 0);
        }
        for (i, (s, raw)) in tbl.iter().enumerate() {
            be(&mut b, fix_from(*s, *raw, i == 0));
        }
    }
    // lig/kern
    for (i, l) in r.lig.iter().enumerate() {
        let [s, rc, o, m, x] = *l;
        let first_boundary = i == 0 && r.lig_frame % 4 >= 2;
        let last_boundary = i + 1 == nl && r.lig_frame % 2 == 1;
        if first_boundary {
            b.extend([255, if r.lig_frame & 8 != 0 { existing(rc) } else { rc }, o, m]);
            continue;
        }
        if last_boundary {
            let target: u16 = match r.lig_frame / 16 % 4 {
                0 | 1 => (x as usize % nl) as u16,
                2 => nl as u16,
                _ => u16::from_be_bytes([o, m]),
            };
            b.extend([255, rc, (target >> 8) as u8, target as u8]);
            continue;
        }
        let skip: u8 = match s % 16 {
            0..=5 => 0,
            6 | 7 => 128,
            8 | 9 => 1 + x % 3,
            10 => x % 128,
            11 => 127,
            12 => 129 + x % 127,
            13 => 255,
            14 => (nl - 1 - i).min(127) as u8,
            _ => (nl - i).min(127) as u8,
        };
        if skip > 128 {
            let target: u16 = if x & 1 == 0 { (u16::from_be_bytes([o, m])) % nl.max(1) as u16 } else { u16::from_be_bytes([o, m]) };
            b.extend([skip, rc, (target >> 8) as u8, target as u8]);
            continue;
        }
        let right = if s & 16 != 0 { rc } else { existing(rc) };
        let (op, rem): (u8, u8) = match o % 8 {
            0..=3 => ([0u8, 1, 2, 3, 5, 6, 7, 11][(o as usize >> 3) % 8], if o & 64 != 0 { m } else { existing(m) }),
            4 => ([4u8, 8, 9, 10, 12, 13, 64, 127][(o as usize >> 3) % 8], existing(m)),
            5 | 6 => {
                let k = if nk > 0 { (u16::from_be_bytes([o >> 3, m]) as usize) % nk } else { 0 };
                (128 + (k >> 8) as u8, k as u8)
            }
            _ => (128 + (nk >> 8).min(127) as u8, if o & 8 != 0 { nk as u8 } else { 255 }),
        };
        b.extend([skip, right, op, rem]);
    }
    for (s, raw) in &r.kerns {
        be(&mut b, fix_from(*s, *raw, false));
    }
    for e in &r.ext {
        for j in 0..4 {
            b.push(match e[j] % 4 {
                0 => 0,
                1 | 2 => existing(e[4 + j]),
                _ => e[4 + j],
            });
        }
    }
    let np = r.params.len();
    for (i, (s, raw)) in r.params.iter().enumerate() {
        be(&mut b, if i == 0 && s % 2 == 0 { *raw as i32 } else { fix_from(*s, *raw, false) });
    }
    let nc = if nchars == 0 { 0 } else { nchars as i32 };
    let mut w: [i32; 12] = [0, lh as i32, bc, ec, nw as i32, nh as i32, nd as i32, ni as i32, nl as i32, nk as i32, ne as i32, np as i32];
    w[0] = 6 + lh as i32 + nc + w[4..].iter().sum::<i32>();
    if let Some((word, sel, delta)) = r.tweak {
        let k = (word % 12) as usize;
        w[k] = match sel % 8 {
            0 => w[k] + delta as i32 % 3,
            1 => 0,
            2 => -1,
            3 => 0x7fff,
            4 => 0x7fff - (delta as i32).rem_euclid(64),
            5 => 255 + (delta as i32).rem_euclid(4),
            6 => delta as i32,
            _ => w[k] ^ 0x8000,
        };
        if sel & 8 != 0 && k != 0 {
            // keep lf consistent with the changed size (tables shift)
            w[0] = 6 + w[1] + (w[3] - w[2] + 1) + w[4..].iter().sum::<i32>();
        }
    }
    for k in 0..12 {
        let x = (w[k] as i16).to_be_bytes();
        b[2 * k] = x[0];
        b[2 * k + 1] = x[1];
    }
    if r.tail > 0 {
        b.extend(std::iter::repeat(0xAB).take(r.tail as usize));
    } else if r.tail < 0 {
        let cut = (-(r.tail as i32)) as usize;
        b.truncate(b.len().saturating_sub(cut));
    }
    b
}

fn sized<T: std::fmt::Debug + Clone + 'static>(el: impl Strategy<Value = T> + Clone + 'static, small: usize, big: usize) -> BoxedStrategy<Vec<T>> {
    prop_oneof![
        6 => prop::collection::vec(el.clone(), 0..=small),
        2 => prop::collection::vec(el.clone(), 0..=3),
        1 => prop::collection::vec(el, small..=big),
    ]
    .boxed()
}

fn rc_strategy() -> BoxedStrategy<Rc> {
    let fixw = (any::<u8>(), any::<u32>());
    let head = (
        any::<u32>(),
        any::<u8>(),
        any::<u8>(),
        prop::collection::vec(any::<u8>(), 0..40),
        prop::collection::vec(any::<u8>(), 0..20),
        (prop_oneof![Just(0u8), Just(128), any::<u8>()], any::<u8>()),
        prop_oneof![8 => 0u16..4, 1 => 230u16..300],
        prop_oneof![4 => Just(0u8), 1 => 2u8..=20],
    );
    let body = (
        prop_oneof![any::<u8>(), Just(0u8), 0u8..8, 250u8..=255],
        any::<u8>(),
        sized(any::<[u8; 6]>(), 12, 256),
        sized(fixw.clone(), 8, 300),
        sized(fixw.clone(), 6, 40),
        sized(fixw.clone(), 6, 40),
        sized(fixw.clone(), 6, 80),
    );
    let tail = (
        sized(any::<[u8; 5]>(), 16, 600),
        any::<u8>(),
        sized(fixw.clone(), 6, 300),
        sized(any::<[u8; 8]>(), 4, 300),
        prop_oneof![12 => prop::collection::vec(fixw.clone(), 0..=8), 4 => prop::collection::vec(fixw.clone(), 13..=13), 4 => prop::collection::vec(fixw.clone(), 22..=22), 4 => prop::collection::vec(fixw.clone(), 0..40), 1 => prop::collection::vec(fixw, 250..=300)],
        prop_oneof![3 => Just(None), 1 => (0u8..12, any::<u8>(), any::<i16>()).prop_map(Some)],
        (prop_oneof![6 => Just(0i8), 1 => 1i8..=8, 1 => -5i8..0], prop_oneof![399 => Just(None), 1 => (0u8..5, -2i8..=2).prop_map(Some)]),
    );
    (head, body, tail)
        .prop_map(|((checksum, design, scheme_kind, scheme, family, sbs_face, extra_header, lh_cut), (bc, empty_range_kind, chars, widths, heights, depths, italics), (lig, lig_frame, kerns, ext, params, tweak, (tail, pad)))| Rc {
            checksum,
            design,
            scheme_kind,
            scheme,
            family,
            sbs_face,
            extra_header,
            lh_cut,
            bc,
            empty_range_kind,
            chars,
            widths,
            heights,
            depths,
            italics,
            lig,
            lig_frame,
            kerns,
            ext,
            params,
            tweak,
            tail,
            pad,
        })
        .boxed()
}

fn rc_oracle(ctx: &Ctx, r: &Rc, case: &mut Case) -> Verdict {
    let b = build_rc(r);
    let m = header_model(&b);
    case.note = Some(format!("tfm[{}] sizes {:?} {}", b.len(), m.words, snippet(&hex(&b[24.min(b.len())..]), 200)));
    case.class_if(m.expect == Expect::Valid, "rc:header_valid");
    case.class_if(m.words[8] > 255, "rc:nl>255");
    case.class_if(m.words[1] > 255, "rc:lh>255");
    case.class_if(m.d20_zone, "rc:d20_zone");
    case.class_if(m.words[11] > 254, "rc:np>254");
    case.class_if(r.pad.is_some(), "rc:padded_to_the_largest_lf");
    case.class_if(m.words[0] == i16::MAX, "rc:lf=32767");
    case.class_if(m.words[0] == i16::MAX && m.expect == Expect::Valid, "rc:lf=32767_header_valid");
    let sel = r.checksum as u64;
    tfm_case(ctx, &b, sel, true, case)
}

// ------------------------------------------------------------------------------------
// Sub-check 4: token-level mutations of corpus and generated property lists

#[derive(Debug, Clone, Serialize, Deserialize)]
pub enum GTag {
    None,
    Next(u8),
    Var([Option<u8>; 4]),
}

#[derive(Debug, Clone, Serialize, Deserialize)]
pub struct GChar {
    code: u8,
    dims: [Option<(u8, u32)>; 4],
    tag: GTag,
}

#[derive(Debug, Clone, Serialize, Deserialize)]
pub enum GLig {
    Label(u8),
    BoundaryLabel,
    Lig(u8, u8, u8),
    Krn(u8, u8, u32),
    Stop,
    Skip(u8),
}

#[derive(Debug, Clone, Serialize, Deserialize)]
pub struct GenPl {
    chars: Vec<GChar>,
    lig: Vec<GLig>,
    /// extra KRN steps appended to the lig table (0 or > 255), with labels sprinkled every `big_lig.1` steps
    big_lig: (u16, u8),
    boundary: Option<u8>,
    params: Vec<(u8, u8, u32)>,
    header: Vec<(u8, u32)>,
    scheme: u8,
    design: u8,
    /// NEXTLARGER cycle: (first code, length)
    cycle: (u8, u16),
    lig_first: bool,
    seven_bit: bool,
    /// `filler` KRN steps, then `labels` one-step programs labelled D 0, D 1, ... (entry points beyond 255 need redirects)
    late_labels: Option<(u16, u16)>,
    /// (first code, count 250..=256, style): that many consecutive characters, each with a VARCHAR
    /// (one extensible recipe per character; 256 recipes is the most a TFM file can hold).
    #[serde(default)]
    varchars: Option<(u8, u16, u8)>,
    /// (delta, labels 250..=256, flags): a lig table at PLtoTF's cap, rendered before `lig`: 32510 + delta steps in all, the
    /// last `labels` of them one-step programs labelled D 0, D 1, ..; flags bit 0: a BOUNDARYCHAR is declared, bit 1: the very
    /// last step is labelled BOUNDARYCHAR. With 256 labels and both bits the table needs 32510 + 256 + 1 = 32767 words.
    #[serde(default)]
    cap_table: Option<(i8, u16, u8)>,
}

/// Character codes come from a small pool so that labels, ligature characters and CHARACTER entries collide
/// or just miss each other (labels below the first CHARACTER, undeclared characters).
fn pool_code(sel: u8) -> u8 {
    const POOL: [u8; 16] = [0, 1, 2, 3, 65, 66, 67, 68, 69, 70, 97, 127, 128, 200, 254, 255];
    if sel & 0x80 != 0 && sel & 0x40 != 0 {
        sel
    } else {
        POOL[(sel % 16) as usize]
    }
}

fn pl_char(c: u8, style: u8) -> String {
    match style % 4 {
        0 if c.is_ascii_alphanumeric() => format!("C {}", c as char),
        1 => format!("D {}", c),
        2 => format!("H {:X}", c),
        _ => format!("O {:o}", c),
    }
}

fn pl_real(sel: u8, raw: u32) -> String {
    let v: i64 = match sel % 32 {
        0..=20 => (raw % (4 << 20)) as i64 - (1 << 20),
        21 => (raw % (32 << 20)) as i64 - (16 << 20),
        22 => [16i64 << 20, -(16i64 << 20), (16i64 << 20) - 1, -(16i64 << 20) - 1][(raw % 4) as usize],
        23 | 24 => 0,
        25 => (raw % (4094u32 << 20)) as i64 - (2047i64 << 20),
        26 => (2048i64 << 20) - 1,
        27 => -((2048i64 << 20) - 1),
        28 => 2048i64 << 20,
        29 => (2047i64 << 20) + (raw % (1 << 20)) as i64,
        30 => -(2047i64 << 20) - (raw % (1 << 20)) as i64,
        _ => (raw as i64) << 4,
    };
    let neg = v < 0;
    let a = v.unsigned_abs();
    let int = a >> 20;
    let frac = ((a & 0xfffff) as u128 * 10_000_000u128 + (1 << 19)) >> 20;
    let (int, frac) = if frac >= 10_000_000 { (int + 1, 0) } else { (int, frac) };
    format!("{} {}{}.{:07}", if sel & 0x80 != 0 { "D" } else { "R" }, if neg { "-" } else { "" }, int, frac)
}

fn render_gen(g: &GenPl) -> String {
    let mut s = String::new();
    match g.scheme % 6 {
        0 => s.push_str("(CODINGSCHEME TEX MATH SYMBOLS)\n"),
        1 => s.push_str("(CODINGSCHEME TEX MATH EXTENSION)\n"),
        2 => s.push_str("(CODINGSCHEME A VERY LONG CODING SCHEME NAME THAT DOES NOT FIT IN FORTY BYTES)\n(FAMILY ABCDEFGHIJKLMNOPQRSTUVWXYZ)\n"),
        3 => s.push_str("(FAMILY G(X)Y)\n(FACE F BIC)\n"),
        _ => {}
    }
    match g.design % 6 {
        0 => s.push_str("(DESIGNSIZE R 10.0)\n"),
        1 => s.push_str("(DESIGNSIZE R 0.5)\n"),
        2 => s.push_str("(DESIGNSIZE D 2047)\n(DESIGNUNITS R 1000.0)\n"),
        3 => s.push_str("(DESIGNSIZE R -3.0)\n(CHECKSUM O 37777777777)\n"),
        _ => {}
    }
    if g.seven_bit {
        s.push_str("(SEVENBITSAFEFLAG TRUE)\n");
    }
    for (i, v) in &g.header {
        s.push_str(&format!("(HEADER D {} O {:o})\n", i, v));
    }
    if !g.params.is_empty() {
        s.push_str("(FONTDIMEN\n");
        for (n, sel, raw) in &g.params {
            match n % 4 {
                0 => s.push_str(&format!("   ({} {})\n", ["SLANT", "SPACE", "QUAD", "NUM1", "AXISHEIGHT", "BIGOPSPACING5", "EXTRASPACE", "XHEIGHT"][(*n as usize >> 2) % 8], pl_real(*sel, *raw))),
                _ => s.push_str(&format!("   (PARAMETER D {} {})\n", n, pl_real(*sel, *raw))),
            }
        }
        s.push_str("   )\n");
    }
    if let Some(b) = g.boundary {
        s.push_str(&format!("(BOUNDARYCHAR {})\n", pl_char(b, b)));
    } else if g.cap_table.is_some_and(|c| c.2 & 1 != 0) {
        s.push_str("(BOUNDARYCHAR D 7)\n");
    }
    let lig = |s: &mut String| {
        if g.lig.is_empty() && g.big_lig.0 == 0 && g.late_labels.is_none() && g.cap_table.is_none() {
            return;
        }
        s.push_str("(LIGTABLE\n");
        if let Some((delta, labels, flags)) = g.cap_table {
            let labels = labels.min(256) as i32;
            let blabel = (flags >> 1 & 1) as i32;
            let filler = MAX_STEPS + delta as i32 - labels - blabel;
            for k in 0..filler {
                s.push_str(&format!("   (KRN D {} R 0.5)\n", k % 256));
            }
            for c in 0..labels {
                s.push_str(&format!("   (LABEL D {}) (KRN D {} R 1.0)\n", c, (c + 1) % 256));
            }
            if blabel == 1 {
                s.push_str("   (LABEL BOUNDARYCHAR) (KRN D 0 R 2.0)\n");
            }
        }
        if let Some((filler, labels)) = g.late_labels {
            for k in 0..filler {
                s.push_str(&format!("   (KRN D {} R 0.5)\n", k % 256));
            }
            for c in 0..labels {
                s.push_str(&format!("   (LABEL D {}) (KRN D {} R 1.0)\n", c % 256, (c + 1) % 256));
            }
        }
        for l in &g.lig {
            match l {
                GLig::Label(c) => s.push_str(&format!("   (LABEL {})\n", pl_char(*c, *c >> 2))),
                GLig::BoundaryLabel => s.push_str("   (LABEL BOUNDARYCHAR)\n"),
                GLig::Lig(k, r, i) => s.push_str(&format!(
                    "   ({} {} {})\n",
                    ["LIG", "/LIG", "/LIG>", "LIG/", "LIG/>", "/LIG/", "/LIG/>", "/LIG/>>"][(*k % 8) as usize],
                    pl_char(*r, *k >> 3),
                    pl_char(*i, *k >> 5)
                )),
                GLig::Krn(r, sel, raw) => s.push_str(&format!("   (KRN {} {})\n", pl_char(*r, *sel >> 4), pl_real(*sel, *raw))),
                GLig::Stop => s.push_str("   (STOP)\n"),
                GLig::Skip(n) => s.push_str(&format!("   (SKIP D {})\n", n)),
            }
        }
        for k in 0..g.big_lig.0 {
            if g.big_lig.1 > 0 && k % (g.big_lig.1 as u16 * 8) == 0 {
                s.push_str(&format!("   (LABEL D {})\n", (k / (g.big_lig.1 as u16 * 8)) % 256));
            }
            s.push_str(&format!("   (KRN D {} R {}.{})\n", k % 256, k % 7, k));
        }
        s.push_str("   )\n");
    };
    if g.lig_first {
        lig(&mut s);
    }
    for c in &g.chars {
        s.push_str(&format!("(CHARACTER {}\n", pl_char(c.code, c.code >> 1)));
        for (k, d) in c.dims.iter().enumerate() {
            if let Some((sel, raw)) = d {
                s.push_str(&format!("   ({} {})\n", ["CHARWD", "CHARHT", "CHARDP", "CHARIC"][k], pl_real(*sel, *raw)));
            }
        }
        match &c.tag {
            GTag::None => {}
            GTag::Next(n) => s.push_str(&format!("   (NEXTLARGER {})\n", pl_char(*n, 1))),
            GTag::Var(p) => {
                s.push_str("   (VARCHAR\n");
                for (k, x) in p.iter().enumerate() {
                    if let Some(x) = x {
                        s.push_str(&format!("      ({} {})\n", ["TOP", "MID", "BOT", "REP"][k], pl_char(*x, 3)));
                    }
                }
                s.push_str("      )\n");
            }
        }
        s.push_str("   )\n");
    }
    let (first, len) = g.cycle;
    for k in 0..len {
        let c = first as u16 + k;
        let next = if k + 1 == len { first as u16 } else { c + 1 };
        s.push_str(&format!("(CHARACTER D {} (CHARWD R 1.0) (NEXTLARGER D {}))\n", c % 256, next % 256));
    }
    if let Some((first, n, style)) = g.varchars {
        for k in 0..n {
            let c = (first as u16 + k) % 256;
            s.push_str(&format!("(CHARACTER D {c}"));
            if style & 1 != 0 {
                s.push_str(&format!(" (CHARWD R {}.{})", k % 16, k));
            }
            s.push_str(" (VARCHAR");
            for (j, name) in ["TOP", "MID", "BOT"].iter().enumerate() {
                if (style >> (1 + j)) & 1 != 0 && (k + j as u16) % 3 != 0 {
                    s.push_str(&format!(" ({name} D {})", (c + 1 + j as u16 * 7) % 256));
                }
            }
            s.push_str(&format!(" (REP D {})))\n", if style & 16 != 0 { (c + 128) % 256 } else { c }));
        }
    }
    if !g.lig_first {
        lig(&mut s);
    }
    s
}

fn gen_pl_strategy() -> BoxedStrategy<GenPl> {
    let dim = prop::option::weighted(0.6, (any::<u8>(), any::<u32>()));
    let tag = prop_oneof![
        5 => Just(GTag::None),
        2 => any::<u8>().prop_map(|c| GTag::Next(pool_code(c))),
        1 => any::<[Option<u8>; 4]>().prop_map(|p| GTag::Var(p.map(|x| x.map(pool_code)))),
    ];
    let ch = (any::<u8>(), [dim.clone(), dim.clone(), dim.clone(), dim], tag).prop_map(|(c, dims, tag)| GChar { code: pool_code(c), dims, tag });
    let many_dims = (any::<u8>(), any::<u8>(), any::<u32>()).prop_map(|(c, sel, raw)| GChar { code: c, dims: [Some((sel, raw)), Some((sel.rotate_left(1), raw.rotate_left(7))), Some((sel.rotate_left(2), raw.rotate_left(13))), Some((sel.rotate_left(3), raw.rotate_left(19)))], tag: GTag::None });
    // All 256 codes declared (in shuffled order), every character with its own four dimensions: more than 255 distinct
    // widths (and far more than 15/15/63 heights, depths, italic corrections), so every `compress` runs at its limit and
    // char_info is written for the full range 0..=255; a few codes are declared twice (PLtoTF keeps the overwritten
    // dimensions in the tables) and a few carry tags.
    let all_codes = (
        Just((0..=255u8).collect::<Vec<u8>>()).prop_shuffle(),
        prop::collection::vec((any::<u8>(), any::<u32>(), any::<u8>()), 256),
        prop::collection::vec((any::<u8>(), any::<u8>(), any::<u32>()), 0..40),
        0u8..4,
    )
        .prop_map(|(codes, dims, dups, mode)| {
            let four = |sel: u8, raw: u32| [Some((sel, raw)), Some((sel.rotate_left(1), raw.rotate_left(7))), Some((sel.rotate_left(2), raw.rotate_left(13))), Some((sel.rotate_left(3), raw.rotate_left(19)))];
            let mut v: Vec<GChar> = codes
                .iter()
                .zip(dims.iter())
                .map(|(c, (sel, raw, t))| {
                    // mode 0: everything distinct; 1: widths distinct, the rest from small sets; 2: widths in a narrow band
                    // (many nearly equal values: the binary search of `compress` decides between adjacent deltas); 3: mixed tags
                    let mut d = four(*sel, *raw);
                    // widths: mostly from the selectors that give pairwise different values (so that more than 255 survive)
                    if matches!(sel % 32, 22..=24 | 26..=28) && t % 4 != 0 {
                        d[0] = Some((sel & 0x80, *raw));
                    }
                    if mode == 1 {
                        for k in 1..4 {
                            // twelve small values (selector 0 maps raw to raw - 2^20)
                            d[k] = Some((0, (raw >> (4 * k)) % 12 * 4096 + (1 << 20)));
                        }
                    }
                    if mode == 2 {
                        d[0] = Some((0, (1 << 20) + raw % 60000));
                    }
                    let tag = match (mode, t % 16) {
                        (3, 0..=3) => GTag::Next(c.wrapping_add(1)),
                        (3, 4..=7) => GTag::Var([Some(*c), None, Some(c.wrapping_add(3)), Some(*c)]),
                        (_, 15) => GTag::Next(c.wrapping_add(t % 5)),
                        _ => GTag::None,
                    };
                    GChar { code: *c, dims: d, tag }
                })
                .collect();
            for (c, sel, raw) in dups {
                v.push(GChar { code: c, dims: four(sel, raw), tag: GTag::None });
            }
            v
        });
    let chars = prop_oneof![
        18 => prop::collection::vec(ch.clone(), 0..10),
        3 => prop::collection::vec(many_dims, 16..200),
        3 => prop::collection::vec(ch, 10..60),
        2 => all_codes,
    ];
    let l = prop_oneof![
        3 => any::<u8>().prop_map(|c| GLig::Label(pool_code(c))),
        1 => Just(GLig::BoundaryLabel),
        5 => (any::<u8>(), any::<u8>(), any::<u8>()).prop_map(|(k, r, i)| GLig::Lig(k, pool_code(r), pool_code(i))),
        4 => (any::<u8>(), any::<u8>(), any::<u32>()).prop_map(|(r, s, raw)| GLig::Krn(pool_code(r), s, raw)),
        1 => Just(GLig::Stop),
        1 => prop_oneof![0u8..4, any::<u8>()].prop_map(GLig::Skip),
    ];
    (
        chars,
        prop::collection::vec(l, 0..24),
        prop_oneof![8 => Just((0u16, 0u8)), 2 => (256u16..1500, 0u8..8)],
        prop::option::weighted(0.3, any::<u8>().prop_map(pool_code)),
        prop::collection::vec((any::<u8>(), any::<u8>(), any::<u32>()), 0..6),
        prop::collection::vec((prop_oneof![0u8..40, any::<u8>()], any::<u32>()), 0..3),
        any::<u8>(),
        any::<u8>(),
        prop_oneof![6 => Just((0u8, 0u16)), 1 => (any::<u8>(), 1u16..6), 1 => (any::<u8>(), 200u16..=256)],
        any::<bool>(),
        (
            prop::bool::weighted(0.2),
            prop_oneof![
                240 => Just(None),
                20 => (prop_oneof![0u16..4, 200u16..300], prop_oneof![2 => 100u16..=255, 1 => Just(256u16)]).prop_map(Some),
            ],
            // the upper end: 32510 steps called for (PLtoTF's cap) give nl = 32767 with 256 redirects and a boundary entry
            prop_oneof![
                260 => Just(None),
                1 => (-3i8..=2, prop_oneof![1 => 250u16..=255, 3 => Just(256u16)], prop_oneof![3 => Just(3u8), 1 => 0u8..4]).prop_map(Some),
            ],
            prop_oneof![
                19 => Just(None),
                1 => (prop_oneof![Just(0u8), any::<u8>()], prop_oneof![1 => 250u16..=255, 2 => Just(256u16)], any::<u8>()).prop_map(Some),
            ],
        ),
    )
        .prop_map(|(chars, lig, big_lig, boundary, params, header, scheme, design, cycle, lig_first, (seven_bit, late_labels, cap_table, varchars))| GenPl { chars, lig, big_lig, boundary, params, header, scheme, design, cycle, lig_first, seven_bit, late_labels, varchars, cap_table })
        .boxed()
}

#[derive(Debug, Clone, Serialize, Deserialize)]
pub enum TMut {
    DeleteSub { at: u32 },
    DupSub { at: u32, times: u16 },
    SwapSub { a: u32, b: u32 },
    MoveSub { from: u32, to: u32 },
    DropParen { at: u32 },
    AddParen { at: u32, open: bool },
    BadNumber { at: u32, which: u8 },
    Relabel { at: u32, ch: u8, style: u8 },
    Insert { at: u32, what: u8, a: u8, b: u8 },
    Wrap { at: u32, depth: u16, kind: u8 },
    Junk { at: u32, which: u8 },
    Truncate { at: u32 },
    /// Sub-token mutation: one of `GLUE` is inserted at a character boundary *inside* (or at an end of) token `at`, so
    /// non-ASCII, control characters, carriage returns and stray digits/signs sit inside a property name, a number or a `C` value.
    Glue { at: u32, which: u8, off: u32 },
}

/// What `TMut::Glue` inserts.
const GLUE: [&str; 32] = [
    "é", "\u{1F600}", "\u{0}", "\u{7f}", "\t", "\r", "\r\n", "\r\r\n", "\n", "\u{85}", "\u{2028}", "ı", "ſ", "\u{301}", "٣", "Ⅷ", "\u{FEFF}", "\u{1}", "\u{1b}", "\u{80}", "\u{a0}", "\u{ffff}",
    "-", ".", "/", ">", "0", "9", "A", "junk", " ", "\r\r",
];

fn glue_class(which: u8) -> &'static str {
    match which as usize % GLUE.len() {
        0 | 1 | 9..=16 | 19..=21 => "glue:non_ascii_inside_token",
        2 | 3 | 4 | 17 | 18 => "glue:control_char_inside_token",
        5..=8 | 31 => "glue:cr_or_newline_inside_token",
        _ => "glue:ascii_inside_token",
    }
}

#[derive(Debug, Clone, Serialize, Deserialize)]
pub enum PlSrc {
    Corpus(u16),
    Gen(GenPl),
}

#[derive(Debug, Clone, Serialize, Deserialize)]
pub struct PlCase {
    src: PlSrc,
    muts: Vec<TMut>,
    crlf: bool,
    /// Separators of the rendered text: 0 as rendered; 1 TAB for every blank; 2 CR CR LF line ends; 3 lone CR line ends;
    /// 4 a mixture of LF, CR LF, CR CR LF, CR, LF CR line ends and TAB/blank/double blank; 5 a final newline is appended;
    /// 6 no newline at all (one line).
    #[serde(default)]
    sep: u8,
}

type Toks = Vec<Cow<'static, str>>;

/// The balanced subtree starting at the first "(" at or after `p` (wrapping): [start, end).
fn subtree(t: &Toks, p: usize) -> Option<(usize, usize)> {
    let n = t.len();
    if n == 0 {
        return None;
    }
    let start = (0..n).map(|k| (p + k) % n).find(|&k| t[k] == "(")?;
    let mut depth = 0i64;
    for k in start..n {
        match t[k].as_ref() {
            "(" => depth += 1,
            ")" => {
                depth -= 1;
                if depth == 0 {
                    return Some((start, k + 1));
                }
            }
            _ => {}
        }
    }
    Some((start, n))
}

fn owned(s: &str) -> Toks {
    tokenize(s).into_iter().map(|x| Cow::Owned(x.to_string())).collect()
}

const BAD_NUMBERS: [&str; 28] = [
    "D 256", "D 99999999999999999999", "D -1", "O 400", "O 8", "O 777777777777", "H 100", "H FFFFFFFFF", "H G", "R 2048", "R -2048", "R 2047.9999999", "R -2047.9999999",
    "R 99999999999999999999.5", "R 0.99999999999", "R 1.5.5", "R --++- 3", "D", "C", "C (", "F XYZ", "F MRRR", "F", "X 12", "R 16", "R -16.0000001", "O 37777777777", "O 40000000000",
];

const NUM_PREFIX: [&str; 12] = ["D", "O", "H", "R", "C", "F", "d", "o", "h", "r", "c", "f"];
const CHAR_KEYS: [&str; 17] = ["CHARACTER", "LABEL", "NEXTLARGER", "LIG", "/LIG", "/LIG>", "LIG/", "LIG/>", "/LIG/", "/LIG/>", "/LIG/>>", "KRN", "TOP", "MID", "BOT", "REP", "BOUNDARYCHAR"];

fn insert_snippet(what: u8, a: u8, b: u8) -> String {
    let (ca, cb) = (pool_code(a), pool_code(b));
    match what % 24 {
        0 => format!("(LIGTABLE (LABEL D {ca}) (KRN D {cb} R 1.0) (STOP))"),
        1 => format!("(LIGTABLE (LABEL D {ca}) (LIG D {cb} D {ca}) (/LIG D {ca} D {cb}))"),
        2 => format!("(LIGTABLE (LABEL BOUNDARYCHAR) (/LIG/ D {ca} D {cb}) (STOP))"),
        3 => format!("(BOUNDARYCHAR D {ca})"),
        4 => format!("(CHARACTER D {ca} (NEXTLARGER D {cb}))"),
        5 => format!("(CHARACTER D {ca} (VARCHAR (TOP D {cb}) (MID D {ca}) (BOT D {cb}) (REP D {cb})))"),
        6 => format!("(CHARACTER D {ca} (CHARWD {}) (CHARHT {}) (CHARDP {}) (CHARIC {}))", pl_real(b, a as u32 * 77777), pl_real(b >> 1, 12345), pl_real(b >> 2, 999), pl_real(b >> 3, 5)),
        7 => format!("(HEADER D {a} O {b:o})"),
        8 => format!("(FONTDIMEN (PARAMETER D {a} R 1.0) (SLANT R -0.25))"),
        9 => format!("(LIGTABLE (SKIP D {a}) (STOP) (KRN D {cb} R 0.5) (SKIP D {b}))"),
        10 => ["(CODINGSCHEME TEX MATH SYMBOLS)", "(CODINGSCHEME TEX MATH EXTENSION)", "(CODINGSCHEME (A)(B))", "(FAMILY ÄÖÜ\u{1F600}x)"][(a % 4) as usize].to_string(),
        11 => "(SEVENBITSAFEFLAG TRUE)".to_string(),
        12 => ["(DESIGNSIZE R 0.5)", "(DESIGNSIZE D 2047)", "(DESIGNUNITS R 0)", "(CHECKSUM O 40000000000)", "(DESIGNSIZE R -1)", "(DESIGNUNITS R -5)"][(a % 6) as usize].to_string(),
        13 => ["(FACE F MRR)", "(FACE F XYZ)", "(FACE D 300)", "(FACE O 22)", "(SEVENBITSAFEFLAG MAYBE)"][(a % 5) as usize].to_string(),
        14 => {
            // NEXTLARGER cycle over `a` characters starting at cb
            let n = a as u16 + 1;
            let mut s = String::new();
            for k in 0..n {
                s.push_str(&format!("(CHARACTER D {} (NEXTLARGER D {}))", (cb as u16 + k) % 256, (cb as u16 + (k + 1) % n) % 256));
            }
            s
        }
        15 => {
            // > 255 lig/kern steps with a late label
            let n = 256 + 4 * b as usize;
            let mut s = format!("(LIGTABLE (LABEL D {ca})");
            for k in 0..n {
                s.push_str(&format!("(KRN D {} R 0.{})", k % 256, k));
            }
            s.push_str(&format!("(LABEL D {cb})(LIG D {ca} D {cb}))"));
            s
        }
        16 => "(COMMENT ((( unbalanced )".to_string(),
        17 => format!("(LABEL D {ca})"),
        18 => format!("(NEXTLARGER D {ca})"),
        19 => format!("(CHARWD R {}.5)", a as u32 * 9),
        20 => format!("(LIGTABLE (LABEL D {ca}) (LABEL D {cb}) (LABEL BOUNDARYCHAR))"),
        21 => format!("(VARCHAR (REP D {ca}))"),
        22 => format!("(CHARACTER D {ca} (CHARWD R 1) (CHARWD R 2) (CHARHT R {}) (CHARHT R 3))", b),
        _ => format!("(KRN D {ca} R -{}.25)", b),
    }
}

fn apply_tmut(t: &mut Toks, m: &TMut) {
    let n = t.len();
    match m {
        TMut::DeleteSub { at } => {
            if let Some((s, e)) = subtree(t, scale(*at, n)) {
                t.drain(s..e);
            }
        }
        TMut::DupSub { at, times } => {
            if let Some((s, e)) = subtree(t, scale(*at, n)) {
                let sub: Toks = t[s..e].to_vec();
                // bounded work: at most ~40000 inserted tokens
                let times = (*times as usize).min(40000 / sub.len().max(1)).max(1);
                let mut ins: Toks = Vec::with_capacity(sub.len() * times);
                for _ in 0..times {
                    ins.extend(sub.iter().cloned());
                }
                t.splice(e..e, ins);
            }
        }
        TMut::SwapSub { a, b } => {
            if let (Some(x), Some(y)) = (subtree(t, scale(*a, n)), subtree(t, scale(*b, n))) {
                let (x, y) = if x.0 <= y.0 { (x, y) } else { (y, x) };
                if x.1 <= y.0 {
                    let sx: Toks = t[x.0..x.1].to_vec();
                    let sy: Toks = t[y.0..y.1].to_vec();
                    t.splice(y.0..y.1, sx);
                    t.splice(x.0..x.1, sy);
                }
            }
        }
        TMut::MoveSub { from, to } => {
            if let Some((s, e)) = subtree(t, scale(*from, n)) {
                let sub: Toks = t.drain(s..e).collect();
                let p = scale(*to, t.len() + 1);
                t.splice(p..p, sub);
            }
        }
        TMut::DropParen { at } => {
            let p = scale(*at, n);
            if let Some(k) = (0..n).map(|k| (p + k) % n).find(|&k| t[k] == "(" || t[k] == ")") {
                t.remove(k);
            }
        }
        TMut::AddParen { at, open } => {
            let p = scale(*at, n + 1);
            t.insert(p, Cow::Borrowed(if *open { "(" } else { ")" }));
        }
        TMut::BadNumber { at, which } => {
            let p = scale(*at, n);
            if let Some(k) = (0..n).map(|k| (p + k) % n).find(|&k| k > 0 && k + 1 < n && NUM_PREFIX.contains(&t[k].as_ref()) && t[k - 1] != "(" && t[k + 1] != "(" && t[k + 1] != ")") {
                let rep = owned(BAD_NUMBERS[(*which as usize) % BAD_NUMBERS.len()]);
                t.splice(k..k + 2, rep);
            }
        }
        TMut::Relabel { at, ch, style } => {
            let p = scale(*at, n);
            if let Some(k) = (0..n).map(|k| (p + k) % n).find(|&k| k + 2 < n && CHAR_KEYS.contains(&t[k].to_ascii_uppercase().as_str()) && NUM_PREFIX.contains(&t[k + 1].as_ref())) {
                let c = if style & 0x80 != 0 { *ch } else { pool_code(*ch) };
                let end = if t[k + 2] == "(" || t[k + 2] == ")" { k + 2 } else { k + 3 };
                t.splice(k + 1..end, owned(&pl_char(c, *style)));
            }
        }
        TMut::Insert { at, what, a, b } => {
            let p = scale(*at, n + 1);
            // prefer a list boundary: move forward to just before a "(" or ")"
            let p = (p..=n).find(|&k| k == n || t[k] == "(" || t[k] == ")").unwrap_or(n);
            t.splice(p..p, owned(&insert_snippet(*what, *a, *b)));
        }
        TMut::Wrap { at, depth, kind } => {
            if let Some((s, e)) = subtree(t, scale(*at, n)) {
                let d = (*depth as usize).min(5000);
                let head: &[&'static str] = match kind % 4 {
                    0 => &["(", "COMMENT"],
                    1 => &["(", "CHARACTER", "C", "A"],
                    2 => &["(", "LIGTABLE"],
                    _ => &["(", "VARCHAR"],
                };
                let close = kind & 4 == 0;
                if close {
                    let tail: Toks = std::iter::repeat(Cow::Borrowed(")")).take(d).collect();
                    t.splice(e..e, tail);
                }
                let mut pre: Toks = Vec::with_capacity(d * head.len());
                for _ in 0..d {
                    pre.extend(head.iter().map(|x| Cow::Borrowed(*x)));
                }
                t.splice(s..s, pre);
            }
        }
        TMut::Junk { at, which } => {
            let p = scale(*at, n + 1);
            let j = ["junk", "\u{7f}", "é", "\u{1F600}", "\t", "\u{0}", "/LIG/>>>", "COMMENT", "(COMMENT", "R", "-", "\r"][(*which % 12) as usize];
            t.insert(p, Cow::Borrowed(j));
        }
        TMut::Truncate { at } => {
            let p = scale(*at, n + 1);
            t.truncate(p);
        }
        TMut::Glue { at, which, off } => {
            if n > 0 {
                let k = scale(*at, n);
                let tok = t[k].to_string();
                let mut bounds: Vec<usize> = tok.char_indices().map(|(i, _)| i).collect();
                bounds.push(tok.len());
                let cut = bounds[scale(*off, bounds.len())];
                t[k] = Cow::Owned(format!("{}{}{}", &tok[..cut], GLUE[*which as usize % GLUE.len()], &tok[cut..]));
            }
        }
    }
}

fn tmut_strategy() -> BoxedStrategy<TMut> {
    prop_oneof![
        3 => any::<u32>().prop_map(|at| TMut::DeleteSub { at }),
        3 => (any::<u32>(), prop_oneof![4 => 1u16..4, 1 => 250u16..400]).prop_map(|(at, times)| TMut::DupSub { at, times }),
        2 => (any::<u32>(), any::<u32>()).prop_map(|(a, b)| TMut::SwapSub { a, b }),
        2 => (any::<u32>(), any::<u32>()).prop_map(|(from, to)| TMut::MoveSub { from, to }),
        3 => any::<u32>().prop_map(|at| TMut::DropParen { at }),
        3 => (any::<u32>(), any::<bool>()).prop_map(|(at, open)| TMut::AddParen { at, open }),
        4 => (any::<u32>(), any::<u8>()).prop_map(|(at, which)| TMut::BadNumber { at, which }),
        4 => (any::<u32>(), any::<u8>(), any::<u8>()).prop_map(|(at, ch, style)| TMut::Relabel { at, ch, style }),
        5 => (any::<u32>(), any::<u8>(), any::<u8>(), any::<u8>()).prop_map(|(at, what, a, b)| TMut::Insert { at, what, a, b }),
        1 => (any::<u32>(), prop_oneof![3 => 1u16..6, 1 => 100u16..3000], any::<u8>()).prop_map(|(at, depth, kind)| TMut::Wrap { at, depth, kind }),
        2 => (any::<u32>(), any::<u8>()).prop_map(|(at, which)| TMut::Junk { at, which }),
        1 => any::<u32>().prop_map(|at| TMut::Truncate { at }),
        5 => (any::<u32>(), any::<u8>(), any::<u32>()).prop_map(|(at, which, off)| TMut::Glue { at, which, off }),
    ]
    .boxed()
}

fn tmut_class(m: &TMut) -> &'static str {
    match m {
        TMut::DeleteSub { .. } => "mut:delete_subtree",
        TMut::DupSub { .. } => "mut:duplicate_subtree",
        TMut::SwapSub { .. } => "mut:swap_subtrees",
        TMut::MoveSub { .. } => "mut:move_subtree",
        TMut::DropParen { .. } => "mut:drop_paren",
        TMut::AddParen { .. } => "mut:add_paren",
        TMut::BadNumber { .. } => "mut:out_of_range_number",
        TMut::Relabel { .. } => "mut:relabel_character",
        TMut::Insert { .. } => "mut:insert_snippet",
        TMut::Wrap { .. } => "mut:deep_nesting",
        TMut::Junk { .. } => "mut:junk_token",
        TMut::Truncate { .. } => "mut:truncate",
        TMut::Glue { .. } => "mut:glue_inside_token",
    }
}

fn pl_case_strategy(n_corpus: usize) -> BoxedStrategy<PlCase> {
    let src = prop_oneof![
        1 => (0..n_corpus.max(1) as u16).prop_map(PlSrc::Corpus),
        1 => gen_pl_strategy().prop_map(PlSrc::Gen),
    ];
    (src, prop::collection::vec(tmut_strategy(), 0..=4), prop::bool::weighted(0.1), prop_oneof![12 => Just(0u8), 6 => 1u8..=6]).prop_map(|(src, muts, crlf, sep)| PlCase { src, muts, crlf, sep }).boxed()
}

fn apply_sep(s: String, sep: u8) -> String {
    match sep {
        1 => s.replace(' ', "\t"),
        2 => s.replace('\n', "\r\r\n"),
        3 => s.replace('\n', "\r"),
        4 => {
            let mut out = String::with_capacity(s.len() + s.len() / 8);
            let mut k = 0usize;
            for c in s.chars() {
                match c {
                    '\n' => {
                        out.push_str(["\n", "\r\n", "\r\r\n", "\r", "\n\r"][k % 5]);
                        k += 1;
                    }
                    ' ' => {
                        out.push_str([" ", "\t", "  ", " "][k % 4]);
                        k += 3;
                    }
                    c => out.push(c),
                }
            }
            out
        }
        5 => s + "\n",
        6 => s.replace('\n', " "),
        _ => s,
    }
}

fn build_pl(c: &PlCase) -> Option<String> {
    let mut toks: Toks = match &c.src {
        PlSrc::Corpus(i) => corpus().pl_tokens.get(*i as usize)?.iter().map(|x| Cow::Borrowed(*x)).collect(),
        PlSrc::Gen(g) => owned(&render_gen(g)),
    };
    for m in &c.muts {
        apply_tmut(&mut toks, m);
    }
    let mut s = apply_sep(render_tokens(&toks), c.sep);
    if c.crlf {
        s = s.replace('\n', "\r\n");
    }
    Some(s)
}

/// Structural classes of the final text, computed independently of the crate.
fn pl_text_classes(text: &str, case: &mut Case) {
    let toks = tokenize(text);
    let mut depth = 0i64;
    let mut max_depth = 0i64;
    let mut unbalanced_close = false;
    let mut first_char: Option<u32> = None;
    let mut chars: Vec<u32> = vec![];
    let mut labels: Vec<u32> = vec![];
    let mut steps = 0usize;
    let mut widths: Vec<&str> = vec![];
    let mut varchars = 0usize;
    let val = |k: usize| -> Option<u32> {
        let p = toks.get(k + 1)?.to_ascii_uppercase();
        let v = toks.get(k + 2)?;
        match p.as_str() {
            "C" => v.chars().next().map(|c| c as u32),
            "D" => v.parse().ok(),
            "O" => u32::from_str_radix(v, 8).ok(),
            "H" => u32::from_str_radix(v, 16).ok(),
            _ => None,
        }
    };
    // depth at which a COMMENT was opened (its contents are not property list elements)
    let mut comment: Option<i64> = None;
    for (k, t) in toks.iter().enumerate() {
        match *t {
            "(" => {
                depth += 1;
                max_depth = max_depth.max(depth);
            }
            ")" => {
                if comment == Some(depth) {
                    comment = None;
                }
                depth -= 1;
                if depth < 0 {
                    unbalanced_close = true;
                    depth = 0;
                }
            }
            _ => {
                if k > 0 && toks[k - 1] == "(" && comment.is_none() {
                    let key = t.to_ascii_uppercase();
                    if key == "COMMENT" {
                        comment = Some(depth);
                    } else if key == "CHARACTER" {
                        if let Some(c) = val(k) {
                            first_char.get_or_insert(c);
                            chars.push(c);
                        }
                    } else if key == "LABEL" {
                        if let Some(c) = val(k) {
                            labels.push(c);
                        }
                    } else if key == "KRN" || key.contains("LIG") && key != "LIGTABLE" {
                        steps += 1;
                    } else if key == "CHARWD" {
                        if let Some(v) = toks.get(k + 2) {
                            widths.push(v);
                        }
                    } else if key == "VARCHAR" {
                        varchars += 1;
                    }
                }
            }
        }
    }
    let min_char = chars.iter().min().copied();
    case.class_if(depth > 0, "text:unclosed_paren");
    case.class_if(unbalanced_close, "text:extra_close_paren");
    case.class_if(max_depth >= 100, "text:depth>=100");
    case.class_if(steps > 255, "text:>255_lig_kern_steps");
    case.class_if(labels.iter().any(|l| !chars.contains(l)), "text:label_for_undeclared_char");
    case.class_if(min_char.is_some_and(|m| labels.iter().any(|l| *l < m)), "text:label_below_first_character");
    case.class_if(chars.len() > 200, "text:>200_characters");
    case.class_if(steps >= 32000, "text:>=32000_lig_kern_steps");
    case.class_if(steps >= MAX_STEPS as usize, "text:lig_kern_steps_at_or_over_the_cap_32510");
    case.class_if(varchars >= 250, "text:>=250_varchars");
    case.class_if(varchars >= 256, "text:>=256_varchars");
    chars.sort();
    chars.dedup();
    case.class_if(chars.len() == 256 && chars[255] == 255, "text:all_256_codes_declared");
    widths.sort();
    widths.dedup();
    case.class_if(widths.len() > 255, "text:>255_different_charwd_values");
    case.class_if(!text.is_ascii(), "text:non_ascii");
    case.class_if(text.bytes().any(|b| b < 32 && b != b'\n' && b != b'\r' || b == 127), "text:control_chars");
    case.class_if(text.contains('\t'), "text:tab");
    case.class_if(text.contains("\r\r\n"), "text:cr_cr_lf");
    case.class_if(text.as_bytes().windows(2).any(|w| w[0] == b'\r' && w[1] != b'\n' && w[1] != b'\r') || text.ends_with('\r'), "text:lone_cr");
    case.class_if(text.ends_with('\n'), "text:ends_with_newline");
}

fn pl_oracle(ctx: &Ctx, c: &PlCase, case: &mut Case) -> Verdict {
    let Some(text) = build_pl(c) else { return Verdict::Skip("no such corpus file") };
    match &c.src {
        PlSrc::Corpus(i) => {
            case.class("src:corpus");
            case.note = Some(format!("{} + {:?} => {}", corpus().pl[*i as usize].0, c.muts, snippet(&text, 300)));
        }
        PlSrc::Gen(g) => {
            case.class("src:generated");
            case.class_if(g.cycle.1 >= 200, "gen:huge_nextlarger_cycle");
            case.class_if(g.big_lig.0 > 0, "gen:big_ligtable");
            case.class_if(g.late_labels.is_some_and(|l| l.1 == 256), "gen:256_late_labels");
            case.class_if(g.cap_table.is_some(), "gen:lig_table_at_the_cap");
            case.class_if(g.cap_table.is_some_and(|c| c.0 <= 0 && c.1 == 256 && c.2 == 3), "gen:lig_table_calling_for_nl=32767");
            case.class_if(g.varchars.is_some(), "gen:250..256_varchars");
            case.class_if(g.varchars.is_some_and(|v| v.1 == 256), "gen:256_varchars");
            case.class_if(g.chars.len() >= 256, "gen:all_codes_with_own_dimensions");
            case.note = Some(snippet(&text, 500));
        }
    }
    case.class_if(c.muts.is_empty(), "mut:none");
    for m in &c.muts {
        let cl = tmut_class(m);
        if !case.classes.contains(&cl) {
            case.class(cl);
        }
        if let TMut::Glue { which, .. } = m {
            let cl = glue_class(*which);
            if !case.classes.contains(&cl) {
                case.class(cl);
            }
        }
    }
    case.class_if(c.sep != 0, ["sep:as_rendered", "sep:tab_for_blank", "sep:cr_cr_lf", "sep:lone_cr", "sep:mixed_line_ends", "sep:final_newline", "sep:one_line"][(c.sep as usize).min(6)]);
    pl_text_classes(&text, case);
    pl_case(ctx, &text, case)
}

// ------------------------------------------------------------------------------------
// Sub-check 5: nesting on the stack the binaries have
//
// The workers of this harness have 1 GiB stacks, so recursion over the nesting of the input cannot be observed
// in-process, and a stack overflow is not a panic: it aborts the process. `pltotf` converts on its main thread
// (8 MiB). Each case is therefore converted in a child process (this executable, replaying the case) on a thread
// with an 8 MiB stack; the parent only looks at how the child ended.

const FLAG_SMALL_STACK: &str = "flag:deep_nesting_overflows_the_8_MiB_stack";
const NEST_UNITS: [&str; 6] = ["(", "(A ", "(CHARACTER C A ", "(LIGTABLE ", "(CHARACTER C A (VARCHAR (TOP C A ", "(COMMENT "];

#[derive(Debug, Clone, Serialize, Deserialize)]
pub struct Nest {
    /// index into `NEST_UNITS` (unit 4: the unit once, then "(" repeated)
    unit: u8,
    depth: u32,
    /// followed by `depth` closing parentheses
    close: bool,
    /// Set in the copy handed to the child process: convert here, on an 8 MiB thread.
    #[serde(default)]
    inner: bool,
}

fn nest_text(n: &Nest) -> String {
    let u = NEST_UNITS[n.unit as usize % NEST_UNITS.len()];
    let d = n.depth as usize;
    let mut s = String::with_capacity(d * (u.len() + 1) + 64);
    if n.unit as usize % NEST_UNITS.len() == 4 {
        s.push_str(u);
        for _ in 0..d {
            s.push('(');
        }
    } else {
        for _ in 0..d {
            s.push_str(u);
        }
    }
    if n.close {
        for _ in 0..d {
            s.push(')');
        }
    }
    s
}

fn nest_oracle(ctx: &Ctx, n: &Nest, case: &mut Case) -> Verdict {
    case.note = Some(format!("{:?} x {}{}", NEST_UNITS[n.unit as usize % NEST_UNITS.len()], n.depth, if n.close { " closed" } else { " unclosed" }));
    if n.inner {
        let text = nest_text(n);
        let h = std::thread::Builder::new().stack_size(8 << 20).spawn(move || {
            let (bytes, warnings) = tfm::algorithms::pl_to_tfm(&text);
            // what pltotf prints: the first and the last few warnings are enough here (the text is long)
            let k = warnings.len();
            let mut m = 0usize;
            for w in warnings.iter().take(3).chain(warnings.iter().skip(k.saturating_sub(3).max(3))) {
                m += w.pltotf_message(&text).len();
            }
            (bytes.len(), k, m)
        });
        return match h.map(|h| h.join()) {
            Ok(Ok(_)) => Verdict::pass(true),
            Ok(Err(_)) => Verdict::Fail("pl_to_tfm (or pltotf_message) panics on an 8 MiB stack".into()),
            Err(_) => Verdict::Skip("could not start the 8 MiB thread"),
        };
    }
    let Ok(exe) = std::env::current_exe() else { return Verdict::Skip("own executable unknown") };
    let inner = Nest { inner: true, ..n.clone() };
    let body = serde_json::json!({"property": ctx.prop, "sub": "small_stack_nesting", "case": inner});
    let path = std::env::temp_dir().join(format!("c10-nest-{}-{}-{}-{}.json", std::process::id(), n.unit, n.depth, n.close));
    if std::fs::write(&path, body.to_string()).is_err() {
        return Verdict::Skip("could not write the child's case file");
    }
    let out = std::process::Command::new(exe).arg(ctx.prop).arg("--replay").arg(&path).env("VP_VERIF_DIR", &ctx.verif_dir).stdin(std::process::Stdio::null()).output();
    let _ = std::fs::remove_file(&path);
    let Ok(out) = out else { return Verdict::Skip("could not start the child process") };
    let stderr = String::from_utf8_lossy(&out.stderr);
    case.class_if(n.depth >= 250_000, "nest:depth>=250000_on_8MiB_stack");
    match out.status.code() {
        Some(0) => Verdict::pass(true),
        Some(1) => Verdict::Fail(format!("converted on an 8 MiB stack in a child process: {}", snippet(&String::from_utf8_lossy(&out.stdout), 600))),
        _ if stderr.contains("overflowed its stack") => {
            if ctx.known(FLAG_SMALL_STACK) {
                Verdict::Known(FLAG_SMALL_STACK.into())
            } else {
                Verdict::Fail(format!(
                    "pl_to_tfm does not return: nesting depth {} overflows an 8 MiB stack (the main thread of pltotf) and the process aborts: {}",
                    n.depth,
                    snippet(stderr.trim(), 200)
                ))
            }
        }
        _ => Verdict::Skip("child process did not finish (infrastructure)"),
    }
}

fn nest_cases(ctx: &Ctx) -> Vec<Nest> {
    let mut v = vec![];
    for unit in 0..NEST_UNITS.len() as u8 {
        for close in [false, true] {
            // PLtoTF keeps one counter for the nesting level; 10^6 levels are a text of 1-2 MB
            let deep = if unit < 2 { 1_000_000 } else { 300_000 };
            v.push(Nest { unit, depth: deep, close, inner: false });
            if ctx.tier == Tier::Thorough {
                v.push(Nest { unit, depth: 20_000, close, inner: false });
                v.push(Nest { unit, depth: 150_000, close, inner: false });
            }
        }
    }
    v
}

pub fn run(ctx: &Ctx) {
    run_fuzz_raw(ctx, fuzz_entry);
    ctx.rule("TFM side: a case is one byte string (header sweep: a base file with one of its twelve 16-bit header words set to a value; truncations and byte mutations of corpus fonts; size-consistent random files decoded from generated integers); PL side: one text (token-level and sub-token mutations of corpus and generated property lists, rendered with blank/TAB/LF/CR LF/CR CR LF/CR separators; generated lists include all 256 codes with more than 255 different widths, 250..=256 VARCHAR characters, lig tables at PLtoTF's cap of 32510 steps with 256 late labels). Non-trivial = the input was rejected with a documented error or produced at least one warning; distinct by content (sweep/truncations: by construction).");
    ctx.assume("Outcome of tfm_to_pl is compared with an independent transcription of TFtoPL 2014 sections 20-21; where TFtoPL and the crate's documentation differ (ne = 256; empty character range with ec > 255; lf in 4..=5) every documented non-panicking outcome is accepted.");
    ctx.assume("A listed panic signature excuses a case only inside the input zone derived for it (D19: lf in 4..=5 and lf*4 <= len < 24; D20: all earlier header checks pass and the sizes sum past 32767); other listed signatures are matched by (file, message).");
    ctx.assume("pl_to_tfm output must satisfy 4*lf = len exactly (definition of lf in the TFM format) in addition to being accepted by File::deserialize.");
    ctx.assume("Beyond the literal statement, for accepted TFM files a second validate_and_fix pass must not report again any warning kind whose TFtoPL message states the repair (indices reset, values zeroed, skips stopped, labels removed, NEXTLARGER cycles broken): the mechanism the property names.");
    ctx.assume("Nesting depth of generated property lists is at most 5000 per mutation on the 1 GiB worker stacks; nesting against the stack the pltotf binary has (8 MiB main thread) is checked by the sub-check small_stack_nesting, which converts directed texts of depth up to 10^6 in a child process (a stack overflow aborts the process and cannot be caught in-process); a child that cannot be started or is killed for other reasons is counted as skipped, never as a verdict.");
    ctx.assume("'Returns ... plus warnings' includes what the two anchored binaries do with every returned warning and error: turning it into its text (pltotf_message(text) / tftopl_message()); a panic there is a violation. When the summed context offsets of a case exceed 4*10^5 characters (thorough: 3*10^6) a deterministic sample of its warnings is rendered (first of every kind, first and last four, evenly spaced others up to that budget); in the header sweep one value in 251.");
    ctx.assume("'Always returns' is bounded by work, not time: every table of the pl_to_tfm output (lh nw nh nd ni nl nk ne np) is at most as long as the text can call for, counted from the text alone (LIG/KRN/CHARWD/... occurrences, PLtoTF's cap of 32510 steps + 257 entry words). The listed finding flag:pl_output_longer_than_32767_words excuses only outputs whose text calls for more than 32767 words and whose tables are consistent with the length and within these bounds. A conversion that does not terminate shows up as a stuck run (engine level), not as a verdict.");
    if ctx.is_generate() {
        calibrate(ctx);
    }
    let c = corpus();
    if c.tfm.len() < 90 || c.pl.len() < 90 {
        // infrastructure, not a verdict: without the corpus most sub-checks would silently have nothing to do
        eprintln!("C10: corpus {CORPUS_DIR} unreadable or incomplete ({} .tfm, {} .pl/.plst files; expected at least 90 of each)", c.tfm.len(), c.pl.len());
        std::process::exit(2);
    }
    run_list(ctx, "directed", directed_cases(), |r: &Raw, case| raw_oracle(ctx, r, case));
    run_list(ctx, "small_stack_nesting", nest_cases(ctx), |n: &Nest, case| nest_oracle(ctx, n, case));
    header_sweep(ctx);
    truncations(ctx);
    let n = ctx.tier.pick(40_000, 800_000);
    run_generated(ctx, "corpus_mutations", n, || mut_case_strategy(c.tfm.len()), |m: &MutCase, case| mut_oracle(ctx, m, case));
    let n = ctx.tier.pick(40_000, 1_000_000);
    run_generated(ctx, "random_consistent", n, rc_strategy, |r: &Rc, case| rc_oracle(ctx, r, case));
    // every corpus property list as it is
    run_indexed(ctx, "pl_corpus_plain", c.pl.len() as u64, true, |i| i as u16, |i: &u16, case| {
        let Some((name, text)) = c.pl.get(*i as usize) else { return Verdict::Skip("no such corpus file") };
        case.note = Some(name.clone());
        pl_case(ctx, text, case)
    });
    let n = ctx.tier.pick(24_000, 500_000);
    run_generated(ctx, "pl_mutations", n, || pl_case_strategy(c.pl.len()), |p: &PlCase, case| pl_oracle(ctx, p, case));
}


/// Entry point shared by the libFuzzer target and the `fuzz_raw` replay sub-check: the first byte
/// selects the reader (even: bytes as a .tfm file, odd: text as a .pl file).
pub fn fuzz_entry(ctx: &Ctx, data: &[u8]) -> Verdict {
    let Some((sel, rest)) = data.split_first() else { return Verdict::pass(false) };
    let mut case = Case::default();
    if sel % 2 == 0 {
        tfm_case(ctx, rest, (*sel / 2) as u64, true, &mut case)
    } else {
        let text = String::from_utf8_lossy(rest).to_string();
        let mut sink = Sink { case: Some(&mut case) };
        match check_pl(ctx, &text, false, &mut sink) {
            Ok(_) => Verdict::pass(true),
            Err(v) => v,
        }
    }
}
