//! C03 Lexing follows TeX's scanner; every token traces to its source position.
//!
//! Oracle: `models::tex_lexer` (transcription of TeX §343–§356) against `texlang::token::lexer::Lexer`
//! driven through its public API with a harness-owned `lexer::Config` (category table + end-line
//! character supplied by the case), in both `report_end_of_line` modes, with `Tracer::trace` applied
//! to every delivered token.

use crate::engine::*;
use crate::models::tex_lexer as model;
use crate::models::tex_lexer::{Deviations, Item, SourceLine};
use proptest::prelude::*;
use serde::{Deserialize, Serialize};
use std::collections::BTreeSet;
use texlang::token::lexer;
use texlang::token::trace;
use texlang::token::{CommandRef, CsNameInterner, Token, Value};
use texlang::types::CatCode;

// ------------------------------------------------------------------------------------------------
// Case and configuration

#[derive(Clone, Debug, Serialize, Deserialize, PartialEq, Eq)]
pub struct LexCase {
    /// The source text.
    pub src: String,
    /// Category codes that differ from the plain-TeX default table (ASCII: the repository's
    /// `CatCode::PLAIN_TEX_DEFAULTS`; everything else: 12).
    pub cats: Vec<(char, u8)>,
    /// `\endlinechar`.
    pub endline: Option<char>,
}

pub fn plain_default(c: char) -> u8 {
    if (c as u32) < 128 {
        CatCode::PLAIN_TEX_DEFAULTS[c as usize] as u8
    } else {
        model::OTHER
    }
}

pub struct Cfg {
    ascii: [u8; 128],
    other: Vec<(char, u8)>,
    endline: Option<char>,
}

impl Cfg {
    pub fn new(cats: &[(char, u8)], endline: Option<char>) -> Cfg {
        let mut ascii = [0u8; 128];
        for (i, a) in ascii.iter_mut().enumerate() {
            *a = CatCode::PLAIN_TEX_DEFAULTS[i] as u8;
        }
        let mut other = vec![];
        for &(c, k) in cats {
            let k = k & 15;
            if (c as u32) < 128 {
                ascii[c as usize] = k;
            } else {
                other.retain(|(d, _)| *d != c);
                other.push((c, k));
            }
        }
        Cfg { ascii, other, endline }
    }
    fn code(&self, c: char) -> u8 {
        if (c as u32) < 128 {
            self.ascii[c as usize]
        } else {
            self.other.iter().find(|(d, _)| *d == c).map(|(_, k)| *k).unwrap_or(model::OTHER)
        }
    }
}

impl model::Config for Cfg {
    fn cat(&self, c: char) -> u8 {
        self.code(c)
    }
    fn end_line_char(&self) -> Option<char> {
        self.endline
    }
}

impl lexer::Config for Cfg {
    fn cat_code(&self, c: char) -> CatCode {
        CatCode::try_from(self.code(c)).unwrap()
    }
    fn end_line_char(&self) -> Option<char> {
        self.endline
    }
}

// ------------------------------------------------------------------------------------------------
// Observation of the implementation

#[derive(Clone, Debug, PartialEq, Eq)]
enum Tok {
    Char(char, u8),
    Cs(String),
    Invalid(char),
    EndOfLine,
}

#[derive(Clone, Debug)]
struct Obs {
    tok: Tok,
    /// (line number, column, line content, value) from `Tracer::trace`.
    trace: Option<(usize, usize, String, String)>,
}

const DECOY: &str = "?decoy one\n?decoy two \n?";
const FILE_NAME: &str = "c03.tex";

/// How the configuration may change while the source is being read.
struct Switch<'a> {
    after_calls: usize,
    second: &'a Cfg,
}

fn observe(src: &str, cfg: &Cfg, switch: Option<&Switch>, report: bool, tracer: &mut trace::Tracer, interner: &mut CsNameInterner) -> Result<Vec<Obs>, String> {
    tracer.register_source_code(None, trace::Origin::Terminal, DECOY);
    let range = tracer.register_source_code(None, trace::Origin::File(FILE_NAME.into()), src);
    tracer.register_source_code(None, trace::Origin::Terminal, DECOY);
    let mut lx = lexer::Lexer::new(src.to_string(), range);
    let bound = 2 * src.chars().count() + 8;
    let mut out: Vec<Obs> = vec![];
    let mut calls = 0usize;
    loop {
        let c: &Cfg = match switch {
            Some(s) if calls >= s.after_calls => s.second,
            _ => cfg,
        };
        calls += 1;
        let r = lx.next(c, interner, report);
        let (tok, token) = match r {
            lexer::Result::Token(t) => {
                let tok = match t.value() {
                    Value::CommandRef(CommandRef::ControlSequence(n)) => Tok::Cs(interner.resolve(n).unwrap().to_string()),
                    Value::CommandRef(CommandRef::ActiveCharacter(c)) => Tok::Char(c, model::ACTIVE),
                    v => {
                        let (c, k) = v.char_and_cat_code().unwrap();
                        Tok::Char(c, k as u8)
                    }
                };
                (tok, Some(t))
            }
            lexer::Result::InvalidCharacter(c, key) => (Tok::Invalid(c), Some(Token::new_letter(c, key))),
            lexer::Result::EndOfLine => (Tok::EndOfLine, None),
            lexer::Result::EndOfInput => break,
        };
        let trace = token.map(|t| {
            let tr = tracer.trace(t, interner);
            let origin_ok = tr.origin == trace::Origin::File(FILE_NAME.into());
            let content = if origin_ok { tr.line_content } else { format!("<origin {:?}> {}", tr.origin, tr.line_content) };
            (tr.line_number, tr.index, content, tr.value)
        });
        out.push(Obs { tok, trace });
        if out.len() > bound {
            return Err(format!("lexer delivered more than {} items for a source of {} characters (no termination)", bound, src.chars().count()));
        }
    }
    // The end of input is stable.
    for _ in 0..2 {
        if !matches!(lx.next(cfg, interner, report), lexer::Result::EndOfInput) {
            return Err("Lexer::next delivered something after EndOfInput".to_string());
        }
    }
    Ok(out)
}

fn model_items(src: &str, cfg: &Cfg, switch: Option<&Switch>, report: bool, dev: Deviations) -> (Vec<Item>, model::Scanner) {
    let mut s = model::Scanner::new(src, dev);
    let mut out = vec![];
    let mut calls = 0usize;
    loop {
        let c: &Cfg = match switch {
            Some(sw) if calls >= sw.after_calls => sw.second,
            _ => cfg,
        };
        calls += 1;
        match s.next(c, report) {
            Item::EndOfInput => break,
            it => out.push(it),
        }
    }
    (out, s)
}

fn show_tok(t: &Tok) -> String {
    match t {
        Tok::Char(c, k) => format!("{:?}/{}", c, k),
        Tok::Cs(n) => format!("\\[{}]", n.escape_debug()),
        Tok::Invalid(c) => format!("invalid({:?})", c),
        Tok::EndOfLine => "<EOL>".to_string(),
    }
}

fn item_tok(it: &Item) -> (Tok, Option<model::Span>) {
    match it {
        Item::Char { ch, cat, span } => (Tok::Char(*ch, *cat), Some(*span)),
        Item::Cs { name, span } => (Tok::Cs(name.clone()), Some(*span)),
        Item::Invalid { ch, span } => (Tok::Invalid(*ch), Some(*span)),
        Item::EndOfLine => (Tok::EndOfLine, None),
        Item::EndOfInput => unreachable!(),
    }
}

fn value_of(t: &Tok) -> String {
    match t {
        Tok::Char(c, _) | Tok::Invalid(c) => c.to_string(),
        Tok::Cs(n) => format!("\\{}", n),
        Tok::EndOfLine => String::new(),
    }
}

/// Compare one run of the implementation with one run of the model: tokens one for one, then the
/// trace of every token.
fn compare(items: &[Item], lines: &[SourceLine], obs: &[Obs]) -> Result<(), String> {
    let want: Vec<(Tok, Option<model::Span>)> = items.iter().map(item_tok).collect();
    let same = want.len() == obs.len() && want.iter().zip(obs).all(|(w, o)| w.0 == o.tok);
    if !same {
        let first = want.iter().zip(obs).position(|(w, o)| w.0 != o.tok).unwrap_or(want.len().min(obs.len()));
        return Err(format!(
            "tokens differ at item {}\n  TeX:  {}\n  impl: {}",
            first,
            want.iter().map(|w| show_tok(&w.0)).collect::<Vec<_>>().join(" "),
            obs.iter().map(|o| show_tok(&o.tok)).collect::<Vec<_>>().join(" ")
        ));
    }
    for (i, (w, o)) in want.iter().zip(obs).enumerate() {
        let (Some(span), Some((ln, col, content, value))) = (&w.1, &o.trace) else { continue };
        let line = &lines[span.line - 1];
        if *ln != span.line {
            return Err(format!("trace of item {} ({}) reports line {}, the token started on line {}", i, show_tok(&w.0), ln, span.line));
        }
        if *content != line.text {
            return Err(format!("trace of item {} ({}) on line {} reports line text {:?}, the source line is {:?}", i, show_tok(&w.0), ln, content, line.text));
        }
        if *col < span.lo || *col > span.hi {
            let kind = if span.end_line {
                "the appended end-line character: any column in [trimmed length, line length]"
            } else if span.reduced {
                "a ^^ reduction: any column of the reduced characters"
            } else {
                "an ordinary source character: exact column"
            };
            return Err(format!(
                "trace of item {} ({}) on line {} {:?} reports column {}, allowed {}..={} ({})",
                i,
                show_tok(&w.0),
                ln,
                line.text,
                col,
                span.lo,
                span.hi,
                kind
            ));
        }
        let v = value_of(&w.0);
        if *value != v {
            return Err(format!("trace of item {} reports value {:?}, expected {:?}", i, value, v));
        }
    }
    Ok(())
}

struct Runs {
    /// Implementation observations for report_end_of_line = false / true.
    obs: [Vec<Obs>; 2],
}

fn run_impl(src: &str, cfg: &Cfg, switch: Option<&Switch>) -> Result<Result<Runs, String>, panics::PanicInfo> {
    panics::catch(|| {
        let mut tracer = trace::Tracer::default();
        let mut interner = CsNameInterner::default();
        let a = observe(src, cfg, switch, false, &mut tracer, &mut interner)?;
        let b = observe(src, cfg, switch, true, &mut tracer, &mut interner)?;
        Ok(Runs { obs: [a, b] })
    })
}

fn compare_both(src: &str, cfg: &Cfg, switch: Option<&Switch>, runs: &Runs, dev: Deviations) -> Result<(), String> {
    for (m, report) in [false, true].into_iter().enumerate() {
        let (items, sc) = model_items(src, cfg, switch, report, dev);
        compare(&items, &sc.lines, &runs.obs[m]).map_err(|e| format!("[report_end_of_line={}] {}", report, e))?;
        if report {
            // The markers are the model's line boundaries: one between any two consecutive lines.
            let eols = runs.obs[m].iter().filter(|o| o.tok == Tok::EndOfLine).count();
            let n = sc.lines.len();
            if eols != n.saturating_sub(1) {
                return Err(format!("[report_end_of_line=true] {} EndOfLine markers for {} lines", eols, n));
            }
        }
    }
    Ok(())
}

const FLAGS: [(&str, Deviations); 3] = [
    ("flag:no_hex_caret", Deviations { no_hex_caret: true, nonascii_caret_swallowed: false }),
    ("flag:nonascii_caret_swallowed", Deviations { no_hex_caret: false, nonascii_caret_swallowed: true }),
    // both (reported under the first name)
    ("flag:no_hex_caret", Deviations { no_hex_caret: true, nonascii_caret_swallowed: true }),
];

fn describe(c: &LexCase) -> String {
    let cats: Vec<String> = c.cats.iter().map(|(ch, k)| format!("{:?}={}", ch, k)).collect();
    format!("src={:?} endlinechar={:?} catcodes(non-plain)=[{}]", c.src, c.endline, cats.join(" "))
}

fn has_double_superscript(src: &str, cfg: &Cfg) -> bool {
    let mut prev: Option<char> = None;
    for ch in src.chars() {
        if prev == Some(ch) && cfg.code(ch) == model::SUPERSCRIPT {
            return true;
        }
        prev = Some(ch);
    }
    false
}

fn classify(c: &LexCase, cfg: &Cfg, st: &model::Stats, lines: &[SourceLine], case: &mut Case) -> bool {
    let occurs = |ch: char| c.src.contains(ch) || c.endline == Some(ch);
    let table_differs = c.cats.iter().any(|(ch, k)| (*k & 15) != plain_default(*ch) && occurs(*ch));
    let double_sup = has_double_superscript(&c.src, cfg) || c.src.contains("^^");
    let non_ascii = !c.src.is_ascii();
    let trailing = lines.iter().any(|l| l.trimmed_chars < l.chars);
    case.class_if(table_differs, "table differs from plain TeX on an occurring char");
    case.class_if(double_sup, "source has doubled superscript char");
    case.class_if(non_ascii, "non-ASCII source");
    case.class_if(trailing, "line with trailing blanks");
    case.class_if(!c.src.is_empty() && !c.src.ends_with('\n'), "no final newline");
    case.class_if(lines.iter().any(|l| l.trimmed_chars == 0), "blank line");
    case.class_if(lines.len() >= 2, "lines>=2");
    case.class_if(lines.len() >= 4, "lines>=4");
    case.class(match c.endline {
        None => "endlinechar none",
        Some('\r') => "endlinechar CR",
        Some(e) => match cfg.code(e) {
            model::LETTER => "endlinechar other char, cat letter",
            model::SUPERSCRIPT => "endlinechar other char, cat superscript",
            model::ESCAPE => "endlinechar other char, cat escape",
            model::END_OF_LINE => "endlinechar other char, cat end-of-line",
            model::SPACE => "endlinechar other char, cat space",
            model::COMMENT | model::IGNORED | model::INVALID => "endlinechar other char, cat comment/ignored/invalid",
            _ => "endlinechar other char, other cats",
        },
    });
    if let Some('\r') = c.endline {
        case.class_if(cfg.code('\r') != model::END_OF_LINE, "CR end-line char is not cat 5");
    }
    case.class_if(cfg.code('^') != model::SUPERSCRIPT && c.src.contains('^'), "^ is not superscript");
    case.class_if(cfg.code(' ') != model::SPACE && c.src.contains(' '), "space is not cat 10");
    case.class_if(cfg.code('\\') != model::ESCAPE && c.src.contains('\\'), "backslash is not escape");
    case.class_if(st.reductions > 0, "^^ reduced");
    case.class_if(st.hex_reductions > 0, "^^ hex reduced");
    case.class_if(st.reductions_in_name > 0, "^^ reduced inside cs name");
    case.class_if(st.reductions_first_of_name > 0, "^^ reduced as first char of cs name");
    case.class_if(st.reductions_using_end_line_char > 0, "^^ reduction consumes end-line char");
    case.class_if(st.nested_reductions > 0, "^^ nested reduction");
    case.class_if(st.nonascii_third > 0, "^^ followed by char >=128");
    case.class_if(st.unreduced_double_at_line_end > 0, "^^ at very end of line (not reducible)");
    case.class_if(st.reduced_to_escape > 0, "^^ result is an escape char");
    case.class_if(st.par_tokens > 0, "\\par from end of line");
    case.class_if(st.space_from_eol > 0, "space from end of line");
    case.class_if(st.eol_dropped_in_skip_blanks > 0, "end of line dropped in state S");
    case.class_if(st.comments > 0, "comment");
    case.class_if(st.ignored > 0, "ignored char");
    case.class_if(st.invalid > 0, "invalid char");
    case.class_if(st.empty_cs > 0, "empty cs name");
    case.class_if(st.multi_letter_cs > 0, "multi-letter cs");
    case.class_if(st.cs_takes_end_line_char > 0, "cs name ends with end-line char");
    table_differs || double_sup || non_ascii || trailing
}

fn oracle(ctx: &Ctx, c: &LexCase, switch: Option<(&Cfg, usize)>, case: &mut Case) -> Verdict {
    let cfg = Cfg::new(&c.cats, c.endline);
    let sw = switch.map(|(second, after_calls)| Switch { after_calls, second });
    let sw = sw.as_ref();
    case.note = Some(describe(c));
    // Classes come from the TeX model alone, whatever the verdict will be.
    let (_, sc) = model_items(&c.src, &cfg, sw, false, Deviations::default());
    let nt = classify(c, &cfg, &sc.stats, &sc.lines, case);
    let runs = match run_impl(&c.src, &cfg, sw) {
        Err(info) => {
            let sig = info.signature();
            if ctx.known(&sig) {
                return Verdict::Known(sig);
            }
            return Verdict::Fail(format!("panic at {}: {}\n{}", info.site(), info.message, describe(c)));
        }
        Ok(Err(m)) => return Verdict::Fail(format!("{}\n{}", m, describe(c))),
        Ok(Ok(r)) => r,
    };
    match compare_both(&c.src, &cfg, sw, &runs, Deviations::default()) {
        Ok(()) => Verdict::pass(nt),
        Err(msg) => {
            // Listed deviations, smallest subsets first; excused only if the deviating model
            // reproduces the implementation exactly (tokens and traces, both modes).
            let mut tried = String::new();
            for (sig, dev) in FLAGS {
                let listed = (!dev.no_hex_caret || ctx.known("flag:no_hex_caret")) && (!dev.nonascii_caret_swallowed || ctx.known("flag:nonascii_caret_swallowed"));
                if !listed {
                    continue;
                }
                match compare_both(&c.src, &cfg, sw, &runs, dev) {
                    Ok(()) => return Verdict::Known(sig.to_string()),
                    Err(e) => tried.push_str(&format!("\n(not explained by listed deviation {:?}: {})", dev, e.lines().next().unwrap_or(""))),
                }
            }
            Verdict::Fail(format!("{}\n{}{}", msg, describe(c), tried))
        }
    }
}

// ------------------------------------------------------------------------------------------------
// Calibration on the repository's table tests

#[derive(Clone, Debug, Serialize, Deserialize)]
struct GoldCase {
    index: usize,
}

fn golden_oracle(ctx: &Ctx, g: &model::Golden, case: &mut Case) -> Verdict {
    let c = LexCase { src: g.input.clone(), cats: g.overrides.clone(), endline: g.end_line_char };
    let cfg = Cfg::new(&c.cats, c.endline);
    // 1. The model must reproduce the golden tokens (calibration of the oracle itself).
    let (items, sc) = model_items(&c.src, &cfg, None, true, Deviations::default());
    let want: Vec<Tok> = g
        .expected
        .iter()
        .map(|e| match e {
            model::Gold::Character(ch, k, _) => Tok::Char(*ch, *k),
            model::Gold::ControlSequence(n, _) => Tok::Cs(n.to_string()),
            model::Gold::NewLine => Tok::EndOfLine,
        })
        .collect();
    let got: Vec<(Tok, Option<model::Span>)> = items.iter().map(item_tok).collect();
    if want.len() != got.len() || want.iter().zip(&got).any(|(w, g)| *w != g.0) {
        return Verdict::Fail(format!(
            "CALIBRATION: the reference scanner disagrees with the repository's golden `{}`\n  golden: {}\n  model:  {}\n{}",
            g.name,
            want.iter().map(show_tok).collect::<Vec<_>>().join(" "),
            got.iter().map(|g| show_tok(&g.0)).collect::<Vec<_>>().join(" "),
            describe(&c)
        ));
    }
    // 2. The golden trace keys (absolute character offsets) must lie inside the model's spans.
    for (e, (t, span)) in g.expected.iter().zip(&got) {
        let key = match e {
            model::Gold::Character(_, _, k) | model::Gold::ControlSequence(_, k) => *k as usize,
            model::Gold::NewLine => continue,
        };
        let span = span.unwrap();
        let base = sc.lines[span.line - 1].start_char;
        if key < base + span.lo || key > base + span.hi {
            return Verdict::Fail(format!(
                "CALIBRATION: golden `{}` pins key {} for {}, the model allows {}..={}\n{}",
                g.name,
                key,
                show_tok(t),
                base + span.lo,
                base + span.hi,
                describe(&c)
            ));
        }
    }
    case.class("golden replayed through the model");
    // 3. The ordinary oracle on the same input.
    oracle(ctx, &c, None, case)
}

// ------------------------------------------------------------------------------------------------
// Generators

const ALPHABET: &[(u32, char)] = &[
    (8, '\\'),
    (2, '{'),
    (2, '}'),
    (1, '$'),
    (1, '&'),
    (1, '#'),
    (8, '^'),
    (1, '_'),
    (1, '~'),
    (2, '%'),
    (10, ' '),
    (5, 'a'),
    (3, 'b'),
    (2, 'M'),
    (2, 'Z'),
    (1, 'e'),
    (1, 'f'),
    (3, '5'),
    (1, '0'),
    (1, '9'),
    (8, '\n'),
    (2, '\r'),
    (1, '\0'),
    (1, '\u{7f}'),
    (2, 'é'),
    (1, '日'),
    (1, '😀'),
    (1, '\t'),
    (1, '@'),
    (1, '?'),
    (1, '+'),
    (1, '\u{1e}'),
    (1, '\u{a0}'),
    (1, '\u{2028}'),
];

/// What may follow a doubled superscript character.
const CARET_TAILS: &[&str] = &[
    "M", "M", "?", "@", "5a", "5a", "zz", "é", "é", "J", "I", "\u{1e}", "\u{1c}", "`", "e", "7f", "0a", "0d", "5e", "5c", "20", "25", "c3", "ff", "e9", "a", "5", "A", "^", " ", "日", "😀",
    "", "", "\\", "{", "[", "5G", "a5", "ag", "f", "5", "a\n", "5\n", "5a\n", "é\n", "\n", " \n", "  ", "\u{7f}", "\0", "\r", "+", "k", "\u{80}", "^^M",
];

const SUP_ALIASES: &[char] = &['a', ' ', '\r', 'é', '5', '\\', '\u{2}', '%', 'M', '日'];

fn weighted_char() -> impl Strategy<Value = char> {
    let total: u32 = ALPHABET.iter().map(|a| a.0).sum();
    (0..total).prop_map(|mut r| {
        for (w, c) in ALPHABET {
            if r < *w {
                return *c;
            }
            r -= w;
        }
        'a'
    })
}

/// A piece of source text. `S` stands for the case's superscript character.
#[derive(Clone, Debug)]
enum Piece {
    Ch(char),
    /// S S tail
    Caret(usize),
    /// S S p(S) S tail where p(S) is S±64: a reduction whose result is S again (nested).
    Nested(usize, bool),
    /// escape, letters, optional caret form inside / after the name, optional blanks
    Cs { letters: Vec<u8>, caret_at: Option<(u8, usize)>, blanks: u8 },
    TrailingBlanks(u8),
    BlankLines(u8),
    Comment(u8),
    CrLf,
}

fn piece() -> impl Strategy<Value = Piece> {
    prop_oneof![
        40 => weighted_char().prop_map(Piece::Ch),
        14 => (0..CARET_TAILS.len()).prop_map(Piece::Caret),
        3 => ((0..CARET_TAILS.len()), any::<bool>()).prop_map(|(t, h)| Piece::Nested(t, h)),
        10 => (proptest::collection::vec(0u8..6, 0..4), proptest::option::weighted(0.5, (0u8..5, 0..CARET_TAILS.len())), 0u8..3).prop_map(|(letters, caret_at, blanks)| Piece::Cs { letters, caret_at, blanks }),
        6 => (0u8..4).prop_map(Piece::TrailingBlanks),
        4 => (0u8..4).prop_map(Piece::BlankLines),
        3 => (0u8..4).prop_map(Piece::Comment),
        2 => Just(Piece::CrLf),
    ]
}

fn render(pieces: &[Piece], sup: char, out: &mut String) {
    const LETTERS: [char; 6] = ['a', 'b', 'M', 'Z', 'e', '5'];
    for p in pieces {
        match p {
            Piece::Ch(c) => out.push(*c),
            Piece::Caret(t) => {
                out.push(sup);
                out.push(sup);
                out.push_str(CARET_TAILS[*t]);
            }
            Piece::Nested(t, hex) => {
                out.push(sup);
                out.push(sup);
                let u = sup as u32;
                if *hex && u < 256 {
                    out.push_str(&format!("{:02x}", u));
                } else if u < 128 {
                    out.push(char::from_u32(if u < 64 { u + 64 } else { u - 64 }).unwrap());
                } else {
                    out.push('^');
                }
                out.push(sup);
                out.push_str(CARET_TAILS[*t]);
            }
            Piece::Cs { letters, caret_at, blanks } => {
                out.push('\\');
                for (i, l) in letters.iter().enumerate() {
                    if let Some((at, t)) = caret_at {
                        if *at as usize == i {
                            out.push(sup);
                            out.push(sup);
                            out.push_str(CARET_TAILS[*t]);
                        }
                    }
                    out.push(LETTERS[*l as usize]);
                }
                if let Some((at, t)) = caret_at {
                    if *at as usize >= letters.len() {
                        out.push(sup);
                        out.push(sup);
                        out.push_str(CARET_TAILS[*t]);
                    }
                }
                for _ in 0..*blanks {
                    out.push(' ');
                }
            }
            Piece::TrailingBlanks(k) => out.push_str([" \n", "  \n", " \t\n", "   \n"][*k as usize]),
            Piece::BlankLines(k) => out.push_str(["\n\n", "\n \n", "\n  \n\n", " \n\n\n"][*k as usize]),
            Piece::Comment(k) => out.push_str(["%", "% x", "%\n", "% ^^M \n"][*k as usize]),
            Piece::CrLf => out.push_str("\r\n"),
        }
    }
}

#[derive(Clone, Debug)]
enum EndLine {
    None,
    Cr,
    Letter(u8),
    Caret,
    Ascii(u8),
    NonAscii,
}

fn endline_strategy() -> impl Strategy<Value = EndLine> {
    prop_oneof![
        4 => Just(EndLine::Cr),
        2 => Just(EndLine::None),
        2 => (0u8..4).prop_map(EndLine::Letter),
        2 => Just(EndLine::Caret),
        3 => (0u8..128).prop_map(EndLine::Ascii),
        1 => Just(EndLine::NonAscii),
    ]
}

fn hash_slot(c: char, salt: u8) -> usize {
    let h = mix(c as u64 + 1, salt as u64 + 77);
    (h % 64) as usize
}

/// Characters whose category code can matter for a source: its own characters, the end-line
/// character, and whatever a `^^` reduction could produce from them.
fn universe(src: &str, endline: Option<char>) -> BTreeSet<char> {
    let mut u: BTreeSet<char> = src.chars().filter(|c| *c != '\n').collect();
    if let Some(e) = endline {
        u.insert(e);
    }
    let chars: Vec<char> = src.chars().chain(endline).collect();
    for (i, c) in chars.iter().enumerate() {
        let v = *c as u32;
        if v < 128 {
            u.insert(char::from_u32(if v < 64 { v + 64 } else { v - 64 }).unwrap());
        }
        if let Some(d) = chars.get(i + 1) {
            let hex = |x: char| matches!(x, '0'..='9' | 'a'..='f');
            if hex(*c) && hex(*d) {
                let h = |x: char| if x <= '9' { x as u32 - 48 } else { x as u32 - 87 };
                u.insert(char::from_u32(16 * h(*c) + h(*d)).unwrap());
            }
        }
    }
    u
}

fn build_case(pieces: &[Piece], sup_alias: Option<usize>, sel: &[u8], salt: u8, endline: &EndLine, ending: u8) -> LexCase {
    let sup = sup_alias.map(|i| SUP_ALIASES[i]).unwrap_or('^');
    let mut src = String::new();
    render(pieces, sup, &mut src);
    match ending {
        0 => {
            while src.ends_with('\n') {
                src.pop();
            }
        }
        1 => {
            if !src.ends_with('\n') {
                src.push('\n');
            }
        }
        _ => {}
    }
    let endline = match endline {
        EndLine::None => None,
        EndLine::Cr => Some('\r'),
        EndLine::Letter(k) => Some(['a', 'M', 'B', 'e'][*k as usize]),
        EndLine::Caret => Some(sup),
        EndLine::Ascii(b) => Some(*b as char),
        EndLine::NonAscii => Some('é'),
    };
    let mut cats = vec![];
    for c in universe(&src, endline) {
        let s = sel[hash_slot(c, salt)];
        let mut k = plain_default(c);
        if s >= 154 {
            k = (((s - 154) as u32 * 16) / 102) as u8;
        }
        if sup_alias.is_some() && c == sup && s < 230 {
            k = model::SUPERSCRIPT;
        }
        if k != plain_default(c) {
            cats.push((c, k));
        }
    }
    LexCase { src, cats, endline }
}

fn case_strategy(max_pieces: usize) -> impl Strategy<Value = LexCase> {
    (
        proptest::collection::vec(piece(), 0..max_pieces),
        proptest::option::weighted(0.25, 0..SUP_ALIASES.len()),
        proptest::collection::vec(any::<u8>(), 64),
        any::<u8>(),
        endline_strategy(),
        0u8..4,
    )
        .prop_map(|(pieces, alias, sel, salt, endline, ending)| build_case(&pieces, alias, &sel, salt, &endline, ending))
}

/// A case whose configuration changes after a number of `next` calls (TeX's rules are dynamic:
/// category codes are consulted per character, `\endlinechar` when a line is read).
#[derive(Clone, Debug, Serialize, Deserialize)]
pub struct SwitchCase {
    pub first: LexCase,
    pub second_cats: Vec<(char, u8)>,
    pub second_endline: Option<char>,
    pub after_calls: usize,
}

fn switch_strategy() -> impl Strategy<Value = SwitchCase> {
    (
        proptest::collection::vec(piece(), 0..14),
        proptest::option::weighted(0.25, 0..SUP_ALIASES.len()),
        proptest::collection::vec(any::<u8>(), 64),
        proptest::collection::vec(any::<u8>(), 64),
        any::<u8>(),
        endline_strategy(),
        endline_strategy(),
        0u8..4,
        0usize..12,
    )
        .prop_map(|(pieces, alias, sel1, sel2, salt, e1, e2, ending, after_calls)| {
            let first = build_case(&pieces, alias, &sel1, salt, &e1, ending);
            // Second table: half of the slots keep the first table's choice.
            let sel_b: Vec<u8> = sel1.iter().zip(&sel2).enumerate().map(|(i, (a, b))| if i % 2 == 0 { *a } else { *b }).collect();
            let second = build_case(&pieces, alias, &sel_b, salt, &e2, ending);
            // The second table must cover the characters the second end-line char can produce, too;
            // build_case already derives its universe from (src, endline).
            SwitchCase { first, second_cats: second.cats, second_endline: second.endline, after_calls }
        })
}

// ------------------------------------------------------------------------------------------------
// Exhaustive small scope

const SMALL_ALPHABET: [char; 8] = ['\\', '^', 'a', '5', ' ', '\n', '%', 'é'];

fn small_tables() -> Vec<(Vec<(char, u8)>, Option<char>)> {
    use model::*;
    vec![
        (vec![], Some('\r')),
        (vec![], None),
        (vec![], Some('a')),
        (vec![], Some('^')),
        (vec![('5', LETTER), ('é', LETTER), ('%', END_OF_LINE)], Some('5')),
        (vec![('a', SUPERSCRIPT), ('^', LETTER), (' ', OTHER), ('5', SPACE), ('%', END_OF_LINE), ('é', LETTER)], Some('\r')),
        (vec![('\\', OTHER), ('a', ESCAPE), ('5', IGNORED), ('é', INVALID), (' ', LETTER), ('%', ACTIVE), ('\r', LETTER)], Some('\r')),
        (vec![('é', SUPERSCRIPT), ('^', ESCAPE), ('\\', SPACE), (' ', SUPERSCRIPT), ('5', COMMENT), ('\u{1a}', ESCAPE), ('\u{1e}', SUPERSCRIPT), ('Z', SUPERSCRIPT)], Some(' ')),
    ]
}

fn small_count(max_len: u32) -> u64 {
    (0..=max_len).map(|n| 8u64.pow(n)).sum()
}

fn small_string(mut i: u64) -> String {
    // index -> (length, digits): strings ordered by length, then lexicographically by symbol index
    let mut len = 0u32;
    loop {
        let n = 8u64.pow(len);
        if i < n {
            break;
        }
        i -= n;
        len += 1;
    }
    let mut s = vec![];
    for _ in 0..len {
        s.push(SMALL_ALPHABET[(i % 8) as usize]);
        i /= 8;
    }
    s.reverse();
    s.into_iter().collect()
}

// ------------------------------------------------------------------------------------------------

pub fn run(ctx: &Ctx) {
    ctx.rule("cases = (source text, category-code table, \\endlinechar); random sources are concatenations of pieces over \\ { } $ & # ^ _ ~ % space letters digits LF CR NUL DEL TAB é 日 😀 with injected ^^X forms (^^M ^^? ^^@ ^^5a ^^zz ^^é …, at line ends, inside/after control sequence names, nested), trailing blanks, blank lines, CRLF, with/without final newline; every character that occurs or can result from a ^^ reduction gets the plain-TeX code with p=0.6 and a uniform code 0..15 with p=0.4; \\endlinechar in {none, CR, letter, the superscript char, uniform ASCII, é}; tokens of Lexer::next (both report_end_of_line modes) compared one for one with a transcription of TeX §343-356 and every token traced with Tracer::trace. non-trivial = the table differs from plain TeX on a character that occurs in the source or as end-line char, or the source contains a doubled superscript character (^^), or a non-ASCII character, or a line with trailing blanks; distinct = by (source, table, endlinechar)");
    ctx.assume("lines are split at LF only and right-trimmed of U+0020 only (what lexer.rs documents; TeX's input_ln removes trailing spaces); CR is an ordinary character of the line");
    ctx.assume("^^xy with two lower-case hex digits stands for the character with that code point (0..255), the Unicode reading of TeX's 8-bit hex_to_cur_chr");
    ctx.assume("trace column tolerance: exact for ordinary characters and for control sequences (column of the escape character); any column of the consumed source characters for the result of a ^^ reduction; [trimmed length, line length] for the appended end-line character, which has no source character");
    ctx.assume("EndOfLine is reported after the next line has been read (the public API's order); n lines give n-1 markers");

    // Calibration: the repository's own table tests.
    let golds = model::goldens();
    let idx: Vec<GoldCase> = (0..golds.len()).map(|index| GoldCase { index }).collect();
    run_list(ctx, "goldens", idx, |g: &GoldCase, case| golden_oracle(ctx, &golds[g.index], case));

    // Exhaustive small scope.
    let max_len = ctx.tier.pick(5u32, 6u32);
    let per_table = small_count(max_len);
    let tables = small_tables();
    let total = per_table * tables.len() as u64;
    ctx.extra("exhaustive_small", "scope", serde_json::json!({"alphabet": SMALL_ALPHABET.iter().collect::<String>(), "max_len": max_len, "tables": tables.len()}));
    run_indexed(
        ctx,
        "exhaustive_small",
        total,
        true,
        |i| {
            let (cats, endline) = &tables[(i / per_table) as usize];
            LexCase { src: small_string(i % per_table), cats: cats.clone(), endline: *endline }
        },
        |c: &LexCase, case| oracle(ctx, c, None, case),
    );

    // Random search.
    let n = ctx.tier.pick(800_000u64, 10_000_000u64);
    run_generated(ctx, "random", n, || case_strategy(16), |c: &LexCase, case| oracle(ctx, c, None, case));
    let n = ctx.tier.pick(80_000u64, 1_000_000u64);
    run_generated(ctx, "random_long", n, || case_strategy(60), |c: &LexCase, case| oracle(ctx, c, None, case));
    let n = ctx.tier.pick(160_000u64, 2_000_000u64);
    run_generated(ctx, "config_switch", n, switch_strategy, |c: &SwitchCase, case| {
        let second = Cfg::new(&c.second_cats, c.second_endline);
        case.class_if(c.first.endline != c.second_endline, "end-line char changes");
        case.class_if(c.first.cats != c.second_cats, "table changes");
        let v = oracle(ctx, &c.first, Some((&second, c.after_calls)), case);
        case.note = Some(format!("{} then after {} calls endlinechar={:?} catcodes=[{}]", describe(&c.first), c.after_calls, c.second_endline, c.second_cats.iter().map(|(ch, k)| format!("{:?}={}", ch, k)).collect::<Vec<_>>().join(" ")));
        v
    });
}
