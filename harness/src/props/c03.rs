//! C03 Lexing follows TeX's scanner; every token traces to its source position.
//!
//! Oracle: `models::tex_lexer` (transcription of TeX §343–§356) against `texlang::token::lexer::Lexer`
//! driven through its public API with a harness-owned `lexer::Config` (category table + end-line
//! character supplied by the case), in both `report_end_of_line` modes, with `Tracer::trace` applied
//! to every delivered token. `vm_path` drives the repository's own `lexer::Config` (the blanket
//! `impl<T: TexlangState> Config for T` with `codes::cat_code` and `endlinechar::end_line_char`)
//! through a VM whose tables are set by `\catcode` / `\endlinechar` assignments in TeX source.
//! `long_inputs` looks at stack use (recursion per `^^` reduction) and very long lines.

use crate::engine::*;
use crate::models::tex_lexer as model;
use crate::models::tex_lexer::{Deviations, Item, Reading, SourceLine};
use proptest::prelude::*;
use serde::{Deserialize, Serialize};
use std::collections::BTreeSet;
use texlang::token::lexer;
use texlang::token::trace;
use texlang::token::{CommandRef, CsNameInterner, Token, Value};
use texlang::types::CatCode;

// ------------------------------------------------------------------------------------------------
// Case and configuration

#[derive(Clone, Debug, Serialize, Deserialize, PartialEq, Eq)]
pub struct LexCase {
    /// The source text.
    pub src: String,
    /// Category codes that differ from the plain-TeX default table (ASCII: the repository's
    /// `CatCode::PLAIN_TEX_DEFAULTS`; everything else: 12).
    pub cats: Vec<(char, u8)>,
    /// `\endlinechar`.
    pub endline: Option<char>,
}

pub fn plain_default(c: char) -> u8 {
    if (c as u32) < 128 {
        CatCode::PLAIN_TEX_DEFAULTS[c as usize] as u8
    } else {
        model::OTHER
    }
}

pub struct Cfg {
    ascii: [u8; 128],
    other: Vec<(char, u8)>,
    endline: Option<char>,
}

impl Cfg {
    pub fn new(cats: &[(char, u8)], endline: Option<char>) -> Cfg {
        let mut ascii = [0u8; 128];
        for (i, a) in ascii.iter_mut().enumerate() {
            *a = CatCode::PLAIN_TEX_DEFAULTS[i] as u8;
        }
        let mut other = vec![];
        for &(c, k) in cats {
            let k = k & 15;
            if (c as u32) < 128 {
                ascii[c as usize] = k;
            } else {
                other.retain(|(d, _)| *d != c);
                other.push((c, k));
            }
        }
        Cfg { ascii, other, endline }
    }
    fn code(&self, c: char) -> u8 {
        if (c as u32) < 128 {
            self.ascii[c as usize]
        } else {
            self.other.iter().find(|(d, _)| *d == c).map(|(_, k)| *k).unwrap_or(model::OTHER)
        }
    }
}

impl model::Config for Cfg {
    fn cat(&self, c: char) -> u8 {
        self.code(c)
    }
    fn end_line_char(&self) -> Option<char> {
        self.endline
    }
}

impl lexer::Config for Cfg {
    fn cat_code(&self, c: char) -> CatCode {
        CatCode::try_from(self.code(c)).unwrap()
    }
    fn end_line_char(&self) -> Option<char> {
        self.endline
    }
}

// ------------------------------------------------------------------------------------------------
// Observation of the implementation

#[derive(Clone, Debug, PartialEq, Eq)]
enum Tok {
    Char(char, u8),
    Cs(String),
    Invalid(char),
    EndOfLine,
}

#[derive(Clone, Debug)]
struct Obs {
    tok: Tok,
    /// (line number, column, line content, value) from `Tracer::trace`.
    trace: Option<(usize, usize, String, String)>,
}

const DECOY: &str = "?decoy one\n?decoy two \n?";
const FILE_NAME: &str = "c03.tex";

/// How the configuration changes while the source is being read: from call number `.0` on (calls
/// counted from 0) configuration `.1` applies, until a later step takes over. Ascending.
type Steps<'a> = [(usize, &'a Cfg)];

fn cfg_at<'a>(first: &'a Cfg, steps: &Steps<'a>, calls: usize) -> &'a Cfg {
    let mut c = first;
    for (after, cfg) in steps {
        if calls >= *after {
            c = cfg;
        }
    }
    c
}

fn tok_of(t: &Token, interner: &CsNameInterner) -> Tok {
    match t.value() {
        Value::CommandRef(CommandRef::ControlSequence(n)) => Tok::Cs(interner.resolve(n).unwrap().to_string()),
        Value::CommandRef(CommandRef::ActiveCharacter(c)) => Tok::Char(c, model::ACTIVE),
        v => {
            let (c, k) = v.char_and_cat_code().unwrap();
            Tok::Char(c, k as u8)
        }
    }
}

fn trace_tuple(tr: trace::SourceCodeTrace) -> (usize, usize, String, String) {
    let origin_ok = tr.origin == trace::Origin::File(FILE_NAME.into());
    let content = if origin_ok { tr.line_content } else { format!("<origin {:?}> {}", tr.origin, tr.line_content) };
    (tr.line_number, tr.index, content, tr.value)
}

fn observe(src: &str, cfg: &Cfg, steps: &Steps, report: bool, tracer: &mut trace::Tracer, interner: &mut CsNameInterner) -> Result<Vec<Obs>, String> {
    tracer.register_source_code(None, trace::Origin::Terminal, DECOY);
    let range = tracer.register_source_code(None, trace::Origin::File(FILE_NAME.into()), src);
    tracer.register_source_code(None, trace::Origin::Terminal, DECOY);
    let mut lx = lexer::Lexer::new(src.to_string(), range);
    let bound = 2 * src.chars().count() + 8;
    let mut out: Vec<Obs> = vec![];
    let mut calls = 0usize;
    loop {
        let c: &Cfg = cfg_at(cfg, steps, calls);
        calls += 1;
        let r = lx.next(c, interner, report);
        let (tok, token) = match r {
            lexer::Result::Token(t) => (tok_of(&t, interner), Some(t)),
            lexer::Result::InvalidCharacter(c, key) => (Tok::Invalid(c), Some(Token::new_letter(c, key))),
            lexer::Result::EndOfLine => (Tok::EndOfLine, None),
            lexer::Result::EndOfInput => break,
        };
        let trace = token.map(|t| trace_tuple(tracer.trace(t, interner)));
        out.push(Obs { tok, trace });
        if out.len() > bound {
            return Err(format!("lexer delivered more than {} items for a source of {} characters (no termination)", bound, src.chars().count()));
        }
    }
    // The end of input is stable.
    let last = cfg_at(cfg, steps, calls);
    for _ in 0..2 {
        if !matches!(lx.next(last, interner, report), lexer::Result::EndOfInput) {
            return Err("Lexer::next delivered something after EndOfInput".to_string());
        }
    }
    Ok(out)
}

struct ModelRun {
    items: Vec<Item>,
    sc: model::Scanner,
    /// Line in the buffer (0 = none yet) when each step took effect.
    step_lines: Vec<usize>,
    calls: usize,
}

fn model_items(src: &str, cfg: &Cfg, steps: &Steps, report: bool, dev: Deviations, reading: Reading) -> ModelRun {
    let mut s = model::Scanner::with_reading(src, dev, reading);
    let mut out = vec![];
    let mut calls = 0usize;
    let mut step_lines = vec![usize::MAX; steps.len()];
    loop {
        for (i, (after, _)) in steps.iter().enumerate() {
            if calls == *after {
                step_lines[i] = s.current_line();
            }
        }
        let c: &Cfg = cfg_at(cfg, steps, calls);
        calls += 1;
        match s.next(c, report) {
            Item::EndOfInput => break,
            it => out.push(it),
        }
    }
    ModelRun { items: out, sc: s, step_lines, calls }
}

fn show_tok(t: &Tok) -> String {
    match t {
        Tok::Char(c, k) => format!("{:?}/{}", c, k),
        Tok::Cs(n) => format!("\\[{}]", n.escape_debug()),
        Tok::Invalid(c) => format!("invalid({:?})", c),
        Tok::EndOfLine => "<EOL>".to_string(),
    }
}

fn item_tok(it: &Item) -> (Tok, Option<model::Span>) {
    match it {
        Item::Char { ch, cat, span } => (Tok::Char(*ch, *cat), Some(*span)),
        Item::Cs { name, span } => (Tok::Cs(name.clone()), Some(*span)),
        Item::Invalid { ch, span } => (Tok::Invalid(*ch), Some(*span)),
        Item::EndOfLine => (Tok::EndOfLine, None),
        Item::EndOfInput => unreachable!(),
    }
}

fn value_of(t: &Tok) -> String {
    match t {
        Tok::Char(c, _) | Tok::Invalid(c) => c.to_string(),
        Tok::Cs(n) => format!("\\{}", n),
        Tok::EndOfLine => String::new(),
    }
}

/// What a comparison saw besides agreement (class counters).
#[derive(Default, Clone, Copy)]
struct Seen {
    /// A `^^` result traced to the column of its first / of its last source character.
    reduced_at_first: u32,
    reduced_at_last: u32,
    /// The appended end-line character traced to the trimmed length / to the line terminator
    /// (only counted when the two differ).
    endline_at_trimmed: u32,
    endline_at_terminator: u32,
    /// `SourceCodeTrace::value` is not the token's text (not demanded by the property).
    value_differs: u32,
    /// The run agreed with TeX only under an alternative reading (see `model::Reading`).
    crlf_alternative: u32,
    eol_before_load_alternative: u32,
}

fn check_trace(i: usize, w: &Tok, span: &model::Span, line: &SourceLine, tr: &(usize, usize, String, String), seen: &mut Seen) -> Result<(), String> {
    let (ln, col, content, value) = tr;
    if *ln != span.line {
        return Err(format!("trace of item {} ({}) reports line {}, the token started on line {}", i, show_tok(w), ln, span.line));
    }
    let text_ok = *content == line.text || (line.cr_stripped && Some(content.as_str()) == line.text.strip_suffix('\r'));
    if !text_ok {
        return Err(format!("trace of item {} ({}) on line {} reports line text {:?}, the source line is {:?}", i, show_tok(w), ln, content, line.text));
    }
    if !span.allows(*col) {
        let kind = if span.end_line && !span.reduced {
            "the appended end-line character: trimmed length or position of the line terminator"
        } else if span.reduced {
            "a ^^ reduction: column of the first or of the last source character of the form"
        } else {
            "an ordinary source character: exact column"
        };
        return Err(format!("trace of item {} ({}) on line {} {:?} reports column {}, allowed {:?} ({})", i, show_tok(w), ln, line.text, col, span.cols_sorted(), kind));
    }
    if span.reduced {
        if *col == span.cols[0] {
            seen.reduced_at_first += 1;
        } else {
            seen.reduced_at_last += 1;
        }
    } else if span.end_line && span.cols[0] != span.cols[1] {
        if *col == span.cols[0] {
            seen.endline_at_trimmed += 1;
        } else {
            seen.endline_at_terminator += 1;
        }
    }
    if *value != value_of(w) {
        seen.value_differs += 1;
    }
    Ok(())
}

/// Compare one run of the implementation with one run of the model: tokens one for one, then the
/// trace of every token.
fn compare(items: &[Item], lines: &[SourceLine], obs: &[Obs], seen: &mut Seen) -> Result<(), String> {
    let want: Vec<(Tok, Option<model::Span>)> = items.iter().map(item_tok).collect();
    let same = want.len() == obs.len() && want.iter().zip(obs).all(|(w, o)| w.0 == o.tok);
    if !same {
        let first = want.iter().zip(obs).position(|(w, o)| w.0 != o.tok).unwrap_or(want.len().min(obs.len()));
        let cut = |v: Vec<String>| {
            if v.len() > 80 {
                format!("{} … ({} items)", v[..80].join(" "), v.len())
            } else {
                v.join(" ")
            }
        };
        return Err(format!(
            "tokens differ at item {}\n  TeX:  {}\n  impl: {}",
            first,
            cut(want.iter().map(|w| show_tok(&w.0)).collect::<Vec<_>>()),
            cut(obs.iter().map(|o| show_tok(&o.tok)).collect::<Vec<_>>())
        ));
    }
    let mut local = *seen;
    for (i, (w, o)) in want.iter().zip(obs).enumerate() {
        let (Some(span), Some(tr)) = (&w.1, &o.trace) else { continue };
        check_trace(i, &w.0, span, &lines[span.line - 1], tr, &mut local)?;
    }
    *seen = local;
    Ok(())
}

struct Runs {
    /// Implementation observations for report_end_of_line = false / true.
    obs: [Vec<Obs>; 2],
}

fn run_impl(src: &str, cfg: &Cfg, steps: &Steps) -> Result<Result<Runs, String>, panics::PanicInfo> {
    panics::catch(|| {
        let mut tracer = trace::Tracer::default();
        let mut interner = CsNameInterner::default();
        let a = observe(src, cfg, steps, false, &mut tracer, &mut interner)?;
        let b = observe(src, cfg, steps, true, &mut tracer, &mut interner)?;
        Ok(Runs { obs: [a, b] })
    })
}

/// The readings under which a run may be judged: the default first; the alternatives only where
/// they can differ from it (a CR LF pair in the source; `report_end_of_line` with a configuration
/// that changes while the source is read).
fn readings(src: &str, report: bool, dynamic: bool) -> Vec<Reading> {
    let mut v = vec![Reading::default()];
    if src.contains("\r\n") {
        v.push(Reading { crlf_is_line_end: true, ..Reading::default() });
    }
    if report && dynamic {
        for r in v.clone() {
            v.push(Reading { eol_before_load: true, ..r });
        }
    }
    v
}

fn compare_mode(src: &str, cfg: &Cfg, steps: &Steps, report: bool, dev: Deviations, reading: Reading, obs: &[Obs], seen: &mut Seen, pre: Option<&ModelRun>) -> Result<(), String> {
    // `pre`: the model's run for (report_end_of_line=false, no deviation, default reading), if the caller has it.
    let fresh;
    let run = match pre {
        Some(r) if !report && dev == Deviations::default() && reading == Reading::default() => r,
        _ => {
            fresh = model_items(src, cfg, steps, report, dev, reading);
            &fresh
        }
    };
    compare(&run.items, &run.sc.lines, obs, seen).map_err(|e| format!("[report_end_of_line={}] {}", report, e))?;
    if report {
        // The markers are the model's line boundaries: one between any two consecutive lines.
        let eols = obs.iter().filter(|o| o.tok == Tok::EndOfLine).count();
        let n = run.sc.lines.len();
        if eols != n.saturating_sub(1) {
            return Err(format!("[report_end_of_line=true] {} EndOfLine markers for {} lines", eols, n));
        }
    }
    Ok(())
}

fn compare_both(src: &str, cfg: &Cfg, steps: &Steps, runs: &Runs, dev: Deviations, seen: &mut Seen, pre: Option<&ModelRun>) -> Result<(), String> {
    // One reading of the line terminator for the whole case; the reported message is that of the
    // default reading.
    let crlf_options: &[bool] = if src.contains("\r\n") { &[false, true] } else { &[false] };
    let mut first_err: Option<String> = None;
    'crlf: for &crlf in crlf_options {
        let mut local = *seen;
        for (m, report) in [false, true].into_iter().enumerate() {
            let mut err: Option<String> = None;
            let mut ok = false;
            for reading in readings(src, report, !steps.is_empty()).into_iter().filter(|r| r.crlf_is_line_end == crlf) {
                match compare_mode(src, cfg, steps, report, dev, reading, &runs.obs[m], &mut local, pre) {
                    Ok(()) => {
                        ok = true;
                        if reading.eol_before_load {
                            local.eol_before_load_alternative += 1;
                        }
                        if reading.crlf_is_line_end && report {
                            local.crlf_alternative += 1;
                        }
                        break;
                    }
                    Err(e) => {
                        if err.is_none() {
                            err = Some(e);
                        }
                    }
                }
            }
            if !ok {
                if first_err.is_none() {
                    first_err = err;
                }
                continue 'crlf;
            }
        }
        *seen = local;
        return Ok(());
    }
    Err(first_err.unwrap())
}

const FLAGS: [(&str, Deviations); 3] = [
    ("flag:no_hex_caret", Deviations { no_hex_caret: true, nonascii_caret_swallowed: false }),
    ("flag:nonascii_caret_swallowed", Deviations { no_hex_caret: false, nonascii_caret_swallowed: true }),
    // both (reported under the first name)
    ("flag:no_hex_caret", Deviations { no_hex_caret: true, nonascii_caret_swallowed: true }),
];

fn show_cats(cats: &[(char, u8)]) -> String {
    cats.iter().map(|(ch, k)| format!("{:?}={}", ch, k)).collect::<Vec<_>>().join(" ")
}

fn describe(c: &LexCase) -> String {
    let src: String = if c.src.chars().count() > 400 { format!("{}… ({} chars)", c.src.chars().take(400).collect::<String>(), c.src.chars().count()) } else { c.src.clone() };
    format!("src={:?} endlinechar={:?} catcodes(non-plain)=[{}]", src, c.endline, show_cats(&c.cats))
}

fn has_double_superscript(src: &str, cfg: &Cfg) -> bool {
    let mut prev: Option<char> = None;
    for ch in src.chars() {
        if prev == Some(ch) && cfg.code(ch) == model::SUPERSCRIPT {
            return true;
        }
        prev = Some(ch);
    }
    false
}

fn classify_stats(st: &model::Stats, case: &mut Case) {
    case.class_if(st.reductions > 0, "^^ reduced");
    case.class_if(st.hex_reductions > 0, "^^ hex reduced");
    case.class_if(st.reductions_in_name > 0, "^^ reduced inside cs name");
    case.class_if(st.reductions_first_of_name > 0, "^^ reduced as first char of cs name");
    case.class_if(st.reductions_using_end_line_char > 0, "^^ reduction consumes end-line char");
    case.class_if(st.nested_reductions > 0, "^^ nested reduction");
    case.class_if(st.max_reduction_chain >= 3, "^^ reduction chain of depth >= 3");
    case.class_if(st.max_reduction_chain >= 8, "^^ reduction chain of depth >= 8");
    case.class_if(st.nonascii_third > 0, "^^ followed by char >=128");
    case.class_if(st.unreduced_double_at_line_end > 0, "^^ at very end of line (not reducible)");
    case.class_if(st.reduced_to_escape > 0, "^^ result is an escape char");
    case.class_if(st.hex_result_ge_128 > 0, "^^xy result >= 0x80 (two-byte rewrite) outside a name");
    case.class_if(st.hex_result_ge_128_in_name > 0, "^^xy result >= 0x80 (two-byte rewrite) inside a name");
    case.class_if(st.hex_second_digit_is_end_line_char > 0, "end-line char is the second hex digit of ^^xy");
    case.class_if(st.reduction_multibyte_sup > 0, "^^ reduction with a non-ASCII superscript char");
    case.class_if(st.in_name_reduction_multibyte_sup > 0, "^^ reduction on the look-ahead path (after the first name char) with a non-ASCII superscript char");
    case.class_if(st.par_tokens > 0, "\\par from end of line");
    case.class_if(st.space_from_eol > 0, "space from end of line");
    case.class_if(st.eol_dropped_in_skip_blanks > 0, "end of line dropped in state S");
    case.class_if(st.comments > 0, "comment");
    case.class_if(st.ignored > 0, "ignored char");
    case.class_if(st.invalid > 0, "invalid char");
    case.class_if(st.empty_cs > 0, "empty cs name");
    case.class_if(st.multi_letter_cs > 0, "multi-letter cs");
    case.class_if(st.longest_name >= 8, "cs name of >= 8 chars");
    case.class_if(st.cs_takes_end_line_char > 0, "cs name ends with end-line char");
    case.class_if(st.discarded_tail_nonempty > 0, "comment / cat-5 char discards a non-empty rest of line");
    case.class_if(st.discarded_tail_nonascii > 0, "discarded rest of line contains non-ASCII");
    case.class_if(st.discarded_tail_nonascii_then_more_lines > 0, "discarded rest of line contains non-ASCII and a line follows");
    case.class_if(st.items_after_nonascii_line > 0, "item traced on a line after a line with non-ASCII chars");
    case.class_if(st.items_after_trimmed_line > 0, "item traced on a line after a line with trailing blanks");
}

fn classify(c: &LexCase, cfg: &Cfg, st: &model::Stats, lines: &[SourceLine], case: &mut Case) -> bool {
    let occurs = |ch: char| c.src.contains(ch) || c.endline == Some(ch);
    let table_differs = c.cats.iter().any(|(ch, k)| (*k & 15) != plain_default(*ch) && occurs(*ch));
    let double_sup = has_double_superscript(&c.src, cfg) || c.src.contains("^^");
    let non_ascii = !c.src.is_ascii();
    let trailing = lines.iter().any(|l| l.trimmed_chars < l.chars);
    case.class_if(table_differs, "table differs from plain TeX on an occurring char");
    case.class_if(double_sup, "source has doubled superscript char");
    case.class_if(non_ascii, "non-ASCII source");
    case.class_if(trailing, "line with trailing blanks");
    case.class_if(!c.src.is_empty() && !c.src.ends_with('\n'), "no final newline");
    case.class_if(lines.iter().any(|l| l.trimmed_chars == 0), "blank line");
    case.class_if(lines.len() >= 2, "lines>=2");
    case.class_if(lines.len() >= 4, "lines>=4");
    case.class_if(lines.iter().any(|l| l.chars >= 40), "line of >= 40 chars");
    case.class_if(c.src.contains("\r\n"), "CR LF in the source");
    case.class(match c.endline {
        None => "endlinechar none",
        Some('\r') => "endlinechar CR",
        Some(e) => match cfg.code(e) {
            model::LETTER => "endlinechar other char, cat letter",
            model::SUPERSCRIPT => "endlinechar other char, cat superscript",
            model::ESCAPE => "endlinechar other char, cat escape",
            model::END_OF_LINE => "endlinechar other char, cat end-of-line",
            model::SPACE => "endlinechar other char, cat space",
            model::COMMENT | model::IGNORED | model::INVALID => "endlinechar other char, cat comment/ignored/invalid",
            _ => "endlinechar other char, other cats",
        },
    });
    if let Some('\r') = c.endline {
        case.class_if(cfg.code('\r') != model::END_OF_LINE, "CR end-line char is not cat 5");
    }
    case.class_if(c.endline == Some('\n'), "endlinechar LF");
    case.class_if(matches!(c.endline, Some('\0') | Some('\u{7f}')), "endlinechar NUL or DEL");
    case.class_if(cfg.code('^') != model::SUPERSCRIPT && c.src.contains('^'), "^ is not superscript");
    case.class_if(cfg.code(' ') != model::SPACE && c.src.contains(' '), "space is not cat 10");
    case.class_if(cfg.code('\\') != model::ESCAPE && c.src.contains('\\'), "backslash is not escape");
    classify_stats(st, case);
    table_differs || double_sup || non_ascii || trailing
}

fn classify_seen(seen: &Seen, case: &mut Case) {
    case.class_if(seen.reduced_at_first > 0, "trace of a ^^ result: column of the first char of the form");
    case.class_if(seen.reduced_at_last > 0, "trace of a ^^ result: column of the last char of the form");
    case.class_if(seen.endline_at_trimmed > 0, "trace of the end-line char on a line with trailing blanks: trimmed length");
    case.class_if(seen.endline_at_terminator > 0, "trace of the end-line char on a line with trailing blanks: line terminator");
    case.class_if(seen.value_differs > 0, "trace value is not the token text (not demanded)");
    case.class_if(seen.crlf_alternative > 0, "agrees only when the CR of CR LF is part of the line terminator");
    case.class_if(seen.eol_before_load_alternative > 0, "report mode agrees only when EndOfLine comes before the next line is read");
}

fn oracle(ctx: &Ctx, c: &LexCase, steps: &Steps, case: &mut Case) -> Verdict {
    let cfg = Cfg::new(&c.cats, c.endline);
    case.note = Some(describe(c));
    // Classes come from the TeX model alone, whatever the verdict will be.
    let run = model_items(&c.src, &cfg, steps, false, Deviations::default(), Reading::default());
    let nt = classify(c, &cfg, &run.sc.stats, &run.sc.lines, case);
    for (i, l) in run.step_lines.iter().enumerate() {
        if *l != usize::MAX {
            case.class_if(steps[i].0 >= 12, "configuration changes after >= 12 calls");
            case.class_if(*l >= 3, "configuration changes on line >= 3");
        }
    }
    // The quantifier has ASCII end-line characters only; anything else is run and compared, but a
    // disagreement is not a verdict.
    let outside = c.endline.map(|e| !e.is_ascii()).unwrap_or(false) || steps.iter().any(|(_, s)| s.endline.map(|e| !e.is_ascii()).unwrap_or(false));
    let verdict = oracle_inner(ctx, c, &cfg, steps, nt, case, &run);
    if outside {
        case.class("non-ASCII end-line char (outside the quantifier; compared, not judged)");
        return match verdict {
            Verdict::Fail(_) => Verdict::Skip("non-ASCII end-line character: outside the quantifier, and the implementation disagrees with the Unicode reading"),
            v => v,
        };
    }
    verdict
}

fn oracle_inner(ctx: &Ctx, c: &LexCase, cfg: &Cfg, steps: &Steps, nt: bool, case: &mut Case, pre: &ModelRun) -> Verdict {
    let runs = match run_impl(&c.src, cfg, steps) {
        Err(info) => {
            let sig = info.signature();
            if ctx.known(&sig) {
                return Verdict::Known(sig);
            }
            return Verdict::Fail(format!("panic at {}: {}\n{}", info.site(), info.message, describe(c)));
        }
        Ok(Err(m)) => return Verdict::Fail(format!("{}\n{}", m, describe(c))),
        Ok(Ok(r)) => r,
    };
    let mut seen = Seen::default();
    match compare_both(&c.src, cfg, steps, &runs, Deviations::default(), &mut seen, Some(pre)) {
        Ok(()) => {
            classify_seen(&seen, case);
            Verdict::pass(nt)
        }
        Err(msg) => {
            // Listed deviations, smallest subsets first; excused only if the deviating model
            // reproduces the implementation exactly (tokens and traces, both modes).
            let mut tried = String::new();
            for (sig, dev) in FLAGS {
                let listed = (!dev.no_hex_caret || ctx.known("flag:no_hex_caret")) && (!dev.nonascii_caret_swallowed || ctx.known("flag:nonascii_caret_swallowed"));
                if !listed {
                    continue;
                }
                match compare_both(&c.src, cfg, steps, &runs, dev, &mut Seen::default(), None) {
                    Ok(()) => return Verdict::Known(sig.to_string()),
                    Err(e) => tried.push_str(&format!("\n(not explained by listed deviation {:?}: {})", dev, e.lines().next().unwrap_or(""))),
                }
            }
            Verdict::Fail(format!("{}\n{}{}", msg, describe(c), tried))
        }
    }
}

// ------------------------------------------------------------------------------------------------
// Calibration on the repository's table tests

#[derive(Clone, Debug, Serialize, Deserialize)]
struct GoldCase {
    index: usize,
}

fn golden_oracle(ctx: &Ctx, g: &model::Golden, case: &mut Case) -> Verdict {
    let c = LexCase { src: g.input.clone(), cats: g.overrides.clone(), endline: g.end_line_char };
    let cfg = Cfg::new(&c.cats, c.endline);
    // 1. The model must reproduce the golden tokens (calibration of the oracle itself).
    let ModelRun { items, sc, .. } = model_items(&c.src, &cfg, &[], true, Deviations::default(), Reading::default());
    let want: Vec<Tok> = g
        .expected
        .iter()
        .map(|e| match e {
            model::Gold::Character(ch, k, _) => Tok::Char(*ch, *k),
            model::Gold::ControlSequence(n, _) => Tok::Cs(n.to_string()),
            model::Gold::NewLine => Tok::EndOfLine,
        })
        .collect();
    let got: Vec<(Tok, Option<model::Span>)> = items.iter().map(item_tok).collect();
    if want.len() != got.len() || want.iter().zip(&got).any(|(w, g)| *w != g.0) {
        return Verdict::Fail(format!(
            "CALIBRATION: the reference scanner disagrees with the repository's golden `{}`\n  golden: {}\n  model:  {}\n{}",
            g.name,
            want.iter().map(show_tok).collect::<Vec<_>>().join(" "),
            got.iter().map(|g| show_tok(&g.0)).collect::<Vec<_>>().join(" "),
            describe(&c)
        ));
    }
    // 2. The golden trace keys (absolute character offsets) must be columns the model allows.
    for (e, (t, span)) in g.expected.iter().zip(&got) {
        let key = match e {
            model::Gold::Character(_, _, k) | model::Gold::ControlSequence(_, k) => *k as usize,
            model::Gold::NewLine => continue,
        };
        let span = span.unwrap();
        let base = sc.lines[span.line - 1].start_char;
        if key < base || !span.allows(key - base) {
            return Verdict::Fail(format!(
                "CALIBRATION: golden `{}` pins key {} for {}, the model allows columns {:?} of the line starting at character {}\n{}",
                g.name,
                key,
                show_tok(t),
                span.cols_sorted(),
                base,
                describe(&c)
            ));
        }
    }
    case.class("golden replayed through the model");
    // 3. The ordinary oracle on the same input.
    oracle(ctx, &c, &[], case)
}

// ------------------------------------------------------------------------------------------------
// Generators

const ALPHABET: &[(u32, char)] = &[
    (8, '\\'),
    (2, '{'),
    (2, '}'),
    (1, '$'),
    (1, '&'),
    (1, '#'),
    (8, '^'),
    (1, '_'),
    (1, '~'),
    (2, '%'),
    (10, ' '),
    (5, 'a'),
    (3, 'b'),
    (2, 'M'),
    (2, 'Z'),
    (1, 'e'),
    (1, 'f'),
    (3, '5'),
    (1, '0'),
    (1, '9'),
    (8, '\n'),
    (2, '\r'),
    (1, '\0'),
    (1, '\u{7f}'),
    (2, 'é'),
    (1, '日'),
    (1, '😀'),
    (1, '\t'),
    (1, '@'),
    (1, '?'),
    (1, '+'),
    (1, '\u{1e}'),
    (1, '\u{a0}'),
    (1, '\u{2028}'),
];

/// What may follow a doubled superscript character.
const CARET_TAILS: &[&str] = &[
    "M", "M", "?", "@", "5a", "5a", "zz", "é", "é", "J", "I", "\u{1e}", "\u{1c}", "`", "e", "7f", "0a", "0d", "5e", "5c", "20", "25", "c3", "ff", "e9", "a", "5", "A", "^", " ", "日", "😀",
    "", "", "\\", "{", "[", "5G", "a5", "ag", "f", "5", "a\n", "5\n", "5a\n", "é\n", "\n", " \n", "  ", "\u{7f}", "\0", "\r", "+", "k", "\u{80}", "^^M",
];

const SUP_ALIASES: &[char] = &['a', ' ', '\r', 'é', '5', '\\', '\u{2}', '%', 'M', '日'];

fn weighted_char() -> impl Strategy<Value = char> {
    let total: u32 = ALPHABET.iter().map(|a| a.0).sum();
    (0..total).prop_map(|mut r| {
        for (w, c) in ALPHABET {
            if r < *w {
                return *c;
            }
            r -= w;
        }
        'a'
    })
}

/// A piece of source text. `S` stands for the case's superscript character.
#[derive(Clone, Debug)]
enum Piece {
    Ch(char),
    /// S S tail
    Caret(usize),
    /// A chain of `depth` reductions whose result is S again (S S p(S), then S p(S) …, p(S) = S±64
    /// or the two hex digits of S), then S tail: the last reduction takes `tail`. `place`: 0 = in
    /// running text, 1 = directly after an escape char (first char of a name), 2 = after an
    /// escape char and one letter (look-ahead path).
    Chain { tail: usize, hex: bool, depth: u8, place: u8 },
    /// escape, letters, optional caret form inside / after the name, optional blanks
    Cs { letters: Vec<u8>, caret_at: Option<(u8, usize)>, blanks: u8 },
    /// escape and 5..45 letters
    LongCs(u8),
    /// a run of 3..40 blanks / of other characters (long lines)
    Run(u8, u8),
    TrailingBlanks(u8),
    BlankLines(u8),
    Comment(u8),
    CrLf,
}

fn piece() -> impl Strategy<Value = Piece> {
    prop_oneof![
        40 => weighted_char().prop_map(Piece::Ch),
        14 => (0..CARET_TAILS.len()).prop_map(Piece::Caret),
        3 => ((0..CARET_TAILS.len()), any::<bool>(), 0u8..3).prop_map(|(tail, hex, place)| Piece::Chain { tail, hex, depth: 1, place }),
        2 => ((0..CARET_TAILS.len()), any::<bool>(), 2u8..14, 0u8..3).prop_map(|(tail, hex, depth, place)| Piece::Chain { tail, hex, depth, place }),
        10 => (proptest::collection::vec(0u8..6, 0..4), proptest::option::weighted(0.5, (0u8..5, 0..CARET_TAILS.len())), 0u8..3).prop_map(|(letters, caret_at, blanks)| Piece::Cs { letters, caret_at, blanks }),
        1 => (5u8..46).prop_map(Piece::LongCs),
        1 => (0u8..6, 3u8..41).prop_map(|(k, n)| Piece::Run(k, n)),
        6 => (0u8..4).prop_map(Piece::TrailingBlanks),
        4 => (0u8..4).prop_map(Piece::BlankLines),
        3 => (0u8..5).prop_map(Piece::Comment),
        2 => Just(Piece::CrLf),
    ]
}

fn render(pieces: &[Piece], sup: char, out: &mut String) {
    const LETTERS: [char; 6] = ['a', 'b', 'M', 'Z', 'e', '5'];
    for p in pieces {
        match p {
            Piece::Ch(c) => out.push(*c),
            Piece::Caret(t) => {
                out.push(sup);
                out.push(sup);
                out.push_str(CARET_TAILS[*t]);
            }
            Piece::Chain { tail, hex, depth, place } => {
                match place {
                    1 => out.push('\\'),
                    2 => out.push_str("\\b"),
                    _ => {}
                }
                out.push(sup);
                for _ in 0..*depth {
                    out.push(sup);
                    let u = sup as u32;
                    if *hex && u < 256 {
                        out.push_str(&format!("{:02x}", u));
                    } else if u < 128 {
                        out.push(char::from_u32(if u < 64 { u + 64 } else { u - 64 }).unwrap());
                    } else {
                        out.push('^');
                    }
                }
                out.push(sup);
                out.push_str(CARET_TAILS[*tail]);
            }
            Piece::Cs { letters, caret_at, blanks } => {
                out.push('\\');
                for (i, l) in letters.iter().enumerate() {
                    if let Some((at, t)) = caret_at {
                        if *at as usize == i {
                            out.push(sup);
                            out.push(sup);
                            out.push_str(CARET_TAILS[*t]);
                        }
                    }
                    out.push(LETTERS[*l as usize]);
                }
                if let Some((at, t)) = caret_at {
                    if *at as usize >= letters.len() {
                        out.push(sup);
                        out.push(sup);
                        out.push_str(CARET_TAILS[*t]);
                    }
                }
                for _ in 0..*blanks {
                    out.push(' ');
                }
            }
            Piece::LongCs(n) => {
                out.push('\\');
                for i in 0..*n {
                    out.push(LETTERS[(i as usize * 7 + *n as usize) % 5]);
                }
            }
            Piece::Run(k, n) => {
                let ch = [' ', ' ', 'a', '5', 'é', '\t'][*k as usize];
                for _ in 0..*n {
                    out.push(ch);
                }
            }
            Piece::TrailingBlanks(k) => out.push_str([" \n", "  \n", " \t\n", "   \n"][*k as usize]),
            Piece::BlankLines(k) => out.push_str(["\n\n", "\n \n", "\n  \n\n", " \n\n\n"][*k as usize]),
            Piece::Comment(k) => out.push_str(["%", "% x", "%\n", "% ^^M \n", "% é日 \n"][*k as usize]),
            Piece::CrLf => out.push_str("\r\n"),
        }
    }
}

#[derive(Clone, Debug)]
enum EndLine {
    None,
    Cr,
    Letter(u8),
    Caret,
    Ascii(u8),
    /// NUL, DEL, LF, space, a hex digit
    Boundary(u8),
}

fn endline_strategy() -> impl Strategy<Value = EndLine> {
    prop_oneof![
        4 => Just(EndLine::Cr),
        2 => Just(EndLine::None),
        2 => (0u8..4).prop_map(EndLine::Letter),
        2 => Just(EndLine::Caret),
        3 => (0u8..128).prop_map(EndLine::Ascii),
        1 => (0u8..6).prop_map(EndLine::Boundary),
    ]
}

fn hash_slot(c: char, salt: u8) -> usize {
    let h = mix(c as u64 + 1, salt as u64 + 77);
    (h % 64) as usize
}

/// Characters whose category code can matter for a source: its own characters, the end-line
/// character, and whatever a `^^` reduction could produce from them.
fn universe(src: &str, endline: Option<char>) -> BTreeSet<char> {
    let mut u: BTreeSet<char> = src.chars().filter(|c| *c != '\n').collect();
    if let Some(e) = endline {
        u.insert(e);
    }
    let chars: Vec<char> = src.chars().chain(endline).collect();
    for (i, c) in chars.iter().enumerate() {
        let v = *c as u32;
        if v < 128 {
            u.insert(char::from_u32(if v < 64 { v + 64 } else { v - 64 }).unwrap());
        }
        if let Some(d) = chars.get(i + 1) {
            let hex = |x: char| matches!(x, '0'..='9' | 'a'..='f');
            if hex(*c) && hex(*d) {
                let h = |x: char| if x <= '9' { x as u32 - 48 } else { x as u32 - 87 };
                u.insert(char::from_u32(16 * h(*c) + h(*d)).unwrap());
            }
        }
    }
    // the end-line character as second hex digit after the last character of any line
    if let Some(e) = endline {
        let hex = |x: char| matches!(x, '0'..='9' | 'a'..='f');
        let h = |x: char| if x <= '9' { x as u32 - 48 } else { x as u32 - 87 };
        for line in src.split('\n') {
            if let Some(c) = line.trim_end_matches(' ').chars().last() {
                if hex(c) && hex(e) {
                    u.insert(char::from_u32(16 * h(c) + h(e)).unwrap());
                }
            }
        }
    }
    u
}

fn render_source(pieces: &[Piece], sup: char, ending: u8) -> String {
    let mut src = String::new();
    render(pieces, sup, &mut src);
    match ending {
        0 => {
            while src.ends_with('\n') {
                src.pop();
            }
        }
        1 => {
            if !src.ends_with('\n') {
                src.push('\n');
            }
        }
        _ => {}
    }
    src
}

/// The category codes of the characters of `universe`: plain TeX with p=0.6, uniform 0..15 with
/// p=0.4 (decided per character by `sel`/`salt`); an alias superscript character is mostly made
/// category 7. Only codes that differ from plain TeX are listed unless `explicit_all`.
fn table_for(universe: &BTreeSet<char>, sup_alias: Option<char>, sel: &[u8], salt: u8, explicit_all: bool) -> Vec<(char, u8)> {
    let mut cats = vec![];
    for &c in universe {
        let s = sel[hash_slot(c, salt)];
        let mut k = plain_default(c);
        if s >= 154 {
            k = (((s - 154) as u32 * 16) / 102) as u8;
        }
        if sup_alias == Some(c) && s < 230 {
            k = model::SUPERSCRIPT;
        }
        if explicit_all || k != plain_default(c) {
            cats.push((c, k));
        }
    }
    cats
}

fn build_case(pieces: &[Piece], sup_alias: Option<usize>, sel: &[u8], salt: u8, endline: &EndLine, ending: u8) -> LexCase {
    let sup = sup_alias.map(|i| SUP_ALIASES[i]).unwrap_or('^');
    let src = render_source(pieces, sup, ending);
    let endline = match endline {
        EndLine::None => None,
        EndLine::Cr => Some('\r'),
        EndLine::Letter(k) => Some(['a', 'M', 'B', 'e'][*k as usize]),
        // the quantifier has ASCII end-line characters only
        EndLine::Caret => Some(if sup.is_ascii() { sup } else { '^' }),
        EndLine::Ascii(b) => Some(*b as char),
        EndLine::Boundary(k) => Some(['\0', '\u{7f}', '\n', ' ', 'a', '5'][*k as usize]),
    };
    let cats = table_for(&universe(&src, endline), sup_alias.map(|_| sup), sel, salt, false);
    LexCase { src, cats, endline }
}

fn case_strategy(max_pieces: usize) -> impl Strategy<Value = LexCase> {
    (
        proptest::collection::vec(piece(), 0..max_pieces),
        proptest::option::weighted(0.25, 0..SUP_ALIASES.len()),
        proptest::collection::vec(any::<u8>(), 64),
        any::<u8>(),
        endline_strategy(),
        0u8..4,
    )
        .prop_map(|(pieces, alias, sel, salt, endline, ending)| build_case(&pieces, alias, &sel, salt, &endline, ending))
}

/// A case whose configuration changes after a number of `next` calls (TeX's rules are dynamic:
/// category codes are consulted per character, `\endlinechar` when a line is read).
#[derive(Clone, Debug, Serialize, Deserialize)]
pub struct SwitchCase {
    pub first: LexCase,
    pub second_cats: Vec<(char, u8)>,
    pub second_endline: Option<char>,
    pub after_calls: usize,
    /// Further changes, ascending in `after_calls` (absolute call numbers).
    #[serde(default)]
    pub more: Vec<SwitchStep>,
}

#[derive(Clone, Debug, Serialize, Deserialize)]
pub struct SwitchStep {
    pub after_calls: usize,
    pub cats: Vec<(char, u8)>,
    pub endline: Option<char>,
}

/// Number of `next` calls the TeX model makes for the source under the given steps.
fn model_calls(c: &LexCase, steps: &[(usize, Cfg)]) -> usize {
    let cfg = Cfg::new(&c.cats, c.endline);
    let st: Vec<(usize, &Cfg)> = steps.iter().map(|(a, c)| (*a, c)).collect();
    model_items(&c.src, &cfg, &st, false, Deviations::default(), Reading::default()).calls
}

fn switch_strategy() -> impl Strategy<Value = SwitchCase> {
    (
        proptest::collection::vec(piece(), 0..18),
        proptest::option::weighted(0.25, 0..SUP_ALIASES.len()),
        proptest::collection::vec(proptest::collection::vec(any::<u8>(), 64), 4),
        any::<u8>(),
        proptest::collection::vec(endline_strategy(), 4),
        0u8..4,
        // number of changes (1..=3), "the last change goes back to the first configuration",
        // position of every change as a fraction of the calls that remain
        (prop_oneof![5 => Just(1usize), 3 => Just(2usize), 2 => Just(3usize)], any::<bool>(), proptest::collection::vec(0u32..1000, 3)),
    )
        .prop_map(|(pieces, alias, sels, salt, ends, ending, (n_steps, back, fracs))| {
            let first = build_case(&pieces, alias, &sels[0], salt, &ends[0], ending);
            let mut steps: Vec<(usize, Cfg)> = vec![];
            let mut raw: Vec<SwitchStep> = vec![];
            let mut from = 0usize;
            for i in 0..n_steps {
                // Half of the slots keep the first table's choice.
                let sel: Vec<u8> = sels[0].iter().zip(&sels[i + 1]).enumerate().map(|(j, (a, b))| if j % 2 == 0 { *a } else { *b }).collect();
                // build_case derives its universe from (src, endline), so the table covers the
                // characters the new end-line char can produce, too.
                let mut next = build_case(&pieces, alias, &sel, salt, &ends[i + 1], ending);
                if back && i + 1 == n_steps && i > 0 {
                    next = first.clone();
                }
                // Position: somewhere in the calls the model still makes under the steps so far
                // (the final call that reports the end of input included).
                let total = model_calls(&first, &steps);
                let span = total.saturating_sub(from) + 1;
                let at = from + (span as u64 * fracs[i] as u64 / 1000) as usize;
                steps.push((at, Cfg::new(&next.cats, next.endline)));
                raw.push(SwitchStep { after_calls: at, cats: next.cats, endline: next.endline });
                from = at;
            }
            let head = raw.remove(0);
            SwitchCase { first, second_cats: head.cats, second_endline: head.endline, after_calls: head.after_calls, more: raw }
        })
}

fn switch_oracle(ctx: &Ctx, c: &SwitchCase, case: &mut Case) -> Verdict {
    let mut cfgs: Vec<(usize, Cfg)> = vec![(c.after_calls, Cfg::new(&c.second_cats, c.second_endline))];
    let mut at = c.after_calls;
    for m in &c.more {
        at = at.max(m.after_calls);
        cfgs.push((at, Cfg::new(&m.cats, m.endline)));
    }
    let steps: Vec<(usize, &Cfg)> = cfgs.iter().map(|(a, c)| (*a, c)).collect();
    let mut prev_end = c.first.endline;
    let mut prev_cats = &c.first.cats;
    let (mut end_changes, mut table_changes) = (0, 0);
    for (_, s) in &steps {
        if s_endline(s) != prev_end {
            end_changes += 1;
        }
        prev_end = s_endline(s);
    }
    for cats in std::iter::once(&c.second_cats).chain(c.more.iter().map(|m| &m.cats)) {
        if cats != prev_cats {
            table_changes += 1;
        }
        prev_cats = cats;
    }
    case.class_if(end_changes > 0, "end-line char changes");
    case.class_if(end_changes > 1, "end-line char changes twice or more");
    case.class_if(table_changes > 0, "table changes");
    case.class_if(table_changes > 1, "table changes twice or more");
    case.class_if(!c.more.is_empty(), "two or more changes of the configuration");
    case.class_if(c.more.last().map(|m| m.cats == c.first.cats && m.endline == c.first.endline).unwrap_or(false), "last change goes back to the first configuration");
    let v = oracle(ctx, &c.first, &steps, case);
    let mut note = describe(&c.first);
    note.push_str(&format!(" then after {} calls endlinechar={:?} catcodes=[{}]", c.after_calls, c.second_endline, show_cats(&c.second_cats)));
    for m in &c.more {
        note.push_str(&format!(" then after {} calls endlinechar={:?} catcodes=[{}]", m.after_calls, m.endline, show_cats(&m.cats)));
    }
    case.note = Some(note.clone());
    match v {
        Verdict::Fail(m) => Verdict::Fail(format!("{}\nwhole case: {}", m, note)),
        v => v,
    }
}

fn s_endline(c: &Cfg) -> Option<char> {
    c.endline
}

// ------------------------------------------------------------------------------------------------
// Exhaustive small scope

const SMALL_ALPHABET: [char; 8] = ['\\', '^', 'a', '5', ' ', '\n', '%', 'é'];

fn small_tables() -> Vec<(Vec<(char, u8)>, Option<char>)> {
    use model::*;
    vec![
        (vec![], Some('\r')),
        (vec![], None),
        (vec![], Some('a')),
        (vec![], Some('^')),
        (vec![('5', LETTER), ('é', LETTER), ('%', END_OF_LINE)], Some('5')),
        (vec![('a', SUPERSCRIPT), ('^', LETTER), (' ', OTHER), ('5', SPACE), ('%', END_OF_LINE), ('é', LETTER)], Some('\r')),
        (vec![('\\', OTHER), ('a', ESCAPE), ('5', IGNORED), ('é', INVALID), (' ', LETTER), ('%', ACTIVE), ('\r', LETTER)], Some('\r')),
        (vec![('é', SUPERSCRIPT), ('^', ESCAPE), ('\\', SPACE), (' ', SUPERSCRIPT), ('5', COMMENT), ('\u{1a}', ESCAPE), ('\u{1e}', SUPERSCRIPT), ('Z', SUPERSCRIPT)], Some(' ')),
    ]
}

fn small_count(max_len: u32) -> u64 {
    (0..=max_len).map(|n| 8u64.pow(n)).sum()
}

fn small_string(mut i: u64) -> String {
    // index -> (length, digits): strings ordered by length, then lexicographically by symbol index
    let mut len = 0u32;
    loop {
        let n = 8u64.pow(len);
        if i < n {
            break;
        }
        i -= n;
        len += 1;
    }
    let mut s = vec![];
    for _ in 0..len {
        s.push(SMALL_ALPHABET[(i % 8) as usize]);
        i /= 8;
    }
    s.reverse();
    s.into_iter().collect()
}

// ------------------------------------------------------------------------------------------------
// vm_path: the repository's own `lexer::Config` (TexlangState -> codes.rs, endlinechar.rs)

/// One source file run by a VM:
/// `\def\vpsetup{\catcode N=K … \endlinechar=E \vpcollect}\vpsetup` + (LF or one space) + body.
/// The macro body is tokenised before anything changes, its expansion makes the assignments from a
/// token list, and `\vpcollect` (a harness command) then pulls unexpanded tokens from the VM until
/// the input ends, tracing each with `VM::trace`. So everything after `\vpsetup` on the first line
/// (at least the CR that was appended when that line was read) and all further lines are scanned
/// under the new table, and all further lines get the new end-line character.
#[derive(Clone, Debug, Serialize, Deserialize)]
pub struct VmCase {
    pub body: String,
    /// `\catcode` assignments, in this order.
    pub cats: Vec<(char, u8)>,
    pub endlinechar: i32,
    /// The body starts on the first line, one space after `\vpsetup`.
    pub same_line: bool,
}

const ENDLINE_VALUES: [i32; 14] = [-1, 0, 13, 65, 94, 127, 128, 255, 256, -2147483647, 2147483647, 0x10FFFE, 0xD800, 10];

/// What TeX reads an `\endlinechar` value as (§360: inactive when <0 or >255). Values >= 128 are
/// outside the quantifier (ASCII): both "none" and "that character" are accepted.
fn endline_readings(n: i32) -> Vec<Option<char>> {
    if n < 0 {
        vec![None]
    } else if n < 128 {
        vec![Some(n as u8 as char)]
    } else {
        let mut v = vec![None];
        if let Some(c) = char::from_u32(n as u32) {
            v.push(Some(c));
        }
        v
    }
}

fn vm_strategy() -> impl Strategy<Value = VmCase> {
    (
        proptest::collection::vec(piece(), 0..14),
        proptest::option::weighted(0.25, 0..SUP_ALIASES.len()),
        proptest::collection::vec(any::<u8>(), 64),
        any::<u8>(),
        prop_oneof![10 => (0..ENDLINE_VALUES.len()).prop_map(|i| ENDLINE_VALUES[i]), 4 => 0i32..128, 1 => 128i32..300],
        0u8..4,
        any::<bool>(),
        proptest::bool::weighted(0.25),
    )
        .prop_map(|(pieces, alias, sel, salt, endlinechar, ending, explicit_all, same_line)| {
            let sup = alias.map(|i| SUP_ALIASES[i]).unwrap_or('^');
            let body = render_source(&pieces, sup, ending);
            // The table covers the body, the CR that ends the first line, and the end-line
            // character (for values >= 128: as if it were that character).
            let e = endline_readings(endlinechar).last().copied().flatten();
            let uni = universe(&format!("{}\r", body), e);
            let cats = table_for(&uni, alias.map(|_| sup), &sel, salt, explicit_all);
            VmCase { body, cats, endlinechar, same_line }
        })
}

fn vm_source(c: &VmCase) -> String {
    let mut s = String::from("\\def\\vpsetup{");
    for (ch, k) in &c.cats {
        s.push_str(&format!("\\catcode {}={} ", *ch as u32, k & 15));
    }
    s.push_str(&format!("\\endlinechar={} \\vpcollect}}\\vpsetup", c.endlinechar));
    s.push(if c.same_line { ' ' } else { '\n' });
    s.push_str(&c.body);
    s
}

thread_local! {
    static COLLECTED: std::cell::RefCell<Vec<Obs>> = const { std::cell::RefCell::new(Vec::new()) };
}

fn vpcollect_fn(_t: Token, input: &mut texlang::vm::ExecutionInput<crate::texvm::HState>) -> texlang::prelude::Result<()> {
    use texlang::traits::*;
    loop {
        let t = match input.unexpanded().next()? {
            None => return Ok(()),
            Some(t) => t,
        };
        let tok = tok_of(&t, input.vm().cs_name_interner());
        let tr = trace_tuple(input.vm().trace(t));
        COLLECTED.with(|c| c.borrow_mut().push(Obs { tok, trace: Some(tr) }));
    }
}

struct VmRun {
    obs: Vec<Obs>,
    /// title and trace of the error that ended the run
    error: Option<(String, Option<(usize, usize, String, String)>)>,
}

fn run_vm(src: &str) -> Result<VmRun, panics::PanicInfo> {
    use texcraft_stdext::collections::groupingmap::Scope;
    panics::catch(|| {
        let mut vm = crate::texvm::new_vm(&crate::texvm::VmOptions::default());
        let cs = vm.cs_name_interner_mut().get_or_intern("vpcollect");
        vm.commands_map.insert(CommandRef::ControlSequence(cs), texlang::command::Command::Execution(vpcollect_fn, None), Scope::Global);
        COLLECTED.with(|c| c.borrow_mut().clear());
        if vm.push_source(FILE_NAME.to_string(), src.to_string()).is_err() {
            panic!("push_source failed");
        }
        let r = vm.run::<crate::texvm::Capture>();
        let error = match r {
            Ok(()) => None,
            Err(e) => Some((e.error.title(), e.error.source_code_trace_override().cloned().map(trace_tuple))),
        };
        VmRun { obs: COLLECTED.with(|c| std::mem::take(&mut *c.borrow_mut())), error }
    })
}

/// TeX on a `vm_path` source: everything up to and including the call of `\vpsetup` is scanned
/// under the VM's initial configuration (plain table, end-line char CR) and executed, not observed;
/// the rest under the assigned configuration. Stops after the first invalid character (TeX goes
/// on after the error; the VM ends the run, which the property does not rule out).
fn vm_model(src: &str, cfg: &Cfg, reading: Reading) -> (Vec<Item>, model::Scanner) {
    let plain = Cfg::new(&[], Some('\r'));
    let mut s = model::Scanner::with_reading(src, Deviations::default(), reading);
    let mut seen = 0;
    while seen < 2 {
        match s.next(&plain, false) {
            Item::Cs { name, .. } if name == "vpsetup" => seen += 1,
            Item::EndOfInput => unreachable!("preamble"),
            _ => {}
        }
    }
    s.stats = model::Stats::default();
    let mut out = vec![];
    loop {
        match s.next(cfg, false) {
            Item::EndOfInput => break,
            it => {
                let stop = matches!(it, Item::Invalid { .. });
                out.push(it);
                if stop {
                    break;
                }
            }
        }
    }
    (out, s)
}

fn vm_oracle(ctx: &Ctx, c: &VmCase, case: &mut Case) -> Verdict {
    let src = vm_source(c);
    let readings = endline_readings(c.endlinechar);
    let note = format!("body={:?} same_line={} \\endlinechar={} \\catcode assignments=[{}]", c.body, c.same_line, c.endlinechar, show_cats(&c.cats));
    case.note = Some(note.clone());
    // classes (first reading)
    let cfg0 = Cfg::new(&c.cats, readings[0]);
    let (items0, sc0) = vm_model(&src, &cfg0, Reading::default());
    classify_stats(&sc0.stats, case);
    case.class(match c.endlinechar {
        i32::MIN..=-1 => "\\endlinechar negative",
        0 => "\\endlinechar=0",
        13 => "\\endlinechar=13",
        127 => "\\endlinechar=127",
        1..=126 => "\\endlinechar other ASCII",
        128..=255 => "\\endlinechar 128..255 (outside the quantifier)",
        _ => "\\endlinechar >= 256",
    });
    case.class_if(c.cats.iter().any(|(ch, _)| !ch.is_ascii()), "\\catcode of a non-ASCII char assigned (sparse map)");
    case.class_if(c.cats.iter().any(|(ch, k)| !ch.is_ascii() && (*k & 15) != model::OTHER), "non-ASCII char gets a code other than 12");
    case.class_if(c.body.chars().any(|ch| !ch.is_ascii() && !c.cats.iter().any(|(d, _)| *d == ch)), "non-ASCII char of the body left at the default code");
    case.class_if(c.cats.iter().any(|(ch, _)| *ch == '\u{7f}' || *ch == '\0'), "\\catcode of NUL or DEL assigned");
    case.class_if(c.cats.iter().any(|(ch, _)| *ch == '\u{80}'), "\\catcode of U+0080 assigned");
    case.class_if(c.same_line, "body starts on the line of the assignments");
    case.class_if(cfg0.code('\r') != model::END_OF_LINE, "CR (end of the first line) no longer cat 5");
    case.class_if(matches!(items0.last(), Some(Item::Invalid { .. })), "run ended by an invalid character");
    case.class_if(sc0.lines.len() >= 3, "body of >= 2 lines");
    let nontrivial = !c.cats.is_empty() || c.endlinechar != 13;

    let run = match run_vm(&src) {
        Err(info) => {
            let sig = info.signature();
            if ctx.known(&sig) {
                return Verdict::Known(sig);
            }
            return Verdict::Fail(format!("panic at {}: {}\n{}\nsource={:?}", info.site(), info.message, note, src));
        }
        Ok(r) => r,
    };
    let mut first_err = None;
    let crlf_options: &[bool] = if src.contains("\r\n") { &[false, true] } else { &[false] };
    for (ri, e, crlf) in readings.iter().enumerate().flat_map(|(ri, e)| crlf_options.iter().map(move |c| (ri, e, *c))) {
        let cfg = Cfg::new(&c.cats, *e);
        let (items, sc) = vm_model(&src, &cfg, Reading { crlf_is_line_end: crlf, ..Reading::default() });
        let (body_items, invalid) = match items.last() {
            Some(Item::Invalid { ch, span }) => (&items[..items.len() - 1], Some((*ch, *span))),
            _ => (&items[..], None),
        };
        let mut seen = Seen::default();
        let mut r = compare(body_items, &sc.lines, &run.obs, &mut seen);
        if r.is_ok() {
            r = match (&invalid, &run.error) {
                (None, None) => Ok(()),
                (None, Some((t, _))) => Err(format!("the run ended with the error {:?}, TeX reads the whole source", t)),
                (Some((ch, _)), None) => Err(format!("the run ended normally, TeX finds the invalid character {:?}", ch)),
                (Some((ch, span)), Some((t, tr))) => {
                    if !t.contains(&format!("(Unicode code point {})", *ch as u32)) {
                        Err(format!("the run ended with the error {:?}, TeX finds the invalid character {:?} (code point {})", t, ch, *ch as u32))
                    } else if let Some(tr) = tr {
                        check_trace(body_items.len(), &Tok::Invalid(*ch), span, &sc.lines[span.line - 1], tr, &mut seen).map_err(|e| format!("invalid-character error: {}", e))
                    } else {
                        Ok(())
                    }
                }
            };
        }
        match r {
            Ok(()) => {
                if crlf {
                    seen.crlf_alternative += 1;
                }
                classify_seen(&seen, case);
                if readings.len() > 1 {
                    case.class(if ri == 0 { "\\endlinechar >= 128 read as none" } else { "\\endlinechar >= 128 read as that character" });
                }
                return Verdict::pass(nontrivial);
            }
            Err(e) => {
                if first_err.is_none() {
                    first_err = Some(e);
                }
            }
        }
    }
    Verdict::Fail(format!("[vm_path] {}\n{}\nsource={:?}", first_err.unwrap(), note, src))
}

// ------------------------------------------------------------------------------------------------
// long_inputs: stack use per `^^` reduction, very long lines, very many lines

#[derive(Clone, Debug, Serialize, Deserialize)]
pub struct LongCase {
    /// 0: `\` + chain of n reductions at the first character of a name; 1: the same chain in
    /// running text; 2: after `\j` (look-ahead path); 3: the chain with hex forms (`^^5e`) at the
    /// first character of a name; 4: a name of n letters; 5: n lines `a`; 6: a comment of n
    /// characters, then a line; 7: n blanks between two letters and n trailing blanks.
    pub shape: u8,
    pub n: u32,
}

const LONG_SHAPES: u8 = 8;
/// The stack a main thread usually has.
const NORMAL_STACK: usize = 8 << 20;

fn long_source(shape: u8, n: usize) -> String {
    match shape {
        0 => format!("\\^^{}+", "\u{1e}^".repeat(n)),
        1 => format!("^^{}+", "\u{1e}^".repeat(n)),
        2 => format!("\\j^^{}+", "\u{1e}^".repeat(n)),
        3 => format!("\\^^{}+", "5e^".repeat(n)),
        4 => format!("\\{}", "a".repeat(n)),
        5 => "a\n".repeat(n),
        6 => format!("a%{}\nb", "é".repeat(n)),
        _ => format!("a{}b{}\nc", " ".repeat(n), " ".repeat(n)),
    }
}

/// (token, line, column) of the first items and of the last item, and the number of items, that
/// TeX delivers under the plain table with end-line char CR (`report_end_of_line` = false).
/// Checked against the model for small n.
fn long_expected(shape: u8, n: usize) -> (Vec<(Tok, usize, Vec<usize>)>, usize) {
    let sp = |line: usize, cols: Vec<usize>| (Tok::Char(' ', model::SPACE), line, cols);
    match shape {
        0 => (vec![(Tok::Cs("k".into()), 1, vec![0])], 1),
        1 => (vec![(Tok::Char('k', model::LETTER), 1, vec![0, 2 * n + 2]), sp(1, vec![2 * n + 3])], 2),
        2 => (vec![(Tok::Cs("jk".into()), 1, vec![0])], 1),
        3 => (vec![(Tok::Cs("k".into()), 1, vec![0])], 1),
        4 => (vec![(Tok::Cs("a".repeat(n)), 1, vec![0])], 1),
        5 => (vec![(Tok::Char('a', model::LETTER), 1, vec![0]), sp(1, vec![1]), (Tok::Char('a', model::LETTER), 2, vec![0])], 2 * n),
        6 => (vec![(Tok::Char('a', model::LETTER), 1, vec![0]), (Tok::Char('b', model::LETTER), 2, vec![0]), sp(2, vec![1])], 3),
        _ => (
            vec![
                (Tok::Char('a', model::LETTER), 1, vec![0]),
                sp(1, vec![1]),
                (Tok::Char('b', model::LETTER), 1, vec![n + 1]),
                sp(1, vec![n + 2, 2 * n + 2]),
                (Tok::Char('c', model::LETTER), 2, vec![0]),
                sp(2, vec![1]),
            ],
            6,
        ),
    }
}

/// A `lexer::Config` that notes how deep the stack is whenever the lexer asks for a category code.
struct StackProbe<'a> {
    inner: &'a Cfg,
    lowest: std::cell::Cell<usize>,
}

impl lexer::Config for StackProbe<'_> {
    #[inline(never)]
    fn cat_code(&self, c: char) -> CatCode {
        let marker = 0u8;
        let a = std::hint::black_box(&marker) as *const u8 as usize;
        if a < self.lowest.get() {
            self.lowest.set(a);
        }
        lexer::Config::cat_code(self.inner, c)
    }
    fn end_line_char(&self) -> Option<char> {
        self.inner.endline
    }
}

/// Lex the whole source (plain table, CR); returns the number of items, the first `keep` and the
/// last item with their traces, and the deepest stack use seen (bytes below the caller's frame).
#[inline(never)]
fn long_lex(src: &str, keep: usize) -> Result<(usize, Vec<Obs>, Option<Obs>, usize), String> {
    let cfg = Cfg::new(&[], Some('\r'));
    let probe = StackProbe { inner: &cfg, lowest: std::cell::Cell::new(usize::MAX) };
    let here = 0u8;
    let base = std::hint::black_box(&here) as *const u8 as usize;
    let mut tracer = trace::Tracer::default();
    let mut interner = CsNameInterner::default();
    let range = tracer.register_source_code(None, trace::Origin::File(FILE_NAME.into()), src);
    let mut lx = lexer::Lexer::new(src.to_string(), range);
    let bound = 2 * src.chars().count() + 8;
    let mut n = 0usize;
    let mut first = vec![];
    let mut last: Option<Token> = None;
    loop {
        match lx.next(&probe, &mut interner, false) {
            lexer::Result::Token(t) => {
                if n < keep {
                    first.push(Obs { tok: tok_of(&t, &interner), trace: Some(trace_tuple(tracer.trace(t, &interner))) });
                }
                last = Some(t);
                n += 1;
            }
            lexer::Result::InvalidCharacter(c, _) => return Err(format!("invalid character {:?}", c)),
            lexer::Result::EndOfLine => return Err("EndOfLine marker although report_end_of_line is false".into()),
            lexer::Result::EndOfInput => break,
        }
        if n > bound {
            return Err("no termination".into());
        }
    }
    let last = last.map(|t| Obs { tok: tok_of(&t, &interner), trace: Some(trace_tuple(tracer.trace(t, &interner))) });
    Ok((n, first, last, base.saturating_sub(probe.lowest.get())))
}

fn long_check(shape: u8, n: usize) -> Result<usize, String> {
    let src = long_source(shape, n);
    let (want, want_n) = long_expected(shape, n);
    let (got_n, first, _last, used) = long_lex(&src, want.len())?;
    if got_n != want_n {
        return Err(format!("{} items delivered, TeX delivers {}", got_n, want_n));
    }
    for (i, ((tok, line, cols), o)) in want.iter().zip(&first).enumerate() {
        if *tok != o.tok {
            let show = |t: &Tok| {
                let s = show_tok(t);
                if s.len() > 60 {
                    format!("{}… ({} bytes)", s.chars().take(40).collect::<String>(), s.len())
                } else {
                    s
                }
            };
            return Err(format!("item {} is {}, TeX delivers {}", i, show(&o.tok), show(tok)));
        }
        let (ln, col, _, _) = o.trace.as_ref().unwrap();
        if ln != line || !cols.contains(col) {
            return Err(format!("item {} ({}) traced to line {} column {}, it started at line {} column {:?}", i, show_tok(tok).chars().take(40).collect::<String>(), ln, col, line, cols));
        }
    }
    Ok(used)
}

fn long_oracle(ctx: &Ctx, c: &LongCase, case: &mut Case) -> Verdict {
    let shape = c.shape % LONG_SHAPES;
    let n = c.n as usize;
    case.note = Some(format!("shape {} n {}: {:?}", shape, n, long_source(shape, 3)));
    case.class(["chain at first char of name", "chain in running text", "chain on the look-ahead path of a name", "hex chain at first char of name", "long name", "many lines", "long non-ASCII comment", "long runs of blanks"][shape as usize]);
    // 1. The closed-form expectation is what the model says (small sizes).
    for m in [1usize, 2, 7, 200] {
        let src = long_source(shape, m);
        let cfg = Cfg::new(&[], Some('\r'));
        let run = model_items(&src, &cfg, &[], false, Deviations::default(), Reading::default());
        let (want, want_n) = long_expected(shape, m);
        let ok = run.items.len() == want_n
            && want.iter().zip(&run.items).all(|((tok, line, cols), it)| {
                let (t, span) = item_tok(it);
                let span = span.unwrap();
                t == *tok && span.line == *line && cols.iter().all(|c| span.allows(*c))
            });
        if !ok {
            return Verdict::Fail(format!("CALIBRATION: closed-form expectation for long input shape {} n {} disagrees with the reference scanner", shape, m));
        }
        // and the ordinary oracle on the same input
        if let Verdict::Fail(m) = oracle(ctx, &LexCase { src, cats: vec![], endline: Some('\r') }, &[], &mut Case::default()) {
            return Verdict::Fail(m);
        }
    }
    // 2. Stack use must not grow with the size of the input: every frame per character / per
    //    reduction is a crash (stack overflow, not even a panic) for a long enough line.
    let measure = |m: usize| panics::catch(|| long_check(shape, m));
    let (small, big) = (200usize, 2000usize);
    let (a, b) = match (measure(small), measure(big)) {
        (Ok(Ok(a)), Ok(Ok(b))) => (a, b),
        (Err(p), _) | (_, Err(p)) => return Verdict::Fail(format!("panic at {}: {} (long input shape {} n<={})", p.site(), p.message, shape, big)),
        (Ok(Err(e)), _) | (_, Ok(Err(e))) => return Verdict::Fail(format!("long input shape {} n<={}: {}", shape, big, e)),
    };
    let growth = b.saturating_sub(a);
    if growth >= (big - small) * 8 {
        let per = growth / (big - small);
        return Verdict::Fail(format!(
            "stack use grows with the input: {} bytes at n={}, {} bytes at n={} (about {} bytes per step) for sources of the form {:?}: a line with about {} steps overflows a normal {} MiB stack, which aborts the process (lexing must not even panic)",
            a,
            small,
            b,
            big,
            per,
            long_source(shape, 2),
            NORMAL_STACK / per.max(1),
            NORMAL_STACK >> 20
        ));
    }
    case.class("stack use independent of input size (n=200 vs n=2000)");
    // 3. The real size, on a normal stack.
    let r = std::thread::scope(|s| {
        std::thread::Builder::new()
            .stack_size(NORMAL_STACK)
            .spawn_scoped(s, || {
                crate::engine::panics::install_hook();
                panics::catch(|| long_check(shape, n))
            })
            .expect("spawn")
            .join()
    });
    match r {
        Ok(Ok(Ok(_))) => Verdict::pass(true),
        Ok(Ok(Err(e))) => Verdict::Fail(format!("long input shape {} n {}: {}", shape, n, e)),
        Ok(Err(p)) => Verdict::Fail(format!("panic at {}: {} (long input shape {} n {})", p.site(), p.message, shape, n)),
        Err(_) => Verdict::Fail(format!("the lexing thread died (long input shape {} n {})", shape, n)),
    }
}

// ------------------------------------------------------------------------------------------------

pub fn run(ctx: &Ctx) {
    ctx.rule("cases = (source text, category-code table, \\endlinechar); random sources are concatenations of pieces over \\ { } $ & # ^ _ ~ % space letters digits LF CR NUL DEL TAB é 日 😀 with injected ^^X forms (^^M ^^? ^^@ ^^5a ^^zz ^^é …, at line ends, inside/after control sequence names, chains of up to 14 reductions in running text / at the first character of a name / after a name's first letter), long names and long runs of blanks, trailing blanks, blank lines, CR LF, with/without final newline; every character that occurs or can result from a ^^ reduction gets the plain-TeX code with p=0.6 and a uniform code 0..15 with p=0.4; \\endlinechar in {none, CR, letter, the superscript char, uniform ASCII, NUL, DEL, LF, space, hex digit}; tokens of Lexer::next (both report_end_of_line modes) compared one for one with a transcription of TeX §343-356 and every token traced with Tracer::trace; config_switch changes table and end-line char up to three times at call numbers spread over the whole scan; vm_path makes the assignments with \\catcode / \\endlinechar in TeX source run by a VM (\\endlinechar in {-1, 0, 13, 65, 94, 127, 128, 255, 256, extremes, uniform ASCII}) and compares the unexpanded tokens the VM delivers and VM::trace of each; long_inputs lexes chains of 10^4..10^6 reductions, names, comments, blank runs and line counts of that size on an 8 MiB stack and measures that stack use does not grow with the input. non-trivial = the table differs from plain TeX on a character that occurs in the source or as end-line char, or the source contains a doubled superscript character (^^), or a non-ASCII character, or a line with trailing blanks (vm_path: some assignment is made); distinct = by (source, table, endlinechar)");
    ctx.assume("lines are split at LF and right-trimmed of U+0020 only (what lexer.rs documents; TeX's input_ln removes trailing spaces); a CR directly before the LF is either the last character of the line or part of the line terminator (tex.web 31 leaves line ends to the system; lexer.rs documents the second, implements the first): one reading per source is accepted; any other CR is an ordinary character");
    ctx.assume("^^xy with two lower-case hex digits stands for the character with that code point (0..255), the Unicode reading of TeX's 8-bit hex_to_cur_chr");
    ctx.assume("trace column: exact for ordinary characters and for control sequences (column of the escape character); for the result of a ^^ reduction the column of the first or of the last source character of the form (the token starts at the first; the implementation's keys and the repository's table tests point at the last); for the appended end-line character, which has no source character, the trimmed line length or the position of the line terminator. SourceCodeTrace::value is not judged (the property names line number, column and line text)");
    ctx.assume("report_end_of_line: n lines give n-1 EndOfLine markers; under a configuration that changes during the scan the marker may come after the next line has been read (the public API's order) or before it (TeX's \\read order, tex.web 483-486); with a fixed configuration the two cannot be told apart");
    ctx.assume("a non-ASCII end-line character and \\endlinechar values 128.. are outside the quantifier: compared against both readings (none / that character), never judged beyond panics in vm_path");
    ctx.assume("vm_path: the VM starts with the plain-TeX codes for the characters of the fixed preamble text and with \\endlinechar=13; an invalid character ends the VM's run with an error naming it (TeX reports and goes on; the property does not say which)");

    // Calibration: the repository's own table tests.
    let golds = model::goldens();
    let idx: Vec<GoldCase> = (0..golds.len()).map(|index| GoldCase { index }).collect();
    run_list(ctx, "goldens", idx, |g: &GoldCase, case| golden_oracle(ctx, &golds[g.index], case));

    // Exhaustive small scope.
    let max_len = ctx.tier.pick(5u32, 6u32);
    let per_table = small_count(max_len);
    let tables = small_tables();
    let total = per_table * tables.len() as u64;
    ctx.extra("exhaustive_small", "scope", serde_json::json!({"alphabet": SMALL_ALPHABET.iter().collect::<String>(), "max_len": max_len, "tables": tables.len()}));
    run_indexed(
        ctx,
        "exhaustive_small",
        total,
        true,
        |i| {
            let (cats, endline) = &tables[(i / per_table) as usize];
            LexCase { src: small_string(i % per_table), cats: cats.clone(), endline: *endline }
        },
        |c: &LexCase, case| oracle(ctx, c, &[], case),
    );

    // Random search.
    let n = ctx.tier.pick(700_000u64, 10_000_000u64);
    run_generated(ctx, "random", n, || case_strategy(16), |c: &LexCase, case| oracle(ctx, c, &[], case));
    let n = ctx.tier.pick(70_000u64, 1_000_000u64);
    run_generated(ctx, "random_long", n, || case_strategy(60), |c: &LexCase, case| oracle(ctx, c, &[], case));
    let n = ctx.tier.pick(120_000u64, 2_000_000u64);
    run_generated(ctx, "config_switch", n, switch_strategy, |c: &SwitchCase, case| switch_oracle(ctx, c, case));
    let n = ctx.tier.pick(16_000u64, 600_000u64);
    run_generated(ctx, "vm_path", n, vm_strategy, |c: &VmCase, case| vm_oracle(ctx, c, case));

    // Long inputs on a normal stack.
    let sizes: Vec<u32> = ctx.tier.pick(vec![10_000, 100_000], vec![10_000, 100_000, 1_000_000, 3_000_000]);
    let mut long = vec![];
    for shape in 0..LONG_SHAPES {
        for &n in &sizes {
            // tracing costs time linear in the offset: keep the many-lines shape moderate
            long.push(LongCase { shape, n: if shape == 5 { n.min(300_000) } else { n } });
        }
    }
    run_list(ctx, "long_inputs", long, |c: &LongCase, case| long_oracle(ctx, c, case));
}
