//! C11 TFM<->PL conversion is an idempotent normalisation that preserves the font.
//!
//! t0 = a .tfm: a corpus file, `pl_to_tfm` of a corpus .plst, `pl_to_tfm` of a generated property
//! list rendered as PL text (sub-check `generated`), or the same generated font written by an
//! independent TFM writer in a legal but scrambled, non-canonical layout (`generated_tfm`; this includes indirect
//! entry words, skip_byte > 128, in the middle of the lig/kern table, e.g. inside the range a SKIP jumps over,
//! which PLtoTF itself only ever writes at the front), or a hand-made file (`raw_tfm`). If `tfm_to_pl(t0)` is
//! warning-free, t1 = pl_to_tfm(tfm_to_pl(t0)) must be (i) a fixed point of a further round trip
//! (byte identical, no warning on either leg, independent of the character display format),
//! (ii) the same font as t0 for an independent reader of the TFM format (TeX 540-546): resolved
//! width/height/depth/italic, tags with their data, parameters, header, (iii) the same lig/kern
//! meaning: (a) the instruction TeX 1039 selects for every (left, right) including both boundaries,
//! read from the raw bytes, and (b) `CompiledProgram::run` on all pairs and sampled 3-letter words,
//! (iv) in canonical shape (dimension tables zero-first, strictly increasing; kern table without
//! duplicates), and (v, `generated_tfm` only) independent of the layout of the original: the scrambled
//! file and PLtoTF's own file of the same font normalise to the same bytes.
//! For generated fonts the harness also knows what the font is supposed to be, so `pl_to_tfm(PL)` is
//! first compared with the generator's intention ("(gen)" failures: PL -> TFM mistranslation; this
//! pre-check is what calibrates the independent reader, the renderer and the writer).

use crate::engine::*;
use proptest::prelude::*;
use serde::{Deserialize, Serialize};
use std::collections::{BTreeMap, BTreeSet};

// ------------------------------------------------------------------------------------
// Independent reader of the TFM format (TeX: The Program 539-546, 573, 1039).

#[derive(Clone, Debug)]
struct Raw {
    header: Vec<[u8; 4]>,
    bc: usize,
    ci: Vec<[u8; 4]>,
    width: Vec<i32>,
    height: Vec<i32>,
    depth: Vec<i32>,
    italic: Vec<i32>,
    lk: Vec<[u8; 4]>,
    kern: Vec<i32>,
    ext: Vec<[u8; 4]>,
    param: Vec<i32>,
}

fn read_tfm(b: &[u8]) -> Result<Raw, String> {
    if b.len() < 24 {
        return Err("shorter than 24 bytes".into());
    }
    let h = |i: usize| u16::from_be_bytes([b[2 * i], b[2 * i + 1]]) as usize;
    let (lf, lh, bc, ec, nw, nh, nd, ni, nl, nk, ne, np) = (h(0), h(1), h(2), h(3), h(4), h(5), h(6), h(7), h(8), h(9), h(10), h(11));
    let nc = if bc > ec + 1 { return Err("bc>ec+1".into()) } else { ec + 1 - bc };
    if ec > 255 && nc > 0 {
        return Err("ec>255".into());
    }
    if lf != 6 + lh + nc + nw + nh + nd + ni + nl + nk + ne + np {
        return Err("sizes do not add up".into());
    }
    if b.len() != lf * 4 {
        return Err(format!("file has {} bytes, lf says {}", b.len(), lf * 4));
    }
    let mut pos = 24usize;
    let mut take = |n: usize| -> Vec<[u8; 4]> {
        let v: Vec<[u8; 4]> = (0..n).map(|k| [b[pos + 4 * k], b[pos + 4 * k + 1], b[pos + 4 * k + 2], b[pos + 4 * k + 3]]).collect();
        pos += 4 * n;
        v
    };
    let fw = |v: Vec<[u8; 4]>| -> Vec<i32> { v.into_iter().map(i32::from_be_bytes).collect() };
    let header = take(lh);
    let ci = take(nc);
    let width = fw(take(nw));
    let height = fw(take(nh));
    let depth = fw(take(nd));
    let italic = fw(take(ni));
    let lk = take(nl);
    let kern = fw(take(nk));
    let ext = take(ne);
    let param = fw(take(np));
    Ok(Raw { header, bc, ci, width, height, depth, italic, lk, kern, ext, param })
}

#[derive(Clone, Debug, PartialEq, Eq)]
enum TagV {
    None,
    Lig,
    List(u8),
    /// top, mid, bot, rep
    Ext([u8; 4]),
    /// refers to a recipe that does not exist
    BadExt(u8),
}

#[derive(Clone, Debug, PartialEq, Eq)]
struct CharV {
    w: Option<i32>,
    h: Option<i32>,
    d: Option<i32>,
    i: Option<i32>,
    tag: TagV,
}

/// The operation TeX performs for a pair.
#[derive(Clone, Copy, Debug, PartialEq, Eq)]
enum OpV {
    Kern(Option<i32>),
    /// op_byte (4a+2b+c), inserted character
    Lig(u8, u8),
}

const LEFT_BOUNDARY: u16 = 256;

#[derive(Clone, Debug)]
struct View {
    chars: BTreeMap<u8, CharV>,
    params: Vec<i32>,
    checksum: u32,
    design_size: i32,
    scheme: Option<Vec<u8>>,
    family: Option<Vec<u8>>,
    seven_bit: Option<bool>,
    face: Option<u8>,
    extra_header: Vec<[u8; 4]>,
    boundary_char: Option<u8>,
    /// (left (256 = left boundary), right) -> operation; only existing left characters.
    lig: BTreeMap<(u16, u8), OpV>,
    /// instruction indices each left walks through
    walks: BTreeMap<u16, Vec<usize>>,
    nl: usize,
    redirected: usize,
}

fn bcpl(words: &[[u8; 4]], from: usize, n_words: usize) -> Option<Vec<u8>> {
    if words.len() < from + n_words {
        return None;
    }
    let bytes: Vec<u8> = words[from..from + n_words].iter().flat_map(|w| w.iter().copied()).collect();
    let len = (bytes[0] as usize).min(bytes.len() - 1);
    Some(bytes[1..1 + len].to_vec())
}

fn view(r: &Raw) -> View {
    let mut chars = BTreeMap::new();
    for (k, w) in r.ci.iter().enumerate() {
        if w[0] == 0 {
            continue;
        }
        let code = (r.bc + k) as u8;
        let tag = match w[2] & 3 {
            0 => TagV::None,
            1 => TagV::Lig,
            2 => TagV::List(w[3]),
            _ => match r.ext.get(w[3] as usize) {
                Some(e) => TagV::Ext(*e),
                None => TagV::BadExt(w[3]),
            },
        };
        chars.insert(
            code,
            CharV {
                w: r.width.get(w[0] as usize).copied(),
                h: r.height.get((w[1] >> 4) as usize).copied(),
                d: r.depth.get((w[1] & 15) as usize).copied(),
                i: r.italic.get((w[2] >> 2) as usize).copied(),
                tag,
            },
        );
    }
    let nl = r.lk.len();
    let boundary_char = if nl > 0 && r.lk[0][0] == 255 { Some(r.lk[0][1]) } else { None };
    let mut starts: Vec<(u16, usize)> = vec![];
    let mut redirected = 0;
    for (k, w) in r.ci.iter().enumerate() {
        if w[0] == 0 || w[2] & 3 != 1 {
            continue;
        }
        let rem = w[3] as usize;
        if rem >= nl {
            continue;
        }
        let s = r.lk[rem];
        let start = if s[0] > 128 {
            redirected += 1;
            256 * s[2] as usize + s[3] as usize
        } else {
            rem
        };
        starts.push(((r.bc + k) as u16, start));
    }
    if nl > 0 && r.lk[nl - 1][0] == 255 {
        let s = r.lk[nl - 1];
        starts.push((LEFT_BOUNDARY, 256 * s[2] as usize + s[3] as usize));
    }
    let mut lig = BTreeMap::new();
    let mut walks = BTreeMap::new();
    for (left, start) in starts {
        let mut i = start;
        let mut walk = vec![];
        let mut guard = 0;
        while i < nl && guard <= nl {
            guard += 1;
            let s = r.lk[i];
            if s[0] > 128 {
                break;
            }
            walk.push(i);
            let op = if s[2] >= 128 { OpV::Kern(r.kern.get(256 * (s[2] as usize - 128) + s[3] as usize).copied()) } else { OpV::Lig(s[2], s[3]) };
            lig.entry((left, s[1])).or_insert(op);
            if s[0] >= 128 {
                break;
            }
            i += s[0] as usize + 1;
        }
        walks.insert(left, walk);
    }
    let word = |i: usize| r.header.get(i).copied();
    View {
        chars,
        params: r.param.clone(),
        checksum: word(0).map(u32::from_be_bytes).unwrap_or(0),
        design_size: word(1).map(i32::from_be_bytes).unwrap_or(0),
        scheme: bcpl(&r.header, 2, 10),
        family: bcpl(&r.header, 12, 5),
        seven_bit: word(17).map(|w| w[0] >= 128),
        face: word(17).map(|w| w[3]),
        extra_header: r.header.iter().skip(18).copied().collect(),
        boundary_char,
        lig,
        walks,
        nl,
        redirected,
    }
}

/// PLtoTF's hash table of (left, right) pairs has this many slots; with that many distinct pairs PLtoTF
/// stops looking at further instructions and prints "Sorry, I haven't room for so many ligature/kern pairs!".
const PLTOTF_HASH_SIZE: usize = 5003;

/// Why PLtoTF would clear the seven-bit-safe flag (empty = the font is seven-bit safe). PLtoTF 110-113:
/// `seven_unsafe` becomes true when an EXISTING character c < 128 has NEXTLARGER g >= 128, a VARCHAR piece >= 128
/// (`check_existence_and_safety`), or when the lig/kern program of c < 128 or of the left boundary (c = 256) has a
/// LIG instruction inserting a character >= 128 whose right character is < 128 or is the boundary character;
/// an instruction shadowed by an earlier one for the same right character does not count (`hash_input` is
/// false for it). Labels of non-existent characters do not count (`char_wd[c] <> 0`).
fn unsafe_reasons(v: &View) -> Vec<&'static str> {
    let mut why = vec![];
    for (c, ch) in &v.chars {
        if *c >= 128 {
            continue;
        }
        match &ch.tag {
            TagV::List(g) if *g >= 128 => why.push("7bit: unsafe by NEXTLARGER"),
            TagV::Ext(e) if e.iter().any(|p| *p >= 128) => why.push("7bit: unsafe by VARCHAR"),
            _ => {}
        }
    }
    for ((l, r), op) in &v.lig {
        let left_counts = *l == LEFT_BOUNDARY || (*l < 128 && v.chars.contains_key(&(*l as u8)));
        if let (true, OpV::Lig(_, z)) = (left_counts, op) {
            if *z >= 128 {
                if *r < 128 {
                    why.push(if *l == LEFT_BOUNDARY { "7bit: unsafe by LIG in the left boundary program" } else { "7bit: unsafe by LIG" });
                } else if Some(*r) == v.boundary_char {
                    why.push("7bit: unsafe by LIG whose right character is the boundary char >= 128");
                }
            }
        }
    }
    why.sort();
    why.dedup();
    why
}

/// An instruction that would make the font unsafe but is shadowed by an earlier one for the same pair.
fn shadowed_eight_bit_lig(r: &Raw, v: &View) -> bool {
    v.walks.iter().any(|(l, walk)| {
        (*l == LEFT_BOUNDARY || (*l < 128 && v.chars.contains_key(&(*l as u8))))
            && walk.iter().any(|i| {
                let s = r.lk[*i];
                s[2] < 128 && s[3] >= 128 && (s[1] < 128 || Some(s[1]) == v.boundary_char) && v.lig.get(&(*l, s[1])) != Some(&OpV::Lig(s[2], s[3]))
            })
    })
}

fn upper(s: &[u8]) -> Vec<u8> {
    s.iter().map(|c| c.to_ascii_uppercase()).collect()
}

/// What PLtoTF 87 (read_BCPL) keeps of a header string that TFtoPL 52 printed: leading blanks are skipped.
fn pl_string(s: &[u8]) -> Vec<u8> {
    let lead = s.iter().take_while(|c| **c == b' ').count();
    upper(&s[lead..])
}

fn show(s: &Option<Vec<u8>>) -> String {
    match s {
        None => "<absent>".into(),
        Some(v) => format!("{:?}", String::from_utf8_lossy(v)),
    }
}

/// (ii): same characters, dimensions, tags, parameters, header. `a` = original, `b` = canonical.
fn compare_views(a: &View, b: &View) -> Result<(), String> {
    let ka: Vec<u8> = a.chars.keys().copied().collect();
    let kb: Vec<u8> = b.chars.keys().copied().collect();
    if ka != kb {
        let only_a: Vec<u8> = ka.iter().filter(|c| !kb.contains(c)).copied().collect();
        let only_b: Vec<u8> = kb.iter().filter(|c| !ka.contains(c)).copied().collect();
        return Err(format!("character sets differ: only in original {:?}, only in canonical {:?}", only_a, only_b));
    }
    for (c, x) in &a.chars {
        let y = &b.chars[c];
        if x != y {
            return Err(format!("character {} (octal {:o}): original {:?}, canonical {:?}", c, c, x, y));
        }
    }
    if a.params != b.params {
        return Err(format!("parameters differ: original {:?}, canonical {:?}", a.params, b.params));
    }
    if a.checksum != b.checksum {
        return Err(format!("checksum: original {:o}, canonical {:o}", a.checksum, b.checksum));
    }
    if a.design_size != b.design_size {
        return Err(format!("design size: original {}, canonical {}", a.design_size, b.design_size));
    }
    // TFtoPL 52 prints lower-case letters of the two header strings in upper case without a warning;
    // PLtoTF 70 supplies UNSPECIFIED / face 0 when the original header is too short to have the field.
    // PLtoTF 87 skips the blanks in front of a string, so a string that starts with blanks loses them (F2).
    let want_scheme = Some(a.scheme.as_ref().map(|s| pl_string(s)).unwrap_or_else(|| b"UNSPECIFIED".to_vec()));
    if b.scheme != want_scheme {
        return Err(format!("coding scheme: original {}, canonical {}", show(&a.scheme), show(&b.scheme)));
    }
    let want_family = Some(a.family.as_ref().map(|s| pl_string(s)).unwrap_or_else(|| b"UNSPECIFIED".to_vec()));
    if b.family != want_family {
        return Err(format!("family: original {}, canonical {}", show(&a.family), show(&b.family)));
    }
    if b.face != Some(a.face.unwrap_or(0)) {
        return Err(format!("face: original {:?}, canonical {:?}", a.face, b.face));
    }
    if a.extra_header != b.extra_header {
        return Err(format!("header words 18..: original {:?}, canonical {:?}", a.extra_header, b.extra_header));
    }
    Ok(())
}

fn left_name(l: u16) -> String {
    if l == LEFT_BOUNDARY {
        "left boundary".into()
    } else {
        format!("{}", l)
    }
}

/// (iii-a): the instruction selected for every pair, restricted to existing left characters.
fn compare_ligmaps(a: &View, b: &View) -> Result<(), String> {
    if a.boundary_char != b.boundary_char {
        return Err(format!("boundary character: original {:?}, canonical {:?}", a.boundary_char, b.boundary_char));
    }
    let keep = |v: &View| -> BTreeMap<(u16, u8), OpV> { v.lig.iter().filter(|((l, _), _)| *l == LEFT_BOUNDARY || v.chars.contains_key(&(*l as u8))).map(|(k, o)| (*k, *o)).collect() };
    let (ma, mb) = (keep(a), keep(b));
    if ma == mb {
        return Ok(());
    }
    for (k, o) in &ma {
        match mb.get(k) {
            Some(p) if p == o => {}
            other => return Err(format!("pair ({}, {}): original: {:?}, canonical: {:?}", left_name(k.0), k.1, o, other)),
        }
    }
    for (k, p) in &mb {
        if !ma.contains_key(k) {
            return Err(format!("pair ({}, {}): original: no rule, canonical: {:?}", left_name(k.0), k.1, p));
        }
    }
    Ok(())
}

/// (iv): canonical shape of the tables of a file written by PLtoTF (PLtoTF 75-80, 108, 117).
fn canonical_shape(r: &Raw) -> Result<(), String> {
    for (name, t, zero_allowed) in [("width", &r.width, true), ("height", &r.height, false), ("depth", &r.depth, false), ("italic", &r.italic, false)] {
        if t.first() != Some(&0) {
            return Err(format!("{} table does not start with 0: {:?}", name, t.first()));
        }
        for k in 2..t.len() {
            if t[k - 1] >= t[k] {
                return Err(format!("{} table not strictly increasing at {}: {} then {}", name, k, t[k - 1], t[k]));
            }
        }
        if !zero_allowed && t[1..].contains(&0) {
            return Err(format!("{} table contains a second zero", name));
        }
    }
    let set: BTreeSet<i32> = r.kern.iter().copied().collect();
    if set.len() != r.kern.len() {
        return Err(format!("kern table has duplicates ({} entries, {} distinct)", r.kern.len(), set.len()));
    }
    Ok(())
}

// ------------------------------------------------------------------------------------
// The conversions under test.

fn fmt_of(sel: u8, pl: &tfm::pl::File) -> tfm::pl::CharDisplayFormat {
    match sel {
        1 => tfm::pl::CharDisplayFormat::Ascii,
        2 => tfm::pl::CharDisplayFormat::Octal,
        _ => {
            // what the tftopl binary does by default
            let s = pl.header.character_coding_scheme.clone().unwrap_or_default().to_uppercase();
            if s.starts_with("TEX MATH SY") || s.starts_with("TEX MATH EX") {
                tfm::pl::CharDisplayFormat::Octal
            } else {
                tfm::pl::CharDisplayFormat::Default
            }
        }
    }
}

/// Ok((pl text, warning messages)) or Err(reader error)
fn to_pl(b: &[u8], fmt: u8) -> Result<(String, Vec<String>), String> {
    let out = tfm::algorithms::tfm_to_pl(b, 3, &|pl| fmt_of(fmt, pl)).map_err(|e| format!("fmt error {e}"))?;
    let msgs: Vec<String> = out.error_messages.iter().map(|m| m.tftopl_message()).collect();
    match out.pl_data {
        Ok(s) => Ok((s, msgs)),
        Err(e) => Err(e.tftopl_message()),
    }
}

/// A PLtoTF warning, classified on the enum (not on its Debug spelling).
#[derive(Clone, Debug, PartialEq, Eq)]
enum PlWarn {
    /// "The font is not really seven-bit-safe!" (PLtoTF 110)
    SevenBit,
    /// a PARAMETER number PLtoTF cannot take (0, 255, more than 255)
    ParamNumber,
    /// anything else; the text is for the failure message only
    Other(String),
}

fn to_tfm(pl: &str) -> (Vec<u8>, Vec<PlWarn>) {
    use tfm::pl::ParseWarningKind as K;
    let (b, w) = tfm::algorithms::pl_to_tfm(pl);
    let w = w
        .iter()
        .map(|x| match &x.kind {
            K::NotReallySevenBitSafe => PlWarn::SevenBit,
            K::SmallIntegerIsTooBig { .. } | K::ParameterNumberIsZero | K::ParameterNumberIsTooBig => PlWarn::ParamNumber,
            other => PlWarn::Other(format!("{:?}", other)),
        })
        .collect();
    (b, w)
}

fn opts(left_boundary: bool) -> tfm::ligkern::RunOptions {
    tfm::ligkern::RunOptions { disable_left_boundary: !left_boundary, right_boundary_override: None }
}

fn run_word(p: &tfm::ligkern::CompiledProgram, word: &[u8], left_boundary: bool) -> Vec<tfm::ligkern::RunItem> {
    p.run_with_options(word.iter().map(|c| char::from(*c)), opts(left_boundary)).collect()
}

/// Ok if the two programs give the same output on the word (no allocation on the common path).
fn same_run(p0: &tfm::ligkern::CompiledProgram, p1: &tfm::ligkern::CompiledProgram, word: &[u8], lb: bool) -> Result<(), String> {
    let a = p0.run_with_options(word.iter().map(|c| char::from(*c)), opts(lb));
    let b = p1.run_with_options(word.iter().map(|c| char::from(*c)), opts(lb));
    if a.eq(b) {
        Ok(())
    } else {
        Err(format!("word {:?} left-boundary={}: original {:?}, canonical {:?}", word, lb, run_word(p0, word, lb), run_word(p1, word, lb)))
    }
}

fn compile(b: &[u8]) -> Result<(tfm::ligkern::CompiledProgram, usize), String> {
    let (f, _) = tfm::File::deserialize(b);
    let mut f = f.map_err(|e| format!("{:?}", e))?;
    let (p, errs) = tfm::ligkern::CompiledProgram::compile_from_tfm_file(&mut f);
    Ok((p, errs.len()))
}

/// (iii-b)
fn compare_runs(t0: &[u8], t1: &[u8], v0: &View, v1: &View, case: &mut Case) -> Result<(), String> {
    let (p0, e0) = compile(t0)?;
    let (p1, e1) = compile(t1)?;
    if e0 != 0 || e1 != 0 {
        return Err(format!("compile_from_tfm_file reports infinite loops: original {}, canonical {}", e0, e1));
    }
    let chars: Vec<u8> = v0.chars.keys().copied().collect();
    // single letters: (left boundary, c) and (c, right boundary)
    for &c in &chars {
        for lb in [true, false] {
            same_run(&p0, &p1, &[c], lb)?;
        }
    }
    // All pairs. A character without a lig tag in both files has no program in either (ii checked the
    // tags), so beyond 48 characters only a deterministic sample of those is paired with every right.
    let tagged = |c: &u8| v0.chars[c].tag == TagV::Lig || v1.chars.get(c).map(|x| x.tag == TagV::Lig).unwrap_or(false);
    let seed = fnv64(t0);
    let mut with_rule = 0u64;
    for (k, &l) in chars.iter().enumerate() {
        if chars.len() > 48 && !tagged(&l) && mix(seed, k as u64) % 16 != 0 {
            continue;
        }
        for &r in &chars {
            same_run(&p0, &p1, &[l, r], false)?;
            if v0.lig.contains_key(&(l as u16, r)) {
                with_rule += 1;
                same_run(&p0, &p1, &[l, r], true)?;
            }
        }
    }
    case.class_if(with_rule > 0, "run: pairs with a rule");
    // 3-letter words over the characters that occur in rules
    let mut pool: BTreeSet<u8> = BTreeSet::new();
    for ((l, r), op) in &v0.lig {
        if *l != LEFT_BOUNDARY {
            pool.insert(*l as u8);
        }
        pool.insert(*r);
        if let OpV::Lig(_, z) = op {
            pool.insert(*z);
        }
    }
    let pool: Vec<u8> = pool.into_iter().filter(|c| v0.chars.contains_key(c)).collect();
    if !pool.is_empty() {
        let mut s = seed;
        for k in 0..240u64 {
            s = mix(s, k + 77);
            let pick = |x: u64| pool[(x % pool.len() as u64) as usize];
            let word = [pick(s), pick(s >> 16), pick(s >> 32)];
            same_run(&p0, &p1, &word, (s >> 60) & 1 == 1)?;
        }
        case.class("run: 3-letter words");
    }
    Ok(())
}

#[derive(Default)]
struct Shape {
    shared: bool,
    big: bool,
    boundary_rule: bool,
}

fn classify(v: &View, case: &mut Case) -> Shape {
    let mut users: BTreeMap<usize, u32> = BTreeMap::new();
    for (l, w) in &v.walks {
        if *l != LEFT_BOUNDARY && !v.chars.contains_key(&(*l as u8)) {
            continue;
        }
        for i in w {
            *users.entry(*i).or_default() += 1;
        }
    }
    let shared = users.values().any(|n| *n >= 2);
    let big = v.nl > 255;
    let left_prog = v.walks.get(&LEFT_BOUNDARY).map(|w| !w.is_empty()).unwrap_or(false);
    let right_rule = v.boundary_char.map(|bc| v.lig.keys().any(|(_, r)| *r == bc)).unwrap_or(false);
    case.class_if(shared, "lig: >=2 labels share instructions");
    case.class_if(big, "lig: >255 instructions");
    case.class_if(v.redirected > 0, "lig: entry point redirected");
    case.class_if(left_prog, "lig: left boundary program");
    case.class_if(right_rule, "lig: rule for right boundary char");
    case.class_if(v.boundary_char.is_some(), "lig: boundary char declared");
    case.class_if(!v.lig.is_empty(), "lig: has program");
    let mut forms = [false; 12];
    let mut kern = false;
    for op in v.lig.values() {
        match op {
            OpV::Kern(_) => kern = true,
            OpV::Lig(o, _) => {
                if (*o as usize) < 12 {
                    forms[*o as usize] = true
                }
            }
        }
    }
    case.class_if(kern, "op: KRN");
    for (o, name) in [(0, "op: LIG"), (1, "op: LIG/"), (2, "op: /LIG"), (3, "op: /LIG/"), (5, "op: LIG/>"), (6, "op: /LIG>"), (7, "op: /LIG/>"), (11, "op: /LIG/>>")] {
        case.class_if(forms[o], name);
    }
    case.class_if(v.chars.values().any(|c| matches!(c.tag, TagV::List(_))), "tag: NEXTLARGER");
    case.class_if(v.chars.values().any(|c| matches!(c.tag, TagV::Ext(_))), "tag: VARCHAR");
    case.class_if(v.chars.values().any(|c| matches!(c.tag, TagV::Ext(e) if e[..3].contains(&0))), "tag: VARCHAR with an absent piece");
    let next = |c: u8| match v.chars.get(&c).map(|x| &x.tag) {
        Some(TagV::List(d)) => Some(*d),
        _ => None,
    };
    case.class_if(v.chars.keys().any(|c| next(*c).and_then(next).and_then(next).is_some()), "tag: NEXTLARGER chain of >= 3 links");
    case.class_if(v.boundary_char.map(|b| !v.chars.contains_key(&b)).unwrap_or(false), "lig: boundary char is not a character of the font");
    case.class_if(v.chars.values().any(|c| c.w.unwrap_or(0) < 0), "dimen: negative width");
    case.class_if(v.chars.values().any(|c| c.h.unwrap_or(0) < 0), "dimen: negative height");
    case.class_if(v.chars.values().any(|c| c.d.unwrap_or(0) < 0), "dimen: negative depth");
    case.class_if(v.chars.values().any(|c| c.i.unwrap_or(0) < 0), "dimen: negative italic correction");
    let n = v.chars.len();
    case.class(match n {
        0 => "chars: 0",
        1..=15 => "chars: 1-15",
        16..=127 => "chars: 16-127",
        128..=255 => "chars: 128-255",
        _ => "chars: 256",
    });
    case.class_if(!v.params.is_empty(), "params: some");
    Shape { shared, big, boundary_rule: left_prog || right_rule }
}

/// Where the indirect entry words (skip_byte > 128, TeX 573: "the program starts at 256*op_byte+remainder") of t0
/// sit. PLtoTF 139-141 puts them in front of all instructions (and the left-boundary word behind the last one); a
/// word is "in the middle" when a real instruction precedes it and it is not the left-boundary word.
fn indirect_words(r: &Raw, v: &View, case: &mut Case) {
    let nl = r.lk.len();
    let Some(first_real) = r.lk.iter().position(|s| s[0] <= 128) else { return };
    let left_word = |j: usize| j + 1 == nl && r.lk[j][0] == 255;
    let mut users: BTreeMap<usize, u32> = BTreeMap::new();
    let mut direct: BTreeSet<usize> = BTreeSet::new();
    for w in r.ci.iter().filter(|w| w[0] != 0 && w[2] & 3 == 1 && (w[3] as usize) < nl) {
        if r.lk[w[3] as usize][0] > 128 {
            *users.entry(w[3] as usize).or_default() += 1;
        } else {
            direct.insert(w[3] as usize);
        }
    }
    let live: BTreeSet<usize> = v.walks.values().flatten().copied().collect();
    let left_walk: BTreeSet<usize> = v.walks.get(&LEFT_BOUNDARY).map(|w| w.iter().copied().collect()).unwrap_or_default();
    let jumps = |set: &BTreeSet<usize>, j: usize| set.iter().filter(|i| (1..128).contains(&r.lk[**i][0]) && **i < j && j <= **i + r.lk[**i][0] as usize).count();
    let target = |j: usize| 256 * r.lk[j][2] as usize + r.lk[j][3] as usize;
    let real = |j: usize| j < nl && r.lk[j][0] <= 128;
    let middle: Vec<usize> = (first_real + 1..nl).filter(|j| r.lk[*j][0] > 128 && !left_word(*j)).collect();
    let used: Vec<usize> = middle.iter().copied().filter(|j| users.contains_key(j)).collect();
    case.class_if(!used.is_empty(), "lig: indirect entry word in the middle of the table");
    case.class_if(used.len() >= 2, "lig: two or more indirect entry words in the middle of the table");
    case.class_if(used.iter().any(|j| jumps(&live, *j) > 0), "lig: indirect entry word inside a SKIP range");
    case.class_if(used.iter().any(|j| jumps(&live, *j) >= 2), "lig: indirect entry word inside two SKIP ranges");
    case.class_if(used.iter().any(|j| jumps(&left_walk, *j) > 0), "lig: indirect entry word inside a SKIP range of the left-boundary program");
    case.class_if(live.iter().any(|i| (1..128).contains(&r.lk[*i][0]) && used.iter().filter(|j| **j > *i && **j <= *i + r.lk[*i][0] as usize).count() >= 2), "lig: two indirect entry words inside one SKIP range");
    case.class_if(live.iter().any(|i| (1..128).contains(&r.lk[*i][0]) && (*i + 1..=*i + r.lk[*i][0] as usize).all(|j| used.contains(&j))), "lig: a SKIP jumps over indirect entry words only");
    case.class_if(used.iter().any(|j| jumps(&live, *j) == 0 && live.contains(&(*j - 1)) && live.contains(&(*j + 1))), "lig: indirect entry word between two programs");
    case.class_if(used.iter().any(|j| real(*j - 1) && !live.contains(&(*j - 1))), "lig: indirect entry word directly after an unreachable instruction");
    case.class_if(used.iter().any(|j| real(*j + 1) && !live.contains(&(*j + 1))), "lig: indirect entry word directly before an unreachable instruction");
    case.class_if(used.iter().any(|j| users[j] >= 2), "lig: indirect entry word in the middle shared by several characters");
    case.class_if(used.iter().any(|j| direct.contains(&target(*j))), "lig: one start entered directly and through an indirect word in the middle");
    case.class_if(used.iter().any(|j| users.keys().any(|k| k != j && !left_word(*k) && target(*k) == target(*j))), "lig: one start entered through two indirect words");
    case.class_if(used.iter().any(|j| target(*j) < *j), "lig: indirect entry word in the middle pointing backwards");
    case.class_if(used.iter().any(|j| *j + 1 == nl || (*j + 2 == nl && left_word(nl - 1))), "lig: indirect entry word behind the last instruction");
    case.class_if(used.iter().any(|j| r.lk[*j][0] == 255), "lig: indirect entry word in the middle with skip_byte 255");
    case.class_if(middle.iter().any(|j| !users.contains_key(j)), "lig: unused indirect word in the middle of the table");
    case.class_if(nl > 0 && users.contains_key(&(nl - 1)) && left_word(nl - 1), "lig: character enters through the left-boundary word");
}

/// Instruction indices reached from `start` by following skip bytes (TeX 1039 / TFtoPL 70).
fn walk_from(r: &Raw, start: usize) -> Vec<usize> {
    let nl = r.lk.len();
    let (mut i, mut guard, mut walk) = (start, 0, vec![]);
    while i < nl && guard <= nl {
        guard += 1;
        let s = r.lk[i];
        if s[0] > 128 {
            break;
        }
        walk.push(i);
        if s[0] >= 128 {
            break;
        }
        i += s[0] as usize + 1;
    }
    walk
}

/// Tags in char_info words of NON-EXISTENT characters (width index 0), "orphans". TFtoPL 67/89 treat a lig tag of
/// such a slot like any other (`for c:=bc to ec do if tag(c)=lig_tag`): it gets a LABEL and keeps its instructions
/// reachable; PLtoTF 124/131 writes it back iff the code lies between the first and the last existing character.
#[derive(Default, Debug)]
struct Orphans {
    lig_inside: bool,
    /// outside the tight range, every instruction it reaches is also reached by an existing character / the boundary
    lig_outside_shared: bool,
    /// outside the tight range and the only way to reach some instruction
    lig_outside_own: bool,
    other_tag: bool,
}

fn orphans(r: &Raw, v: &View) -> Orphans {
    let mut o = Orphans::default();
    let (lo, hi) = match (v.chars.keys().next(), v.chars.keys().next_back()) {
        (Some(a), Some(b)) => (*a as usize, *b as usize),
        _ => (256, 0),
    };
    let live: BTreeSet<usize> = v.walks.values().flatten().copied().collect();
    for (k, w) in r.ci.iter().enumerate() {
        if w[0] != 0 || w[2] & 3 == 0 {
            continue;
        }
        if w[2] & 3 != 1 {
            o.other_tag = true;
            continue;
        }
        let code = r.bc + k;
        if code >= lo && code <= hi {
            o.lig_inside = true;
            continue;
        }
        let rem = w[3] as usize;
        let start = match r.lk.get(rem) {
            Some(s) if s[0] > 128 => 256 * s[2] as usize + s[3] as usize,
            _ => rem,
        };
        if walk_from(r, start).iter().all(|i| live.contains(i)) {
            o.lig_outside_shared = true;
        } else {
            o.lig_outside_own = true;
        }
    }
    o
}

/// t0 with the lig tags of non-existent characters outside the tight character range erased.
fn erase_outside_orphans(t0: &[u8]) -> Option<Vec<u8>> {
    let r = read_tfm(t0).ok()?;
    let existing: Vec<usize> = r.ci.iter().enumerate().filter(|(_, w)| w[0] != 0).map(|(k, _)| k).collect();
    let (lo, hi) = match (existing.first(), existing.last()) {
        (Some(a), Some(b)) => (*a, *b),
        _ => (usize::MAX, 0),
    };
    let mut out = t0.to_vec();
    let mut any = false;
    for (k, w) in r.ci.iter().enumerate() {
        if w[0] == 0 && w[2] & 3 == 1 && (k < lo || k > hi) {
            let at = 24 + 4 * r.header.len() + 4 * k;
            out[at + 2] &= !3;
            out[at + 3] = 0;
            any = true;
        }
    }
    any.then_some(out)
}

pub const ORPHAN_FLAG: &str = "flag:lig_label_of_absent_char_outside_bc_ec_survives_one_round_trip";

/// The deviating model behind ORPHAN_FLAG, exact in bytes. Knuth's programs (and the crate) treat a lig tag of a
/// non-existent character outside the range of existing characters in two steps: TFtoPL prints its LABEL and keeps
/// its instructions alive, PLtoTF then cannot store the tag (bc..ec is the tight range) but still writes the
/// instructions; only the NEXT round trip comments them out as unreachable. So the model predicts: the second
/// round trip of t0 equals the first round trip of t0-with-those-tags-erased, and that file is a fixed point.
fn orphan_model_predicts(t0: &[u8], t2: &[u8], fmt: u8) -> bool {
    let rt = |b: &[u8]| -> Option<Vec<u8>> {
        let (p, w) = to_pl(b, fmt).ok()?;
        if !w.is_empty() {
            return None;
        }
        let (t, w) = to_tfm(&p);
        w.is_empty().then_some(t)
    };
    match erase_outside_orphans(t0) {
        None => false,
        Some(t0e) => rt(&t0e).as_deref() == Some(t2) && rt(t2).as_deref() == Some(t2),
    }
}

/// The whole oracle on one original file. `fmt` selects the display format of the main legs;
/// `known_orphan` = ORPHAN_FLAG is a listed finding.
fn check_font(t0: &[u8], fmt: u8, known_orphan: bool, case: &mut Case) -> Verdict {
    // leg 1 must be warning-free, otherwise the file is outside the quantifier
    let leg1 = crate::engine::panics::catch(|| to_pl(t0, fmt));
    let (pl0, w0) = match leg1 {
        Err(_) => return Verdict::Skip("tfm_to_pl(t0) panics (C10 territory)"),
        Ok(Err(_)) => return Verdict::Skip("t0 is not a readable TFM"),
        Ok(Ok(x)) => x,
    };
    if !w0.is_empty() {
        return Verdict::Skip("tfm_to_pl(t0) reports warnings");
    }
    let (t1, w1) = to_tfm(&pl0);
    if !w1.is_empty() {
        // The property list format cannot carry every TFM: PLtoTF rejects parameter numbers above 254
        // (TFtoPL prints them all the same) and re-derives the seven-bit-safe flag. Such fonts do not
        // "convert without warnings"; any other warning about TFtoPL's own output is a failure.
        let np = read_tfm(t0).map(|r| r.param.len()).unwrap_or(0);
        if w1.iter().all(|w| *w == PlWarn::SevenBit) {
            // legitimate only if PLtoTF's own rule (110-113) calls the font unsafe
            return match read_tfm(t0).map(|r| view(&r)) {
                Ok(v) if unsafe_reasons(&v).is_empty() && v.lig.len() < PLTOTF_HASH_SIZE => {
                    Verdict::Fail("(ii) pl_to_tfm reports \"not really seven-bit-safe\" for a font whose flag is set rightly: by PLtoTF 110-113 no character below 128 generates one above 127".into())
                }
                _ => Verdict::Skip("pl_to_tfm: t0 claims seven-bit safety wrongly"),
            };
        }
        if np >= 255 && w1.iter().all(|w| matches!(w, PlWarn::SevenBit | PlWarn::ParamNumber)) {
            return Verdict::Skip("pl_to_tfm: t0 has more than 254 parameters (not expressible in PL)");
        }
        let mut kinds: Vec<String> = w1.iter().map(|w| format!("{:?}", w).chars().take(120).collect()).collect();
        kinds.dedup();
        kinds.truncate(6);
        return Verdict::Fail(format!("(i) pl_to_tfm rejects parts of the warning-free output of tfm_to_pl(t0): {} warnings, e.g. {:?}", w1.len(), kinds));
    }
    // (i) fixed point
    let (pl1, wa) = match to_pl(&t1, fmt) {
        Ok(x) => x,
        Err(e) => return Verdict::Fail(format!("(i) canonical file is unreadable: {e}")),
    };
    if !wa.is_empty() {
        return Verdict::Fail(format!("(i) tfm_to_pl(t1) warns: {:?}", wa));
    }
    let (t2, wb) = to_tfm(&pl1);
    if !wb.is_empty() {
        return Verdict::Fail(format!("(i) pl_to_tfm(tfm_to_pl(t1)) warns: {:?}", wb));
    }
    let mut known_hit = false;
    if t2 != t1 {
        let at = t1.iter().zip(t2.iter()).position(|(a, b)| a != b).unwrap_or(t1.len().min(t2.len()));
        let msg = format!("(i) second round trip is not the identity: lengths {} -> {}, first difference at byte {}", t1.len(), t2.len(), at);
        if !orphan_model_predicts(t0, &t2, fmt) {
            return Verdict::Fail(msg);
        }
        if !known_orphan {
            return Verdict::Fail(format!("{msg}; t0 gives a lig tag to a non-existent character outside the range of existing characters and t2 is exactly what {ORPHAN_FLAG} predicts"));
        }
        // everything else is still demanded of t1
        known_hit = true;
    }
    // (i') the canonical file does not depend on how characters are displayed
    for other in 0..3u8 {
        if other == fmt {
            continue;
        }
        match to_pl(t0, other) {
            Ok((p, w)) if w.is_empty() => {
                let (tx, _) = to_tfm(&p);
                if tx != t1 {
                    return Verdict::Fail(format!("(i') canonical file depends on the character display format: format {} vs {}", fmt, other));
                }
            }
            Ok((_, w)) => return Verdict::Fail(format!("(i') warnings depend on display format {}: {:?}", other, w)),
            Err(e) => return Verdict::Fail(format!("(i') format {}: {}", other, e)),
        }
    }
    // (ii)
    let r0 = match read_tfm(t0) {
        Ok(r) => r,
        Err(_) => return Verdict::Skip("t0 has trailing bytes or sizes my reader rejects"),
    };
    let r1 = match read_tfm(&t1) {
        Ok(r) => r,
        Err(e) => return Verdict::Fail(format!("(ii) canonical file is not a well-formed TFM: {e}")),
    };
    let (v0, v1) = (view(&r0), view(&r1));
    if let Err(e) = compare_views(&v0, &v1) {
        return Verdict::Fail(format!("(ii) {e}"));
    }
    if v0.seven_bit == Some(true) && v1.seven_bit != Some(true) {
        return Verdict::Fail("(ii) seven-bit-safe flag lost".into());
    }
    // PLtoTF 133 writes the flag it computed itself, whatever the property list claims: the canonical file
    // carries it exactly when PLtoTF 110-113 finds the font safe (both directions).
    let why1 = unsafe_reasons(&v1);
    let hash_full = v1.lig.len() >= PLTOTF_HASH_SIZE;
    case.class_if(hash_full, "7bit: >= 5003 lig/kern pairs (PLtoTF's hash table is full, flag not demanded)");
    if !hash_full && v1.seven_bit != Some(why1.is_empty()) {
        return Verdict::Fail(format!(
            "(ii) seven-bit-safe flag of the canonical file is {:?}, but by PLtoTF 110-113 the font is {} {:?}",
            v1.seven_bit,
            if why1.is_empty() { "safe" } else { "unsafe" },
            why1
        ));
    }
    // (iii-a)
    if let Err(e) = compare_ligmaps(&v0, &v1) {
        return Verdict::Fail(format!("(iii) lig/kern instruction selected by TeX: {e}"));
    }
    // (iii-b)
    if let Err(e) = compare_runs(t0, &t1, &v0, &v1, case) {
        return Verdict::Fail(format!("(iii) compiled programs: {e}"));
    }
    // (iv)
    if let Err(e) = canonical_shape(&r1) {
        return Verdict::Fail(format!("(iv) canonical file: {e}"));
    }
    let shape = classify(&v0, case);
    case.class(if t1 == t0 { "t1 == t0 (already canonical)" } else { "t1 != t0 (normalised)" });
    case.class_if(r0.height.len() == 16, "heights: 15 distinct");
    case.class_if(r0.depth.len() == 16, "depths: 15 distinct");
    case.class_if(r0.italic.len() == 64, "italics: 63 distinct");
    case.class_if(r0.width.len() >= 200, "widths: >=199 distinct");
    case.class_if(r0.width.len() == 256, "widths: 255 distinct");
    case.class_if(r0.kern.len() > 256, "kerns: >256");
    case.class_if(r1.kern.len() > 256, "kerns: >256 in canonical file");
    case.class_if(r1.lk.iter().any(|s| s[0] <= 128 && s[2] >= 129), "kerns: index >= 256 used in canonical file");
    case.class_if(r0.param.len() > 30, "params: >30");
    case.class_if(r0.param.len() == 254, "params: exactly 254");
    case.class_if(r0.param.first().map(|s| s.unsigned_abs() >= FIX_LIMIT as u32).unwrap_or(false), "params: |SLANT| >= 16");
    case.class_if(r0.header.len() > 24, "header: >24 words");
    case.class_if(r0.header.len() < 18, "header: <18 words");
    case.class_if((3..12).contains(&r0.header.len()), "header: lh 3-11 (partial scheme)");
    case.class_if((12..17).contains(&r0.header.len()), "header: lh 12-16 (scheme, partial family)");
    case.class_if(r0.header.len() == 17, "header: lh 17 (no face word)");
    case.class_if(r0.header.len() > 18 && r0.header.last() == Some(&[0; 4]), "header: last word is zero");
    for (s, full, name_full, name_blank, name_lead) in [
        (&v0.scheme, 39, "scheme: 39 bytes", "scheme: ends with a blank", "scheme: starts with a blank"),
        (&v0.family, 19, "family: 19 bytes", "family: ends with a blank", "family: starts with a blank"),
    ] {
        if let Some(s) = s {
            case.class_if(s.len() == full, name_full);
            case.class_if(s.last() == Some(&b' '), name_blank);
            case.class_if(s.first() == Some(&b' '), name_lead);
        }
    }
    // seven-bit safety
    let mixed = v0.chars.keys().any(|c| *c < 128) && v0.chars.keys().any(|c| *c >= 128);
    case.class_if(mixed && why1.is_empty(), "7bit: mixed font, safe");
    case.class_if(mixed && !why1.is_empty(), "7bit: mixed font, unsafe");
    for w in &why1 {
        case.class(w);
    }
    case.class_if(shadowed_eight_bit_lig(&r1, &v1), "7bit: an 8-bit LIG is shadowed by an earlier instruction");
    case.class_if(v0.seven_bit == Some(true), "7bit: t0 has the flag");
    case.class_if(v0.seven_bit != Some(true) && v1.seven_bit == Some(true), "7bit: flag gained (t0 safe but unflagged)");
    // skips
    let max_skip = |r: &Raw| r.lk.iter().filter(|s| s[0] < 128).map(|s| s[0]).max().unwrap_or(0);
    case.class_if(max_skip(&r0) >= 64, "skip: >= 64 in t0");
    case.class_if(max_skip(&r1) >= 64, "skip: >= 64 in canonical file");
    case.class_if(max_skip(&r1) >= 100, "skip: >= 100 in canonical file");
    let lands_on_last = |r: &Raw, v: &View| {
        let live: BTreeSet<usize> = v.walks.values().flatten().copied().collect();
        live.iter().any(|i| r.lk[*i][0] > 0 && r.lk[*i][0] < 128 && i + r.lk[*i][0] as usize + 1 == r.lk.len() - 1)
    };
    case.class_if(lands_on_last(&r0, &v0), "skip: lands on the last instruction of t0");
    case.class_if(lands_on_last(&r1, &v1), "skip: lands on the last instruction of the canonical file");
    {
        let live: BTreeSet<usize> = v0.walks.values().flatten().copied().collect();
        let mixed_range = live.iter().any(|i| {
            let m = r0.lk[*i][0] as usize;
            m > 0 && m < 128 && {
                let inside = (i + 1..i + 1 + m).filter(|j| live.contains(j)).count();
                inside > 0 && inside < m
            }
        });
        case.class_if(mixed_range, "skip: range with reachable and unreachable instructions");
    }
    indirect_words(&r0, &v0, case);
    // orphans
    let o = orphans(&r0, &v0);
    case.class_if(o.lig_inside, "t0: orphan lig tag inside the tight range");
    case.class_if(o.lig_outside_shared, "t0: orphan lig tag outside the tight range, shared chain");
    case.class_if(o.lig_outside_own, "t0: orphan lig tag outside the tight range, own chain");
    case.class_if(o.other_tag, "t0: orphan NEXTLARGER/VARCHAR tag");
    let zero_at = |w: &[u8; 4]| {
        let at = |t: &Vec<i32>, k: usize| k > 0 && t.get(k) == Some(&0);
        w[0] != 0 && (at(&r0.height, (w[1] >> 4) as usize) || at(&r0.depth, (w[1] & 15) as usize) || at(&r0.italic, (w[2] >> 2) as usize))
    };
    case.class_if(r0.ci.iter().any(zero_at), "t0: non-zero index of a zero height/depth/italic");
    if known_hit {
        return Verdict::Known(ORPHAN_FLAG.into());
    }
    Verdict::pass(shape.shared || shape.big || shape.boundary_rule)
}

// ------------------------------------------------------------------------------------
// Generated fonts. The proptest value is an unconstrained recipe (indices, entropy); `build`
// turns any recipe into a valid property list, so every shrink step stays inside the domain.

#[derive(Clone, Debug, Serialize, Deserialize)]
pub struct RChar {
    pub code: u8,
    pub w: u16,
    pub h: Option<u16>,
    pub d: Option<u16>,
    pub i: Option<u16>,
    /// 0-5 none, 6-7 NEXTLARGER, 8-9 VARCHAR
    pub tag: u8,
    pub t: [u16; 4],
    /// rank used to keep ligatures loop-free: a ligature only inserts characters of higher level
    pub level: u8,
}

#[derive(Clone, Debug, Serialize, Deserialize)]
pub enum RItem {
    /// sel picks the character (or the left boundary)
    Label { sel: u16 },
    Step { right: u16, kind: u8, val: u16, next: u8, skip: u8 },
}

#[derive(Clone, Debug, Serialize, Deserialize)]
pub struct Recipe {
    pub checksum: Option<u32>,
    pub design_size: i32,
    pub scheme: Option<(u8, Vec<u8>)>,
    pub family: Option<Vec<u8>>,
    pub face: Option<u8>,
    pub seven_flag: u8,
    pub extra_header: Vec<(u8, u32)>,
    pub params: Vec<i32>,
    pub widths: Vec<i32>,
    pub heights: Vec<i32>,
    pub depths: Vec<i32>,
    pub italics: Vec<i32>,
    pub kerns: Vec<i32>,
    /// characters get codes 0,1,2.. instead of their own
    pub dense: bool,
    /// character k uses pool entry k instead of its own index (fills the tables to their limit)
    pub spread: bool,
    pub chars: Vec<RChar>,
    pub boundary: Option<u16>,
    pub chains: Vec<Vec<RItem>>,
    /// pad so that some label lands on this instruction number
    pub align: Option<u16>,
    pub layout: u8,
    pub fmt: u8,
    /// (skip amount selector, label selector, shape): one more chain `LABEL, step SKIP 64..127, skipped steps
    /// (with a second label somewhere inside), target step(s)` at the end of the table
    #[serde(default)]
    pub long_skip: Option<(u8, u16, u16)>,
    /// characters below 128 prefer to generate (LIG, NEXTLARGER, VARCHAR) characters below 128
    #[serde(default)]
    pub seven_bias: bool,
    /// like the selector of `scheme`: 2 = exactly 19 bytes, 3 = trailing blank, 4 = 19 bytes ending in a blank
    #[serde(default)]
    pub family_kind: u8,
    /// own TFM writer only: indirect entry words in the MIDDLE of the lig/kern table. (kind of place, place selector,
    /// target selector, 0 = no lig tag points to it, skip_byte selector, next_char byte)
    #[serde(default)]
    pub mid: Vec<(u8, u16, u16, u8, u8, u8)>,
}

#[derive(Clone, Copy, Debug, PartialEq, Eq)]
enum GNext {
    Cont,
    Stop,
    Skip(u8),
}

#[derive(Clone, Copy, Debug)]
struct GStep {
    right: u8,
    op: OpV,
    next: GNext,
}

#[derive(Clone, Debug)]
enum GItem {
    Label(u16),
    Step(GStep),
}

#[derive(Clone, Debug)]
struct GChar {
    code: u8,
    w: i32,
    h: Option<i32>,
    d: Option<i32>,
    i: Option<i32>,
    tag: TagV,
}

#[derive(Clone, Debug)]
struct GFont {
    checksum: Option<u32>,
    design_size: i32,
    scheme: Option<Vec<u8>>,
    family: Option<Vec<u8>>,
    face: Option<u8>,
    seven_flag: Option<bool>,
    extra_header: Vec<(u8, u32)>,
    params: Vec<i32>,
    chars: Vec<GChar>,
    boundary: Option<u8>,
    chains: Vec<Vec<GItem>>,
    layout: u8,
}

const FIX_LIMIT: i32 = 16 << 20;

fn dedup_keep_order(v: &[i32], max: usize, allow_zero: bool) -> Vec<i32> {
    let mut seen = BTreeSet::new();
    let mut out = vec![];
    for &x in v {
        let x = x.clamp(-(FIX_LIMIT - 1), FIX_LIMIT - 1);
        if (x == 0 && !allow_zero) || !seen.insert(x) {
            continue;
        }
        if out.len() == max {
            break;
        }
        out.push(x);
    }
    out
}

/// With `on`, the codes below 128 if there are any.
fn prefer7(v: Vec<u8>, on: bool) -> Vec<u8> {
    if on && v.iter().any(|c| *c < 128) {
        v.into_iter().filter(|c| *c < 128).collect()
    } else {
        v
    }
}

fn clean_string(v: &[u8], max: usize) -> Vec<u8> {
    // visible ASCII, no parentheses, no leading/trailing blank
    let mut s: Vec<u8> = v.iter().map(|c| 32 + c % 95).map(|c| if c == b'(' || c == b')' { b'-' } else { c }).take(max).collect();
    while s.first() == Some(&b' ') {
        s.remove(0);
    }
    while s.last() == Some(&b' ') {
        s.pop();
    }
    s
}

/// kind 2: exactly `max` bytes; 3: ends with one or two blanks; 4: `max` bytes, the last one a blank; else clean.
fn shape_string(raw: &[u8], max: usize, kind: u8) -> Vec<u8> {
    let mut s = clean_string(raw, max);
    match kind % 8 {
        2 | 4 => {
            let seed = if s.is_empty() { b"FULL LENGTH ".to_vec() } else { s.clone() };
            let mut k = 0;
            while s.len() < max {
                s.push(seed[k % seed.len()]);
                k += 1;
            }
            s[max - 1] = if kind % 8 == 4 { b' ' } else if s[max - 1] == b' ' { b'X' } else { s[max - 1] };
        }
        3 if !s.is_empty() => {
            for _ in 0..1 + raw.len() % 2 {
                if s.len() < max {
                    s.push(b' ');
                }
            }
        }
        _ => {}
    }
    s
}

fn build(r: &Recipe) -> GFont {
    // pools
    let widths = {
        let w = dedup_keep_order(&r.widths, 255, true);
        if w.is_empty() {
            vec![1 << 19]
        } else {
            w
        }
    };
    let heights = dedup_keep_order(&r.heights, 15, false);
    let depths = dedup_keep_order(&r.depths, 15, false);
    let italics = dedup_keep_order(&r.italics, 63, false);
    let kerns = {
        let k: Vec<i32> = r.kerns.iter().map(|x| (*x).clamp(-(FIX_LIMIT - 1), FIX_LIMIT - 1)).collect();
        if k.is_empty() {
            vec![-(1 << 16)]
        } else {
            k
        }
    };
    // characters
    let mut seen = BTreeSet::new();
    let mut rc: Vec<(u8, &RChar)> = vec![];
    for (k, c) in r.chars.iter().enumerate() {
        let code = if r.dense { k.min(255) as u8 } else { c.code };
        if seen.insert(code) {
            rc.push((code, c));
        }
    }
    rc.sort_by_key(|x| x.0);
    let n = rc.len();
    let codes: Vec<u8> = rc.iter().map(|x| x.0).collect();
    let level_of: BTreeMap<u8, u8> = rc.iter().map(|(code, c)| (*code, c.level % 4)).collect();
    let pick = |sel: u16| codes[sel as usize % n];
    let opt = |pool: &Vec<i32>, k: usize, own: Option<u16>| -> Option<i32> {
        match own {
            _ if pool.is_empty() => None,
            Some(0xffff) => Some(0), // an explicit zero
            _ if r.spread => Some(pool[k % pool.len()]),
            None => None,
            Some(ix) => Some(pool[ix as usize % pool.len()]),
        }
    };
    // NEXTLARGER must be acyclic: only point to a character with a larger key
    let key = |c: u8| c ^ (r.layout.wrapping_mul(37));
    let mut chars: Vec<GChar> = vec![];
    for (k, (code, c)) in rc.iter().enumerate() {
        let tag = match c.tag % 10 {
            6 | 7 => {
                let bigger: Vec<u8> = codes.iter().copied().filter(|d| key(*d) > key(*code)).collect();
                let bigger = prefer7(bigger, r.seven_bias && *code < 128);
                if bigger.is_empty() {
                    TagV::None
                } else {
                    TagV::List(bigger[c.t[0] as usize % bigger.len()])
                }
            }
            8 | 9 => {
                // a piece with code 0 means "absent" in the TFM format, so 0 is never a piece
                let nz: Vec<u8> = codes.iter().copied().filter(|d| *d != 0).collect();
                let nz = prefer7(nz, r.seven_bias && *code < 128);
                let reps = prefer7(codes.clone(), r.seven_bias && *code < 128);
                let piece = |sel: u16| -> u8 {
                    if nz.is_empty() || sel % 3 == 0 {
                        0
                    } else {
                        nz[(sel / 3) as usize % nz.len()]
                    }
                };
                TagV::Ext([piece(c.t[0]), piece(c.t[1]), piece(c.t[2]), reps[c.t[3] as usize % reps.len()]])
            }
            _ => TagV::None,
        };
        chars.push(GChar {
            code: *code,
            w: if r.spread { widths[k % widths.len()] } else { widths[c.w as usize % widths.len()] },
            h: opt(&heights, k, c.h),
            d: opt(&depths, k, c.d),
            i: opt(&italics, k, c.i),
            tag,
        });
    }
    // lig table
    let boundary: Option<u8> = r.boundary.map(|b| if n > 0 && b % 3 != 0 { pick(b / 3) } else { (b / 3) as u8 });
    let mut chains: Vec<Vec<GItem>> = vec![];
    if n > 0 {
        let mut labelled: BTreeSet<u16> = BTreeSet::new();
        let mut kern_counter = 0usize;
        let tagged: BTreeSet<u8> = chars.iter().filter(|c| c.tag != TagV::None).map(|c| c.code).collect();
        let by_level = |min: u8| -> Vec<u8> { codes.iter().copied().filter(|c| level_of[c] >= min).collect() };
        for chain in &r.chains {
            // labels first, to know the highest level that walks through this chain
            let mut labels_at: BTreeMap<usize, u16> = BTreeMap::new();
            let mut max_level = 0u8;
            for (k, it) in chain.iter().enumerate() {
                if let RItem::Label { sel } = it {
                    let left = if sel % 11 == 0 { LEFT_BOUNDARY } else { pick(sel / 11) as u16 };
                    if left != LEFT_BOUNDARY && tagged.contains(&(left as u8)) {
                        continue;
                    }
                    if !labelled.insert(left) {
                        continue;
                    }
                    if left != LEFT_BOUNDARY {
                        max_level = max_level.max(level_of[&(left as u8)]);
                    }
                    labels_at.insert(k, left);
                }
            }
            if labels_at.is_empty() {
                continue;
            }
            let mut out: Vec<GItem> = vec![];
            for (k, it) in chain.iter().enumerate() {
                match it {
                    RItem::Label { .. } => {
                        if let Some(l) = labels_at.get(&k) {
                            out.push(GItem::Label(*l));
                        }
                    }
                    RItem::Step { right, kind, val, next, skip } => {
                        let right_c = match boundary {
                            Some(b) if right % 7 == 0 => b,
                            _ => pick(right / 7),
                        };
                        let right_level = level_of.get(&right_c).copied().unwrap_or(0);
                        // a big kern pool is used round-robin so that more than 256 kerns end up in the file
                        let many = kerns.len() >= 300;
                        let kern = OpV::Kern(Some(kerns[if many { kern_counter } else { *val as usize } % kerns.len()]));
                        let op = if kind % 16 < if many { 14 } else { 8 } {
                            kern_counter += 1;
                            kern
                        } else {
                            let cands = prefer7(by_level(max_level.max(right_level) + 1), r.seven_bias);
                            if cands.is_empty() {
                                kern
                            } else {
                                let form = [0u8, 1, 2, 3, 5, 6, 7, 11][(kind % 8) as usize];
                                OpV::Lig(form, cands[*val as usize % cands.len()])
                            }
                        };
                        // with a big kern pool every step stays reachable, so the kerns survive normalisation
                        let nx = match if many { 7 } else { next % 8 } {
                            0 => GNext::Stop,
                            1 | 2 => GNext::Skip(*skip),
                            _ => GNext::Cont,
                        };
                        out.push(GItem::Step(GStep { right: right_c, op, next: nx }));
                    }
                }
            }
            // with a big kern pool every step is reachable: the first label goes in front of the first step,
            // so that kern indices >= 256 survive into the canonical file
            if kerns.len() >= 300 {
                if let Some(k) = out.iter().position(|it| matches!(it, GItem::Label(_))) {
                    let l = out.remove(k);
                    out.insert(0, l);
                }
            }
            // a label must be followed by at least one step
            if !matches!(out.last(), Some(GItem::Step(_))) {
                out.push(GItem::Step(GStep { right: codes[0], op: OpV::Kern(Some(kerns[0])), next: GNext::Stop }));
            }
            // skips stay inside the chain, the chain ends with STOP
            let step_ix: Vec<usize> = out.iter().enumerate().filter(|(_, it)| matches!(it, GItem::Step(_))).map(|(k, _)| k).collect();
            let ns = step_ix.len();
            for (j, &k) in step_ix.iter().enumerate() {
                if let GItem::Step(s) = &mut out[k] {
                    if j + 1 == ns {
                        s.next = GNext::Stop;
                    } else if let GNext::Skip(m) = s.next {
                        let room = ns - 1 - (j + 1);
                        s.next = GNext::Skip((m as usize).min(room).min(127) as u8);
                    }
                }
            }
            chains.push(out);
        }
        // alignment: pad the end of a chain so that the next chain's first label lands on `align`
        if let Some(target) = r.align {
            let target = target as usize;
            let mut pos = 0usize;
            let mut starts = vec![];
            for ch in &chains {
                starts.push(pos);
                pos += ch.iter().filter(|it| matches!(it, GItem::Step(_))).count();
            }
            if let Some(j) = (1..chains.len()).rev().find(|j| starts[*j] <= target && matches!(chains[*j].first(), Some(GItem::Label(_)))) {
                let pad = target - starts[j];
                let prev = &mut chains[j - 1];
                // now and then the pad is jumped over (as far as SKIP can jump): unreachable, dropped by normalisation
                let jump = target % 4 == 0 && pad >= 2;
                if let Some(GItem::Step(last)) = prev.last_mut() {
                    last.next = if jump { GNext::Skip((pad - 1).min(127) as u8) } else { GNext::Cont };
                }
                for q in 0..pad {
                    let right = codes[q % n];
                    prev.push(GItem::Step(GStep { right, op: OpV::Kern(Some(kerns[q % kerns.len()])), next: if q + 1 == pad { GNext::Stop } else { GNext::Cont } }));
                }
                if pad == 0 {
                    if let Some(GItem::Step(last)) = prev.last_mut() {
                        last.next = GNext::Stop;
                    }
                }
            }
        }
        // one chain with a long SKIP (PLtoTF 105 allows up to 127) at the very end of the table
        if let Some((a, b, c)) = r.long_skip {
            let free: Vec<u8> = codes.iter().copied().filter(|c| !tagged.contains(c) && !labelled.contains(&(*c as u16))).collect();
            if !free.is_empty() {
                let m = 64 + (a % 64) as usize;
                let b = b as usize;
                let kern_at = |q: usize| OpV::Kern(Some(kerns[q % kerns.len()]));
                let mut ch = vec![GItem::Label(free[b % free.len()] as u16), GItem::Step(GStep { right: codes[0], op: kern_at(0), next: GNext::Skip(m as u8) })];
                // a second label inside the skipped range makes its tail reachable (so a large skip survives)
                let inner = if free.len() > 1 && c % 5 != 0 { Some((if c % 2 == 0 { (b / 7) % (m - 62) } else { (b / 7) % m }, free[(b + 1) % free.len()])) } else { None };
                for q in 0..m {
                    match inner {
                        Some((p, l1)) if p == q => ch.push(GItem::Label(l1 as u16)),
                        _ => {}
                    }
                    ch.push(GItem::Step(GStep { right: codes[(q + 1) % n], op: kern_at(q + 1), next: GNext::Cont }));
                }
                // the target of the skip: the last instruction of the whole table when tail == 0
                let tail = (c / 10 % 4) as usize;
                for q in 0..=tail {
                    ch.push(GItem::Step(GStep { right: codes[(m + q + 1) % n], op: kern_at(m + q + 1), next: if q == tail { GNext::Stop } else { GNext::Cont } }));
                }
                chains.push(ch);
            }
        }
    }
    // header
    let scheme = r.scheme.as_ref().map(|(kind, raw)| match kind % 8 {
        0 => b"TeX math symbols".to_vec(),
        1 => b"TEX MATH EXTENSION".to_vec(),
        k => shape_string(raw, 39, k),
    });
    let mut params: Vec<i32> = r.params.iter().enumerate().map(|(k, v)| if k == 0 { *v } else { (*v).clamp(-(FIX_LIMIT - 1), FIX_LIMIT - 1) }).collect();
    if let Some(s) = &scheme {
        // TFtoPL 59 warns about an unusual parameter count for the two math schemes
        let u = upper(s);
        if u.starts_with(b"TEX MATH SY") {
            params.resize(22, 1 << 18);
        } else if u.starts_with(b"TEX MATH EX") {
            params.resize(13, 1 << 17);
        }
    }
    let mut extra: BTreeMap<u8, u32> = BTreeMap::new();
    for (ix, v) in &r.extra_header {
        extra.insert(18 + ix % 238, *v);
    }
    GFont {
        checksum: r.checksum,
        design_size: r.design_size.clamp(1 << 20, i32::MAX),
        scheme,
        family: r.family.as_ref().map(|f| shape_string(f, 19, r.family_kind)),
        face: r.face,
        seven_flag: match r.seven_flag % 8 {
            0 => Some(false),
            1 => Some(true),
            _ => None,
        },
        extra_header: extra.into_iter().collect(),
        params,
        chars,
        boundary,
        chains,
        layout: r.layout,
    }
}

// ---- rendering as PL text

/// Decimal rendering of a fix_word with 7 fractional digits (rounded): PLtoTF 62-66 reads it back exactly.
fn fix(v: i32, style: u8) -> String {
    let neg = v < 0;
    let a = (v as i64).abs();
    let int = a >> 20;
    let frac = a & 0xfffff;
    let f7 = (frac * 10_000_000 + (1 << 19)) >> 20;
    let mut digits = format!("{:07}", f7);
    if style & 1 == 1 {
        while digits.len() > 1 && digits.ends_with('0') {
            digits.pop();
        }
    }
    format!("{} {}{}.{}", if style & 2 == 2 { "D" } else { "R" }, if neg { "-" } else { "" }, int, digits)
}

fn chr(c: u8, style: u8) -> String {
    match (style.wrapping_add(c)) % 4 {
        0 if c.is_ascii_uppercase() || c.is_ascii_digit() => format!("C {}", c as char),
        1 => format!("D {}", c),
        2 => format!("H {:X}", c),
        _ => format!("O {:o}", c),
    }
}

const LIG_NAMES: [(u8, &str); 8] = [(0, "LIG"), (1, "LIG/"), (2, "/LIG"), (3, "/LIG/"), (5, "LIG/>"), (6, "/LIG>"), (7, "/LIG/>"), (11, "/LIG/>>")];

fn render(f: &GFont) -> String {
    use std::fmt::Write;
    let st = f.layout;
    let mut o = String::new();
    if let Some(s) = &f.family {
        let _ = writeln!(o, "(FAMILY {})", String::from_utf8_lossy(s));
    }
    if let Some(face) = f.face {
        if face < 18 && st & 1 == 0 {
            let w = ['M', 'B', 'L'][(face % 6 / 2) as usize];
            let s = ['R', 'I'][(face % 2) as usize];
            let e = ['R', 'C', 'E'][(face / 6) as usize];
            let _ = writeln!(o, "(FACE F {}{}{})", w, s, e);
        } else {
            let _ = writeln!(o, "(FACE O {:o})", face);
        }
    }
    for (ix, v) in &f.extra_header {
        let _ = if st & 2 == 0 { writeln!(o, "(HEADER D {} O {:o})", ix, v) } else { writeln!(o, "(HEADER D {} H {:X})", ix, v) };
    }
    if let Some(s) = &f.scheme {
        let _ = writeln!(o, "(CODINGSCHEME {})", String::from_utf8_lossy(s));
    }
    let _ = writeln!(o, "(DESIGNSIZE {})", fix(f.design_size, st >> 2));
    let _ = writeln!(o, "(COMMENT DESIGNSIZE IS IN POINTS)");
    if let Some(c) = f.checksum {
        let _ = writeln!(o, "(CHECKSUM O {:o})", c);
    }
    if let Some(b) = f.seven_flag {
        let _ = writeln!(o, "(SEVENBITSAFEFLAG {})", if b { "TRUE" } else { "FALSE" });
    }
    if !f.params.is_empty() {
        let _ = writeln!(o, "(FONTDIMEN");
        const NAMES: [&str; 7] = ["SLANT", "SPACE", "STRETCH", "SHRINK", "XHEIGHT", "QUAD", "EXTRASPACE"];
        // later entries first now and then: the order inside FONTDIMEN is free
        let order: Vec<usize> = if st & 4 == 4 { (0..f.params.len()).rev().collect() } else { (0..f.params.len()).collect() };
        for k in order {
            let v = fix(f.params[k], st >> 3);
            let _ = if k < 7 && st & 8 == 0 { writeln!(o, "   ({} {})", NAMES[k], v) } else { writeln!(o, "   (PARAMETER D {} {})", k + 1, v) };
        }
        let _ = writeln!(o, "   )");
    }
    if let Some(b) = f.boundary {
        let _ = writeln!(o, "(BOUNDARYCHAR {})", chr(b, st));
    }
    let mut lig = String::new();
    if !f.chains.is_empty() {
        // two LIGTABLE lists are concatenated by PLtoTF 13
        let split = if st & 16 == 16 && f.chains.len() > 1 { f.chains.len() / 2 } else { usize::MAX };
        let _ = writeln!(lig, "(LIGTABLE");
        for (j, ch) in f.chains.iter().enumerate() {
            if j == split {
                let _ = writeln!(lig, "   )\n(LIGTABLE");
            }
            for it in ch {
                match it {
                    GItem::Label(l) => {
                        let _ = if *l == LEFT_BOUNDARY { writeln!(lig, "   (LABEL BOUNDARYCHAR)") } else { writeln!(lig, "   (LABEL {})", chr(*l as u8, st)) };
                    }
                    GItem::Step(s) => {
                        match s.op {
                            OpV::Kern(k) => {
                                let _ = writeln!(lig, "   (KRN {} {})", chr(s.right, st), fix(k.unwrap_or(0), st >> 1));
                            }
                            OpV::Lig(form, z) => {
                                let name = LIG_NAMES.iter().find(|x| x.0 == form).map(|x| x.1).unwrap_or("LIG");
                                let _ = writeln!(lig, "   ({} {} {})", name, chr(s.right, st), chr(z, st.wrapping_add(1)));
                            }
                        }
                        match s.next {
                            GNext::Cont => {}
                            GNext::Stop => {
                                let _ = writeln!(lig, "   (STOP)");
                            }
                            GNext::Skip(m) => {
                                let _ = writeln!(lig, "   (SKIP D {})", m);
                            }
                        }
                    }
                }
            }
        }
        let _ = writeln!(lig, "   )");
    }
    let mut chars = String::new();
    let order: Vec<&GChar> = if st & 32 == 32 { f.chars.iter().rev().collect() } else { f.chars.iter().collect() };
    for c in order {
        let _ = writeln!(chars, "(CHARACTER {}", chr(c.code, st));
        let _ = writeln!(chars, "   (CHARWD {})", fix(c.w, st >> 4));
        if let Some(h) = c.h {
            let _ = writeln!(chars, "   (CHARHT {})", fix(h, st >> 5));
        }
        if let Some(d) = c.d {
            let _ = writeln!(chars, "   (CHARDP {})", fix(d, st >> 3));
        }
        if let Some(i) = c.i {
            let _ = writeln!(chars, "   (CHARIC {})", fix(i, st >> 2));
        }
        match &c.tag {
            TagV::List(d) => {
                let _ = writeln!(chars, "   (NEXTLARGER {})", chr(*d, st));
            }
            TagV::Ext(e) => {
                let _ = writeln!(chars, "   (VARCHAR");
                for (k, name) in ["TOP", "MID", "BOT"].iter().enumerate() {
                    if e[k] != 0 {
                        let _ = writeln!(chars, "      ({} {})", name, chr(e[k], st));
                    }
                }
                let _ = writeln!(chars, "      (REP {})", chr(e[3], st));
                let _ = writeln!(chars, "      )");
            }
            _ => {}
        }
        let _ = writeln!(chars, "   )");
    }
    if st & 64 == 64 {
        o.push_str(&chars);
        o.push_str(&lig);
    } else {
        o.push_str(&lig);
        o.push_str(&chars);
    }
    o
}

/// What the generated property list means, as a `View` (the generator's intention).
fn intended(f: &GFont) -> View {
    let mut flat: Vec<GStep> = vec![];
    let mut labels: Vec<(u16, usize)> = vec![];
    for ch in &f.chains {
        for it in ch {
            match it {
                GItem::Label(l) => labels.push((*l, flat.len())),
                GItem::Step(s) => flat.push(*s),
            }
        }
    }
    let mut lig = BTreeMap::new();
    let mut walks = BTreeMap::new();
    for (left, start) in labels {
        let mut i = start;
        let mut walk = vec![];
        while i < flat.len() {
            let s = flat[i];
            walk.push(i);
            lig.entry((left, s.right)).or_insert(s.op);
            match s.next {
                GNext::Stop => break,
                GNext::Cont => i += 1,
                GNext::Skip(m) => i += 1 + m as usize,
            }
        }
        walks.insert(left, walk);
    }
    let mut chars = BTreeMap::new();
    for c in &f.chars {
        let has_label = walks.contains_key(&(c.code as u16));
        chars.insert(
            c.code,
            CharV { w: Some(c.w), h: Some(c.h.unwrap_or(0)), d: Some(c.d.unwrap_or(0)), i: Some(c.i.unwrap_or(0)), tag: if has_label { TagV::Lig } else { c.tag.clone() } },
        );
    }
    let nextra = f.extra_header.last().map(|(ix, _)| *ix as usize - 17).unwrap_or(0);
    let mut extra_header = vec![[0u8; 4]; nextra];
    for (ix, v) in &f.extra_header {
        extra_header[*ix as usize - 18] = v.to_be_bytes();
    }
    View {
        chars,
        params: f.params.clone(),
        checksum: f.checksum.unwrap_or(0),
        design_size: f.design_size,
        scheme: Some(f.scheme.clone().unwrap_or_else(|| b"UNSPECIFIED".to_vec())),
        family: Some(f.family.clone().unwrap_or_else(|| b"UNSPECIFIED".to_vec())),
        seven_bit: None,
        face: Some(f.face.unwrap_or(0)),
        extra_header,
        boundary_char: f.boundary,
        lig,
        walks,
        nl: flat.len(),
        redirected: 0,
    }
}

/// Generator sanity: pl_to_tfm(generated text) is the font the text describes.
fn compare_with_intention(want: &View, got: &View, checksum_given: bool) -> Result<(), String> {
    let mut g = got.clone();
    if !checksum_given {
        g.checksum = want.checksum;
    }
    // PLtoTF may or may not upper-case strings: compare modulo case
    let mut w = want.clone();
    w.scheme = w.scheme.map(|s| upper(&s));
    w.family = w.family.map(|s| upper(&s));
    g.scheme = g.scheme.map(|s| upper(&s));
    g.family = g.family.map(|s| upper(&s));
    let relabel = |e: String| e.replace("original", "the PL says").replace("canonical", "pl_to_tfm wrote");
    compare_views(&w, &g).map_err(relabel)?;
    // boundary char only matters when declared and used, compare_ligmaps knows
    compare_ligmaps(&w, &g).map_err(relabel)
}

fn fixword() -> BoxedStrategy<i32> {
    prop_oneof![
        4 => -(FIX_LIMIT - 1)..FIX_LIMIT,
        2 => -(3 << 20)..(3 << 20),
        1 => (-40i32..40).prop_map(|k| k * (1 << 16)),
        1 => -4i32..5,
        1 => proptest::sample::select(vec![FIX_LIMIT - 1, -(FIX_LIMIT - 1), FIX_LIMIT - 2, 1 << 20, (1 << 20) + 1, (1 << 20) - 1, 104858, 104857, 699051, 349525]),
    ]
    .boxed()
}

fn rchar() -> impl Strategy<Value = RChar> {
    let ix = || prop_oneof![6 => any::<u16>().prop_map(|x| Some(x % 0xffff)), 3 => Just(None), 1 => Just(Some(0xffffu16))];
    (any::<u8>(), any::<u16>(), ix(), ix(), ix(), any::<u8>(), any::<[u16; 4]>(), prop_oneof![12 => Just(0u8), 5 => Just(1u8), 2 => Just(2u8), 1 => Just(3u8)])
        .prop_map(|(code, w, h, d, i, tag, t, level)| RChar { code, w, h, d, i, tag, t, level })
}

fn ritem() -> impl Strategy<Value = RItem> {
    prop_oneof![
        1 => any::<u16>().prop_map(|sel| RItem::Label { sel }),
        4 => (any::<u16>(), any::<u8>(), any::<u16>(), any::<u8>(), prop_oneof![3 => 0u8..4, 1 => any::<u8>()]).prop_map(|(right, kind, val, next, skip)| RItem::Step { right, kind, val, next, skip }),
    ]
}

/// profile: (chars, chains, items per chain, dense, spread)
fn recipe() -> BoxedStrategy<Recipe> {
    let profile = prop_oneof![
        2 => Just((0usize..=3, 0usize..=2, 1usize..=6)),
        5 => Just((1usize..=24, 0usize..=6, 1usize..=12)),
        3 => Just((20usize..=120, 2usize..=14, 2usize..=30)),
        3 => Just((200usize..=256, 4usize..=40, 4usize..=40)),
        2 => Just((256usize..=256, 10usize..=40, 8usize..=40)),
    ];
    profile
        .prop_flat_map(|(nc, nch, nit)| {
            let header = (
                proptest::option::weighted(0.6, any::<u32>()),
                prop_oneof![3 => Just(10 << 20), 3 => (1i32 << 20)..(2047 << 20), 1 => Just(1 << 20), 1 => Just(i32::MAX)],
                proptest::option::weighted(0.7, (any::<u8>(), proptest::collection::vec(any::<u8>(), 0..=39))),
                proptest::option::weighted(0.7, proptest::collection::vec(any::<u8>(), 0..=19)),
                proptest::option::weighted(0.7, prop_oneof![3 => 0u8..18, 1 => any::<u8>()]),
                any::<u8>(),
                // a zero word now and then: as the last HEADER word it must survive (PLtoTF 91 / TFtoPL 56 keep it)
                proptest::collection::vec((prop_oneof![4 => 0u8..6, 1 => any::<u8>()], prop_oneof![4 => any::<u32>(), 1 => Just(0u32)]), 0..=3),
                // 254 is the last parameter number a property list can express
                prop_oneof![20 => proptest::collection::vec(fixword(), 0..=30), 2 => proptest::collection::vec(fixword(), 200..=254), 1 => proptest::collection::vec(fixword(), 254..=254)],
            );
            // SLANT is the one parameter that is not bounded by 16 (TFtoPL 60, PLtoTF 93); PL reals reach 2048
            let slant = prop_oneof![
                12 => Just(None),
                3 => (-(2047i32 << 20)..(2047 << 20)).prop_map(Some),
                1 => proptest::sample::select(vec![i32::MAX, -i32::MAX, FIX_LIMIT, -FIX_LIMIT, FIX_LIMIT + 1, (2047 << 20) + 1]).prop_map(Some),
            ];
            let more = (
                slant,
                proptest::option::weighted(0.2, (any::<u8>(), any::<u16>(), any::<u16>())),
                proptest::bool::weighted(0.35),
                any::<u8>(),
                prop_oneof![1 => Just(vec![]), 1 => proptest::collection::vec((any::<u8>(), any::<u16>(), any::<u16>(), 0u8..8, any::<u8>(), any::<u8>()), 1..=3)],
            );
            let pools = (
                prop_oneof![3 => proptest::collection::vec(fixword(), 1..=30), 2 => proptest::collection::vec(fixword(), 300..=340)],
                prop_oneof![2 => proptest::collection::vec(fixword(), 0..=8), 2 => proptest::collection::vec(fixword(), 18..=24)],
                prop_oneof![2 => proptest::collection::vec(fixword(), 0..=8), 2 => proptest::collection::vec(fixword(), 18..=24)],
                prop_oneof![2 => proptest::collection::vec(fixword(), 0..=12), 2 => proptest::collection::vec(fixword(), 85..=100)],
                prop_oneof![6 => proptest::collection::vec(fixword(), 1..=6), 2 => proptest::collection::vec(fixword(), 20..=60), 1 => proptest::collection::vec(fixword(), 300..=420)],
            );
            let body = (
                any::<bool>(),
                any::<bool>(),
                proptest::collection::vec(rchar(), nc),
                proptest::option::weighted(0.5, any::<u16>()),
                proptest::collection::vec(proptest::collection::vec(ritem(), nit), nch),
                proptest::option::weighted(0.5, 246u16..=262),
                any::<u8>(),
                0u8..3,
            );
            (header, pools, body, more)
        })
        .prop_map(|(h, p, b, m)| Recipe {
            checksum: h.0,
            design_size: h.1,
            scheme: h.2,
            family: h.3,
            face: h.4,
            seven_flag: h.5,
            extra_header: h.6,
            params: {
                let mut v = h.7;
                if let (Some(s), Some(first)) = (m.0, v.first_mut()) {
                    *first = s;
                }
                v
            },
            widths: p.0,
            heights: p.1,
            depths: p.2,
            italics: p.3,
            kerns: p.4,
            dense: b.0,
            spread: b.1,
            chars: b.2,
            boundary: b.3,
            chains: b.4,
            align: b.5,
            layout: b.6,
            fmt: b.7,
            long_skip: m.1,
            seven_bias: m.2,
            family_kind: m.3,
            mid: m.4,
        })
        .boxed()
}

fn check_generated(r: &Recipe, known_orphan: bool, case: &mut Case) -> Verdict {
    let font = build(r);
    let pl = render(&font);
    case.note = Some(pl.clone());
    let (t0, wg) = to_tfm(&pl);
    // PLtoTF 110: "The font is not really seven-bit-safe!" iff the list claims TRUE and PLtoTF 110-113 finds otherwise
    let want = intended(&font);
    let why = unsafe_reasons(&want);
    let hash_full = want.lig.len() >= PLTOTF_HASH_SIZE;
    let said = wg.contains(&PlWarn::SevenBit);
    if !hash_full && said != (font.seven_flag == Some(true) && !why.is_empty()) {
        return Verdict::Fail(format!(
            "(gen) SEVENBITSAFEFLAG {:?}, the font is {} by PLtoTF 110-113 {:?}, but pl_to_tfm {} \"not really seven-bit-safe\"\n{}",
            font.seven_flag,
            if why.is_empty() { "safe" } else { "unsafe" },
            why,
            if said { "reports" } else { "does not report" },
            pl
        ));
    }
    case.class_if(said, "gen: SEVENBITSAFEFLAG TRUE contradicted by PLtoTF");
    case.class_if(font.seven_flag == Some(true) && why.is_empty(), "gen: SEVENBITSAFEFLAG TRUE confirmed");
    let wg: Vec<PlWarn> = wg.into_iter().filter(|w| *w != PlWarn::SevenBit).collect();
    if !wg.is_empty() {
        return Verdict::Fail(format!("(gen) pl_to_tfm warns about a valid generated property list: {:?}\n{}", &wg[..wg.len().min(4)], pl));
    }
    match read_tfm(&t0) {
        Err(e) => return Verdict::Fail(format!("(gen) pl_to_tfm output is not a well-formed TFM: {e}\n{pl}")),
        // VP_C11_NOGEN=1 switches this pre-check off so that the self-test measures the oracle (i)-(iv) alone
        Ok(_) if std::env::var_os("VP_C11_NOGEN").is_some() => {}
        Ok(raw) => {
            let got = view(&raw);
            if let Err(e) = compare_with_intention(&want, &got, font.checksum.is_some()) {
                return Verdict::Fail(format!("(gen) pl_to_tfm(PL) is not the font the PL describes: {e}\n{pl}"));
            }
            if !hash_full && got.seven_bit != Some(why.is_empty()) {
                return Verdict::Fail(format!("(gen) pl_to_tfm wrote seven-bit-safe flag {:?}; by PLtoTF 110-113 the font is {} {:?}\n{pl}", got.seven_bit, if why.is_empty() { "safe" } else { "unsafe" }, why));
            }
        }
    }
    let has_skip = font.chains.iter().flatten().any(|it| matches!(it, GItem::Step(GStep { next: GNext::Skip(m), .. }) if *m > 0));
    case.class_if(has_skip, "gen: SKIP n>0");
    case.class_if(font.chains.iter().flatten().any(|it| matches!(it, GItem::Step(GStep { next: GNext::Skip(m), .. }) if *m >= 64)), "gen: SKIP >= 64");
    case.class_if(font.chains.iter().flatten().any(|it| matches!(it, GItem::Step(GStep { next: GNext::Skip(127), .. }))), "gen: SKIP 127");
    case.class_if(font.chains.iter().flatten().any(|it| matches!(it, GItem::Step(GStep { next: GNext::Skip(0), .. }))), "gen: SKIP 0");
    let mid_stop = font.chains.iter().any(|ch| {
        let steps: Vec<&GStep> = ch.iter().filter_map(|it| if let GItem::Step(s) = it { Some(s) } else { None }).collect();
        steps.len() > 1 && steps[..steps.len() - 1].iter().any(|s| s.next == GNext::Stop)
    });
    case.class_if(mid_stop, "gen: STOP inside a chain");
    case.class_if(font.checksum.is_none(), "gen: checksum computed");
    case.class_if(!font.extra_header.is_empty(), "gen: HEADER words");
    match check_font(&t0, r.fmt, known_orphan, case) {
        Verdict::Fail(m) => Verdict::Fail(format!("{m}\n{pl}")),
        // the generated property lists are valid by construction, so PLtoTF's output must be a clean TFM
        Verdict::Skip(why) => Verdict::Fail(format!("(gen) pl_to_tfm of a valid property list is not a warning-free TFM: {why}: {:?}\n{pl}", to_pl(&t0, r.fmt).map(|x| x.1))),
        v => v,
    }
}

// ------------------------------------------------------------------------------------
// An independent TFM writer: the same generated font laid out as a legal but NOT canonical
// file (what METAFONT or another tool may write): shuffled tables with duplicate and unused
// entries, needless entry-point redirections, unreachable instructions, a wider bc..ec range,
// garbage after the header strings, short headers.

struct Ent(u64);
impl Ent {
    fn next(&mut self) -> u64 {
        self.0 = mix(self.0, 0x5851_f42d_4c95_7f2d);
        self.0
    }
    fn below(&mut self, n: usize) -> usize {
        (self.next() % n.max(1) as u64) as usize
    }
    fn chance(&mut self, one_in: u64) -> bool {
        self.next() % one_in == 0
    }
}

/// Lays out `used` values (distinct) in a table behind a leading zero; returns (table, value -> indices).
fn lay_table(used: &[i32], cap: usize, zero_needs_slot: bool, e: &mut Ent, plain: bool) -> (Vec<i32>, BTreeMap<i32, Vec<usize>>) {
    let mut vals: Vec<i32> = used.iter().copied().filter(|v| *v != 0 || zero_needs_slot).collect();
    if !plain {
        // shuffle
        for k in (1..vals.len()).rev() {
            let j = e.below(k + 1);
            vals.swap(k, j);
        }
        // duplicates and unused entries while there is room
        let mut extra = e.below(4);
        while extra > 0 && 1 + vals.len() < cap {
            // a duplicate, a zero (a second place for the value 0), or an unused value
            let v = if !vals.is_empty() && e.chance(2) {
                vals[e.below(vals.len())]
            } else if e.chance(3) {
                0
            } else {
                (e.next() % (8 << 20)) as i32 - (4 << 20)
            };
            let at = e.below(vals.len() + 1);
            vals.insert(at, v);
            extra -= 1;
        }
    }
    let mut table = vec![0i32];
    table.extend(vals);
    let mut ix: BTreeMap<i32, Vec<usize>> = BTreeMap::new();
    for (k, v) in table.iter().enumerate() {
        if k == 0 && zero_needs_slot {
            continue; // a width index of 0 means "no such character"
        }
        ix.entry(*v).or_default().push(k);
    }
    (table, ix)
}

/// What `write_tfm` did beyond laying out the font.
struct Written {
    bytes: Vec<u8>,
    /// header length in words (2..=17: truncated, the later fields are absent)
    lh: usize,
    /// blanks were put in front of the scheme / family string
    lead_blank: [bool; 2],
    /// a non-existent character between existing ones got a lig tag (PLtoTF keeps it)
    orphan_lig_inside: bool,
}

/// An indirect entry word that `write_tfm` puts into the middle of the lig/kern table.
struct Mid {
    /// it sits directly in front of this step (flat index; the number of steps = behind the last one)
    at: usize,
    /// flat index of the step it redirects to (the start of some character's program)
    target: usize,
    /// some character's lig tag points to it
    used: bool,
    skip: u8,
    next: u8,
}

/// `safe`: the font is seven-bit safe (PLtoTF 110-113), so the file may carry the flag.
fn write_tfm(f: &GFont, seed: u64, safe: bool, mid: &[(u8, u16, u16, u8, u8, u8)]) -> Written {
    let mut e = Ent(seed);
    // the choices that came with the indirect words in the middle draw from their own stream
    let mut e2 = Ent(mix(seed, 0x6d69_64));
    let plain = seed % 5 == 0; // sometimes the straightforward layout (apart from the words that `mid` asks for)
    let word = |out: &mut Vec<u8>, w: [u8; 4]| out.extend(w);
    // ---- header
    let mut header: Vec<[u8; 4]> = vec![f.checksum.unwrap_or(0).to_be_bytes(), f.design_size.to_be_bytes()];
    let short = f.scheme.is_none() && f.family.is_none() && f.face.is_none() && f.extra_header.is_empty();
    let mut lead_blank = [false; 2];
    if !(short && e.chance(2)) {
        let mut bytes: Vec<u8> = vec![];
        for (k, (mut s, n)) in [(f.scheme.clone().unwrap_or_else(|| b"UNSPECIFIED".to_vec()), 40usize), (f.family.clone().unwrap_or_else(|| b"UNSPECIFIED".to_vec()), 20usize)].into_iter().enumerate() {
            let garbage = !plain && e.chance(3);
            // blanks in front of the string: TFtoPL 52 prints them, PLtoTF 87 skips them
            if !plain && e.chance(8) {
                for _ in 0..1 + e.below(2) {
                    if s.len() + 1 < n {
                        s.insert(0, b' ');
                        lead_blank[k] = true;
                    }
                }
            }
            let mut field = vec![s.len() as u8];
            field.extend(&s);
            while field.len() < n {
                field.push(if garbage { 33 + (e.next() % 90) as u8 } else { 0 });
            }
            bytes.extend(field);
        }
        let flag = if safe && e.chance(2) { 128 + (e.next() % 128) as u8 } else { (e.next() % 128) as u8 * (!plain) as u8 };
        bytes.extend([flag, if plain { 0 } else { e.next() as u8 }, if plain { 0 } else { e.next() as u8 }, f.face.unwrap_or(0)]);
        for c in bytes.chunks(4) {
            header.push([c[0], c[1], c[2], c[3]]);
        }
        let nextra = f.extra_header.last().map(|(ix, _)| *ix as usize - 17).unwrap_or(0);
        let mut extra = vec![[0u8; 4]; nextra];
        for (ix, v) in &f.extra_header {
            extra[*ix as usize - 18] = v.to_be_bytes();
        }
        header.extend(extra);
    }
    // a header that stops inside or between the fields: TFtoPL 48 prints the scheme iff lh >= 12, the family
    // iff lh >= 17, face and flag iff lh >= 18; PLtoTF supplies the defaults
    if !plain && header.len() == 18 && e.chance(3) {
        header.truncate(2 + e.below(17));
    }
    let lh = header.len();
    // ---- dimension tables
    let distinct = |it: &mut dyn Iterator<Item = i32>| -> Vec<i32> { it.collect::<BTreeSet<i32>>().into_iter().collect() };
    let (wt, wi) = lay_table(&distinct(&mut f.chars.iter().map(|c| c.w)), 256, true, &mut e, plain);
    let (ht, hi) = lay_table(&distinct(&mut f.chars.iter().filter_map(|c| c.h)), 16, false, &mut e, plain);
    let (dt, di) = lay_table(&distinct(&mut f.chars.iter().filter_map(|c| c.d)), 16, false, &mut e, plain);
    let (it, ii) = lay_table(&distinct(&mut f.chars.iter().filter_map(|c| c.i)), 64, false, &mut e, plain);
    // ---- lig/kern
    let mut flat: Vec<GStep> = vec![];
    let mut labels: Vec<(u16, usize)> = vec![];
    let mut junk_before: BTreeSet<usize> = BTreeSet::new();
    for ch in &f.chains {
        if !plain && !f.chars.is_empty() && e.chance(6) {
            // an instruction nobody reaches (the previous chain ended with STOP)
            junk_before.insert(flat.len());
            let c = f.chars[e.below(f.chars.len())].code;
            flat.push(GStep { right: c, op: OpV::Lig(0, c), next: GNext::Stop });
        }
        for it in ch {
            match it {
                GItem::Label(l) => labels.push((*l, flat.len())),
                GItem::Step(s) => flat.push(*s),
            }
        }
    }
    let kern_used: Vec<i32> = {
        let mut seen = BTreeSet::new();
        flat.iter().filter_map(|s| if let OpV::Kern(Some(k)) = s.op { Some(k) } else { None }).filter(|k| seen.insert(*k)).collect()
    };
    let (kt, ki) = {
        // kern table: no leading zero
        let mut vals = kern_used.clone();
        if !plain {
            for k in (1..vals.len()).rev() {
                let j = e.below(k + 1);
                vals.swap(k, j);
            }
            for _ in 0..e.below(4) {
                let v = if !vals.is_empty() && e.chance(2) { vals[e.below(vals.len())] } else { (e.next() % (2 << 20)) as i32 - (1 << 20) };
                let at = e.below(vals.len() + 1);
                vals.insert(at, v);
            }
        }
        let mut ix: BTreeMap<i32, Vec<usize>> = BTreeMap::new();
        for (k, v) in vals.iter().enumerate() {
            ix.entry(*v).or_default().push(k);
        }
        (vals, ix)
    };
    // entry points: decide which labels go through a redirect instruction at the front
    let char_labels: Vec<(u8, usize)> = labels.iter().filter(|(l, _)| *l != LEFT_BOUNDARY).map(|(l, p)| (*l as u8, *p)).collect();
    let left_start: Option<usize> = labels.iter().find(|(l, _)| *l == LEFT_BOUNDARY).map(|(_, p)| *p);
    let mut lk: Vec<[u8; 4]> = vec![];
    let mut remainder: BTreeMap<u8, u8> = BTreeMap::new();
    // flat index -> index in the lig/kern table of the file
    let mut flat_pos: Vec<usize> = (0..flat.len()).collect();
    // positions grouped, because two characters with one start may share a redirect
    let mut by_pos: BTreeMap<usize, Vec<u8>> = BTreeMap::new();
    for (c, p) in &char_labels {
        by_pos.entry(*p).or_default().push(*c);
    }
    // ---- indirect entry words (skip_byte > 128, TeX 573/1039, TFtoPL 67 "pass_through") in the MIDDLE of the table,
    // where PLtoTF never puts them: inside the range a reachable instruction jumps over, between two programs, next
    // to unreachable instructions, after the last instruction. Word `at` sits directly in front of flat[at]. No
    // walk may run into such a word (TFtoPL 74 prints a bare (STOP) for an accessible one, which PLtoTF rejects):
    // the skip_byte of every step that continues behind an inserted word grows by one per word it has to jump over
    // (a step that simply went on to the next word gets skip_byte 1) and has to stay below 128.
    let nf = flat.len();
    let mut reach = vec![false; nf];
    for (_, p) in &labels {
        if *p < nf {
            reach[*p] = true;
        }
    }
    for i in 0..nf {
        if reach[i] {
            let t = match flat[i].next {
                GNext::Stop => continue,
                GNext::Cont => i + 1,
                GNext::Skip(m) => i + 1 + m as usize,
            };
            if t < nf {
                reach[t] = true;
            }
        }
    }
    let mut mids: Vec<Mid> = vec![];
    if !by_pos.is_empty() && !mid.is_empty() {
        let starts: Vec<usize> = by_pos.keys().copied().collect();
        // an index a char_info remainder can hold, however many redirects end up at the front
        let allowed: Vec<usize> = (1..=nf).filter(|p| *p + starts.len() + 4 <= 255).collect();
        let mut jumped: BTreeSet<usize> = BTreeSet::new();
        for i in 0..nf {
            if let (true, GNext::Skip(m)) = (reach[i], flat[i].next) {
                if m > 0 {
                    jumped.extend(i + 1..=i + 1 + m as usize);
                }
            }
        }
        let in_skip: Vec<usize> = allowed.iter().copied().filter(|p| jumped.contains(p)).collect();
        let by_junk: Vec<usize> = allowed.iter().copied().filter(|p| !reach[*p - 1] || (*p < nf && !reach[*p])).collect();
        // behind the STOP that ends one program and in front of the first instruction of the next
        let between: Vec<usize> = allowed.iter().copied().filter(|p| *p < nf && reach[*p - 1] && flat[*p - 1].next == GNext::Stop && reach[*p] && !jumped.contains(p)).collect();
        for (kind, place, target, used, skip, next) in mid.iter().copied() {
            let pool = match kind % 6 {
                0 | 1 if !in_skip.is_empty() => &in_skip,
                2 if !by_junk.is_empty() => &by_junk,
                3 if !between.is_empty() => &between,
                _ => &allowed,
            };
            if pool.is_empty() {
                break;
            }
            let at = pool[place as usize % pool.len()];
            let too_long = (0..nf).any(|i| match flat[i].next {
                GNext::Skip(m) => i < at && at <= i + 1 + m as usize && m as usize + 1 + mids.iter().filter(|x| x.at > i && x.at <= i + 1 + m as usize).count() > 127,
                _ => false,
            });
            if too_long {
                continue;
            }
            // one in eight is pointed to by nobody: an unreachable word that is not "pass_through" either
            mids.push(Mid { at, target: starts[target as usize % starts.len()], used: used != 0, skip: 129 + skip % 127, next });
        }
        mids.sort_by_key(|m| m.at);
    }
    let shift = |p: usize| mids.iter().filter(|m| m.at <= p).count();
    let grown = |i: usize, m: u8| m as usize + mids.iter().filter(|x| x.at > i && x.at <= i + 1 + m as usize).count();
    debug_assert!(flat.iter().enumerate().all(|(i, s)| !matches!(s.next, GNext::Skip(m) if grown(i, m) > 127)));
    if !flat.is_empty() || f.boundary.is_some() {
        let served = |p: usize| mids.iter().any(|m| m.used && m.target == p);
        // Fixed-point: the number of front instructions decides who needs a redirect.
        let wish: BTreeMap<usize, bool> = by_pos.keys().map(|p| (*p, !plain && e.chance(5))).collect();
        let has_b = f.boundary.is_some();
        // slot 0 (the boundary-char instruction) can carry one redirect itself
        let double_duty = has_b && !plain && seed % 3 == 1;
        let mut front = has_b as usize;
        loop {
            let need = by_pos.keys().filter(|p| wish[*p] || (**p + shift(**p) + front > 255 && !served(**p))).count();
            let slots = if has_b && !(double_duty && need > 0) { need + 1 } else { need };
            if slots <= front {
                break;
            }
            front = slots; // `need` never decreases when `front` grows, so this terminates with slots == front
        }
        let mut redirects: Vec<usize> = by_pos.keys().copied().filter(|p| wish[p] || (*p + shift(*p) + front > 255 && !served(*p))).collect();
        // METAFONT-like order is irrelevant: shuffle which slot serves which start
        if !plain {
            for k in (1..redirects.len()).rev() {
                let j = e.below(k + 1);
                redirects.swap(k, j);
            }
        }
        let mut slot_of: BTreeMap<usize, usize> = BTreeMap::new();
        let mut slots: Vec<Option<usize>> = vec![];
        if has_b {
            slots.push(None);
        }
        for (k, p) in redirects.iter().enumerate() {
            if k == 0 && double_duty {
                slots[0] = Some(*p);
                slot_of.insert(*p, 0);
            } else {
                slot_of.insert(*p, slots.len());
                slots.push(Some(*p));
            }
        }
        debug_assert_eq!(slots.len(), front);
        let front = slots.len();
        for (p, at) in flat_pos.iter_mut().enumerate() {
            *at = front + p + shift(p);
        }
        for (k, s) in slots.iter().enumerate() {
            let target = s.map(|p| flat_pos[p]).unwrap_or(0);
            let skip = if k == 0 && has_b { 255 } else { 129 + (e.next() % 126) as u8 * (!plain) as u8 + 125 * plain as u8 };
            let next = if k == 0 && has_b { f.boundary.unwrap() } else { 0 };
            lk.push([skip, next, (target >> 8) as u8, target as u8]);
        }
        // table index of the k-th inserted word: the words in front of it, the steps in front of it, the front
        let mid_index = |k: usize| front + mids[k].at + k;
        for (p, cs) in &by_pos {
            let base = match slot_of.get(p) {
                Some(s) => Some(*s),
                None if flat_pos[*p] <= 255 => Some(flat_pos[*p]),
                None => None,
            };
            let through: Vec<usize> = (0..mids.len()).filter(|k| mids[*k].used && mids[*k].target == *p).map(mid_index).collect();
            for (k, c) in cs.iter().enumerate() {
                // every inserted word gets a character as long as there are characters; the others choose
                let r = if k < through.len() {
                    through[k]
                } else {
                    let n = through.len() + base.is_some() as usize;
                    let j = if n > 1 { e2.below(n) } else { 0 };
                    if j < through.len() {
                        through[j]
                    } else {
                        base.expect("a start beyond 255 without an inserted word has a redirect at the front")
                    }
                };
                debug_assert!(r <= 255);
                remainder.insert(*c, r as u8);
            }
        }
        let mut next_mid = 0usize;
        for (i, s) in flat.iter().enumerate() {
            while next_mid < mids.len() && mids[next_mid].at == i {
                let t = flat_pos[mids[next_mid].target];
                lk.push([mids[next_mid].skip, mids[next_mid].next, (t >> 8) as u8, t as u8]);
                next_mid += 1;
            }
            debug_assert_eq!(lk.len(), flat_pos[i]);
            let skip = match s.next {
                GNext::Cont => grown(i, 0) as u8,
                GNext::Stop => 128,
                GNext::Skip(m) => grown(i, m) as u8,
            };
            let (op, rem) = match s.op {
                OpV::Kern(k) => {
                    let cands = &ki[&k.unwrap_or(0)];
                    let ix = cands[e.below(cands.len())];
                    (128 + (ix >> 8) as u8, ix as u8)
                }
                OpV::Lig(o, z) => (o, z),
            };
            lk.push([skip, s.right, op, rem]);
        }
        while next_mid < mids.len() {
            let t = flat_pos[mids[next_mid].target];
            // skip_byte 255 in the last word of the table would declare a left-boundary program (TeX 573)
            let skip = if left_start.is_none() && next_mid + 1 == mids.len() { mids[next_mid].skip.min(254) } else { mids[next_mid].skip };
            lk.push([skip, mids[next_mid].next, (t >> 8) as u8, t as u8]);
            next_mid += 1;
        }
        if let Some(p) = left_start {
            let t = flat_pos[p];
            lk.push([255, 0, (t >> 8) as u8, t as u8]);
            // the word that starts the left-boundary program is an indirect entry word like any other: a character
            // whose program starts at the same instruction may enter through it
            if let (false, true, Some(cs)) = (plain, lk.len() <= 256, by_pos.get(&p)) {
                if e2.chance(2) {
                    remainder.insert(cs[e2.below(cs.len())], (lk.len() - 1) as u8);
                }
            }
        }
    }
    // ---- extensible recipes
    let mut ext: Vec<[u8; 4]> = vec![];
    let mut ext_ix: BTreeMap<u8, u8> = BTreeMap::new();
    for c in &f.chars {
        if let TagV::Ext(r) = &c.tag {
            let existing = ext.iter().position(|x| x == r);
            let ix = match existing {
                Some(k) if !plain && e.chance(2) => k,
                _ => {
                    ext.push(*r);
                    ext.len() - 1
                }
            };
            ext_ix.insert(c.code, ix as u8);
        }
    }
    if !plain && !ext.is_empty() && ext.len() < 250 && e.chance(3) {
        let dup = ext[e.below(ext.len())];
        ext.insert(0, dup); // an unused recipe in front shifts every index
        for v in ext_ix.values_mut() {
            *v += 1;
        }
    }
    // ---- char_info
    let (mut bc, mut ec) = match (f.chars.first(), f.chars.last()) {
        (Some(a), Some(b)) => (a.code as usize, b.code as usize),
        _ => (1, 0),
    };
    if !plain && !f.chars.is_empty() {
        bc -= e.below(3).min(bc);
        ec = (ec + e.below(3)).min(255);
    }
    let mut ci: Vec<[u8; 4]> = vec![];
    if bc <= ec {
        ci = vec![[0u8; 4]; ec - bc + 1];
        for c in &f.chars {
            let mut pick = |m: &BTreeMap<i32, Vec<usize>>, v: Option<i32>| -> usize {
                match v {
                    None => 0,
                    Some(v) => match m.get(&v) {
                        Some(c) => c[e.below(c.len())],
                        None => 0, // zero height/depth/italic live at index 0
                    },
                }
            };
            let (w, h, d, i) = (pick(&wi, Some(c.w)), pick(&hi, c.h), pick(&di, c.d), pick(&ii, c.i));
            let (tag, rem) = if let Some(r) = remainder.get(&c.code) {
                (1u8, *r)
            } else {
                match &c.tag {
                    TagV::List(n) => (2, *n),
                    TagV::Ext(_) => (3, ext_ix[&c.code]),
                    _ => (0, 0),
                }
            };
            ci[c.code as usize - bc] = [w as u8, (h * 16 + d) as u8, (i * 4) as u8 + tag, rem];
        }
    }
    // ---- tags on char_info words of non-existent characters (width index 0). TFtoPL 67 gives a lig-tagged one
    // a LABEL like any other character; NEXTLARGER / VARCHAR tags of such a slot are never looked at.
    let mut orphan_lig_inside = false;
    if !plain && !f.chars.is_empty() {
        let (lo, hi) = (f.chars[0].code as usize, f.chars[f.chars.len() - 1].code as usize);
        let empty: Vec<usize> = (0..ci.len()).filter(|k| ci[*k] == [0; 4] && Some((bc + k) as u8) != f.boundary).collect();
        if !empty.is_empty() && e.chance(4) {
            let k = empty[e.below(empty.len())];
            // either the start of an instruction nobody else reaches, or the remainder of an existing character
            let own: Vec<usize> = junk_before.iter().map(|p| flat_pos[*p]).filter(|p| *p < 256).collect();
            let shared: Vec<u8> = remainder.values().copied().collect();
            let r = if !own.is_empty() && (shared.is_empty() || e.chance(2)) {
                Some(own[e.below(own.len())] as u8)
            } else if !shared.is_empty() {
                Some(shared[e.below(shared.len())])
            } else {
                None
            };
            if let Some(r) = r {
                ci[k] = [0, 0, 1, r];
                orphan_lig_inside = bc + k > lo && bc + k < hi;
            }
        }
        if !empty.is_empty() && e.chance(6) {
            let k = empty[e.below(empty.len())];
            if ci[k] == [0; 4] {
                ci[k] = if e.chance(2) { [0, 0, 2, f.chars[e.below(f.chars.len())].code] } else { [0, 0, 3, e.next() as u8] };
            }
        }
    }
    // ---- assemble
    let sizes = [0usize, header.len(), bc, ec, wt.len(), ht.len(), dt.len(), it.len(), lk.len(), kt.len(), ext.len(), f.params.len()];
    let lf = 6 + header.len() + ci.len() + wt.len() + ht.len() + dt.len() + it.len() + lk.len() + kt.len() + ext.len() + f.params.len();
    let mut out: Vec<u8> = vec![];
    out.extend((lf as u16).to_be_bytes());
    for s in &sizes[1..] {
        out.extend((*s as u16).to_be_bytes());
    }
    for h in header {
        word(&mut out, h);
    }
    for c in ci {
        word(&mut out, c);
    }
    for t in [&wt, &ht, &dt, &it] {
        for v in t {
            word(&mut out, v.to_be_bytes());
        }
    }
    for l in lk {
        word(&mut out, l);
    }
    for v in &kt {
        word(&mut out, v.to_be_bytes());
    }
    for x in ext {
        word(&mut out, x);
    }
    for v in &f.params {
        word(&mut out, v.to_be_bytes());
    }
    Written { bytes: out, lh, lead_blank, orphan_lig_inside }
}

fn check_written(r: &Recipe, known_orphan: bool, case: &mut Case) -> Verdict {
    let full = build(r);
    let seed = mix(fnv64(render(&full).as_bytes()), r.layout as u64 + 256 * r.fmt as u64);
    let want_full = intended(&full);
    let safe = unsafe_reasons(&want_full).is_empty() && want_full.lig.len() < PLTOTF_HASH_SIZE;
    let wr = write_tfm(&full, seed, safe, &r.mid);
    // the font the file describes: a truncated header has no scheme / family / face
    let mut font = full.clone();
    if wr.lh < 12 {
        font.scheme = None;
    }
    if wr.lh < 17 {
        font.family = None;
    }
    if wr.lh < 18 {
        font.face = None;
    }
    let pl = render(&font);
    let t0 = wr.bytes;
    case.note = Some(format!("own TFM writer, layout seed {seed}, {} bytes; the font as PL:\n{pl}", t0.len()));
    // self-consistency of writer and reader
    match read_tfm(&t0) {
        Err(e) => return Verdict::Fail(format!("(harness) own writer produced a file own reader rejects: {e}\n{pl}")),
        Ok(raw) => {
            let mut want = intended(&font);
            let got = view(&raw);
            if wr.lh < 12 {
                want.scheme = None;
            }
            if wr.lh < 17 {
                want.family = None;
            }
            if wr.lh < 18 {
                want.face = None;
            }
            let mut g = got.clone();
            for (s, lead) in [(&mut g.scheme, wr.lead_blank[0]), (&mut g.family, wr.lead_blank[1])] {
                if let (Some(v), true) = (s.as_mut(), lead) {
                    if v.first() != Some(&b' ') {
                        return Verdict::Fail(format!("(harness) own writer put a blank in front of a header string, own reader does not see it\n{pl}"));
                    }
                    *v = pl_string(v);
                }
            }
            // compare_views expects the canonical side upper-cased; here nothing was converted yet
            g.scheme = g.scheme.or(Some(b"UNSPECIFIED".to_vec())).map(|s| upper(&s));
            g.family = g.family.or(Some(b"UNSPECIFIED".to_vec())).map(|s| upper(&s));
            g.face = g.face.or(Some(0));
            if let Err(e) = compare_views(&want, &g).and_then(|_| compare_ligmaps(&want, &g)) {
                return Verdict::Fail(format!("(harness) own writer and own reader disagree: {e}\n{pl}"));
            }
        }
    }
    case.class_if(seed % 5 == 0, "layout: plain");
    case.class_if(seed % 5 != 0, "layout: scrambled");
    let verdict = check_font(&t0, r.fmt, known_orphan, case);
    // a lig tag on a non-existent character between existing ones is data PLtoTF keeps: then the file is
    // not "the same font" as the property list, and (v) does not apply
    if let (Verdict::Pass { .. }, false) = (&verdict, wr.orphan_lig_inside) {
        // (v) "canonical": the same font written in two different ways (own scrambled layout, and PLtoTF's
        // layout of the rendered property list) must normalise to the same bytes. Only the check sum may
        // differ when the property list leaves it to PLtoTF.
        let canon = |b: &[u8]| -> Option<Vec<u8>> {
            let (p, w) = to_pl(b, r.fmt).ok()?;
            if !w.is_empty() {
                return None;
            }
            let mut c = to_tfm(&p).0;
            if font.checksum.is_none() && c.len() >= 28 {
                c[24..28].copy_from_slice(&[0; 4]);
            }
            Some(c)
        };
        let (tp, _) = to_tfm(&pl);
        match (canon(&t0), canon(&tp)) {
            (Some(a), Some(b)) if a == b => {}
            (Some(a), Some(b)) => {
                let at = a.iter().zip(b.iter()).position(|(x, y)| x != y).unwrap_or(a.len().min(b.len()));
                return Verdict::Fail(format!(
                    "(v) the canonical file depends on the layout of the original: {} bytes from the scrambled TFM, {} bytes from pl_to_tfm(PL), first difference at byte {}\nlayout seed {seed}; t0 bytes (hex) {}\nthe font as PL:\n{pl}",
                    a.len(),
                    b.len(),
                    at,
                    hex(&t0)
                ));
            }
            _ => return Verdict::Fail(format!("(v) pl_to_tfm(PL) does not convert warning-free\n{pl}")),
        }
    }
    match verdict {
        Verdict::Fail(m) => Verdict::Fail(format!("{m}\nlayout seed {seed}; t0 bytes (hex) {}\nthe font as PL:\n{pl}", hex(&t0))),
        Verdict::Skip(why) => Verdict::Fail(format!("(gen) a legal TFM does not convert warning-free: {why}: {:?}\nlayout seed {seed}; t0 bytes (hex) {}\nthe font as PL:\n{pl}", to_pl(&t0, r.fmt).map(|x| x.1), hex(&t0))),
        v => v,
    }
}

fn hex(b: &[u8]) -> String {
    let mut s = String::new();
    for (k, c) in b.chunks(4).enumerate() {
        if k > 0 {
            s.push(' ');
        }
        for x in c {
            s.push_str(&format!("{:02x}", x));
        }
    }
    s
}

// ------------------------------------------------------------------------------------
// Corpus

#[derive(Clone, Debug, Serialize, Deserialize)]
pub struct CorpusCase {
    /// path relative to the repository root
    pub path: String,
}

fn repo_root() -> String {
    std::env::var("VP_REPO").unwrap_or_else(|_| "/repo".to_string())
}

fn corpus_files(ext: &str) -> Vec<CorpusCase> {
    let root = repo_root();
    let mut out = vec![];
    let mut stack = vec![format!("{root}/crates/tfm/corpus")];
    while let Some(d) = stack.pop() {
        let Ok(rd) = std::fs::read_dir(&d) else { continue };
        for e in rd.filter_map(|e| e.ok()) {
            let p = e.path();
            if p.is_dir() {
                stack.push(p.to_string_lossy().to_string());
            } else if p.extension().map(|x| x == ext).unwrap_or(false) {
                let full = p.to_string_lossy().to_string();
                out.push(CorpusCase { path: full[root.len() + 1..].to_string() });
            }
        }
    }
    out.sort_by(|a, b| a.path.cmp(&b.path));
    out
}

/// A TFM file given byte by byte (hex, blanks ignored): hand-made files and witnesses of findings.
#[derive(Clone, Debug, Serialize, Deserialize)]
pub struct RawCase {
    pub what: String,
    pub hex: String,
}

fn unhex(s: &str) -> Vec<u8> {
    let d: Vec<u8> = s.bytes().filter_map(|c| (c as char).to_digit(16).map(|x| x as u8)).collect();
    d.chunks(2).filter(|c| c.len() == 2).map(|c| c[0] * 16 + c[1]).collect()
}

/// Two characters A, B (width 1.0) in a file with bc = 60: the char_info word of the non-existent character 60 is
/// `[0,0,1,rem]`. `own`: its instruction is reached by nobody else; otherwise A starts at the same instruction.
fn raw_orphan_file(own: bool, inside: bool) -> RawCase {
    // lf lh bc ec nw nh nd ni nl nk ne np ; header ; char_info ; width ; height depth italic ; lig/kern ; kern
    let (bc, ec) = if inside { (0x41, 0x47) } else { (0x3c, 0x42) };
    let n = ec - bc + 1;
    let mut ci = vec!["00000000".to_string(); n];
    let (a, b, o) = if inside { (0, 6, 3) } else { (5, 6, 0) };
    ci[a] = if own { "01000000".into() } else { "01000100".into() };
    ci[b] = "01000000".into();
    ci[o] = "00000100".into();
    let lf = 6 + 2 + n + 2 + 1 + 1 + 1 + 1 + 1;
    let hex = format!(
        "{:04x}0002 {:04x}{:04x} 00020001 00010001 00010001 00000000 00000000 00a00000 {} 00000000 00100000 00000000 00000000 00000000 80{:02x}8000 00080000",
        lf,
        bc,
        ec,
        ci.join(" "),
        bc + b
    );
    RawCase { what: format!("lig tag on a non-existent character {} the range of existing characters, {}", if inside { "inside" } else { "outside" }, if own { "the only way into its instruction" } else { "sharing its instruction with an existing character" }), hex }
}

/// A hand-made file for the lig/kern table: characters `exist` (all of width 0.5) in a font with bc = 'a', ec = 'z',
/// lig tags `tags` (character, remainder), the lig/kern words and the kerns as given. lh = 2.
fn raw_lig_file(what: &str, exist: &[u8], tags: &[(u8, u8)], lk: &[[u8; 4]], kerns: &[i32]) -> RawCase {
    let (bc, ec) = (b'a' as usize, b'z' as usize);
    let n = ec - bc + 1;
    let mut ci = vec![[0u8; 4]; n];
    for c in exist {
        ci[*c as usize - bc] = [1, 0, 0, 0];
    }
    for (c, rem) in tags {
        ci[*c as usize - bc][2] = 1;
        ci[*c as usize - bc][3] = *rem;
    }
    let lf = 6 + 2 + n + 2 + 1 + 1 + 1 + lk.len() + kerns.len();
    let mut b: Vec<u8> = vec![];
    for v in [lf, 2, bc, ec, 2, 1, 1, 1, lk.len(), kerns.len(), 0, 0] {
        b.extend((v as u16).to_be_bytes());
    }
    b.extend([0, 0, 0, 0, 0, 0xa0, 0, 0]); // check sum 0, design size 10
    b.extend(ci.iter().flatten());
    for v in [0i32, 1 << 19, 0, 0, 0] {
        b.extend(v.to_be_bytes()); // widths 0, 0.5; height, depth, italic 0
    }
    b.extend(lk.iter().flatten());
    for k in kerns {
        b.extend(k.to_be_bytes());
    }
    RawCase { what: what.into(), hex: hex(&b) }
}

/// Indirect entry words (skip_byte > 128) in places where PLtoTF never writes them. All files are legal: TFtoPL 67
/// marks a word that a lig tag points to "pass_through" wherever it sits, and no walk runs into one.
fn raw_indirect_files() -> Vec<RawCase> {
    let k = |tenths: i32| (1 << 20) / 10 * tenths;
    let krn = |skip: u8, right: u8, ix: u8| [skip, right, 128, ix];
    let lig = |skip: u8, right: u8, insert: u8| [skip, right, 0, insert];
    let to = |skip: u8, target: u8| [skip, 0, 0, target];
    vec![
        raw_lig_file(
            "indirect entry word of b inside the range that the program of a jumps over: 0: (a) KRN x SKIP 1, 1: (b) -> 3, 2: KRN y STOP, 3: KRN z STOP",
            b"abwxyz",
            &[(b'a', 0), (b'b', 1)],
            &[krn(1, b'x', 0), to(254, 3), krn(128, b'y', 1), krn(128, b'z', 2)],
            &[k(1), k(2), k(3)],
        ),
        raw_lig_file(
            "indirect entry word shared by b and c between two programs and between two unreachable instructions, its target also entered directly by d: 0: (a) KRN x STOP, 1: unreachable, 2: (b, c) -> 4, 3: unreachable, 4: (d) KRN z, 5: LIG y w STOP",
            b"abcdwxyz",
            &[(b'a', 0), (b'b', 2), (b'c', 2), (b'd', 4)],
            &[krn(128, b'x', 0), lig(128, b'w', b'w'), [200, 7, 0, 4], krn(0, b'y', 1), krn(0, b'z', 2), lig(128, b'y', b'w')],
            &[k(1), k(2), k(3)],
        ),
        raw_lig_file(
            "left-boundary program that jumps over the indirect entry word of b and an unreachable instruction, a enters through the left-boundary word, boundary char y: 0: BOUNDARYCHAR y, 1: KRN x SKIP 2, 2: (b) -> 5, 3: unreachable, 4: KRN y STOP, 5: LIG z w STOP, 6: (left boundary, a) -> 1",
            b"abwxyz",
            &[(b'a', 6), (b'b', 2)],
            &[[255, b'y', 0, 0], krn(2, b'x', 0), to(129, 5), krn(128, b'w', 1), krn(128, b'y', 1), lig(128, b'z', b'w'), [255, 0, 0, 1]],
            &[k(1), k(2)],
        ),
        raw_lig_file(
            "two indirect entry words inside one jumped range, one of them pointing backwards, behind a step whose skip_byte jumps over indirect words only: 0: (a) KRN x, SKIP 1, 1: (c) -> 5, 2: (b) KRN y SKIP 2, 3: (d) -> 0, 4: (c2=w) -> 5, 5: KRN z STOP",
            b"abcdwxyz",
            &[(b'a', 0), (b'b', 2), (b'c', 1), (b'd', 3), (b'w', 4)],
            &[krn(1, b'x', 0), to(130, 5), krn(2, b'y', 1), to(255, 0), to(131, 5), krn(128, b'z', 2)],
            &[k(1), k(2), k(3)],
        ),
    ]
}

pub fn run(ctx: &Ctx) {
    ctx.rule("A case is one font (a corpus .tfm, pl_to_tfm of a corpus .plst, pl_to_tfm of a generated property list rendered as PL text, or the same generated font laid out by an independent TFM writer with shuffled/duplicated/unused table entries, needless entry-point redirects at the front AND in the middle of the lig/kern table, and unreachable instructions) whose tfm_to_pl conversion is warning-free; it is non-trivial iff its lig/kern program has two labels (characters or the left boundary) walking through a common instruction, or more than 255 instructions, or a rule for the left or right boundary. Distinct = distinct generated structure / distinct file. Shapes that are generated and counted as classes: header lengths 2..17 and > 18 (last word zero), header strings of full length / with leading (TFM side) and trailing blanks, SLANT beyond 16, exactly 254 parameters, SKIP up to 127 over reachable and unreachable instructions and onto the last instruction, kern indices >= 256 in the canonical file, fonts mixing codes below and above 127 with every way of being seven-bit unsafe, lig/NEXTLARGER/VARCHAR tags on char_info words of non-existent characters inside and outside the range of existing characters (hand-made files in raw_tfm and the own writer), indirect entry words (skip_byte > 128) in the middle of the lig/kern table: inside the range a reachable SKIP jumps over (also of the left-boundary program, also two in one range, also as the only words jumped over), between two programs, next to unreachable instructions, behind the last instruction, pointing backwards, shared by several characters, beside a direct entry to the same start, unused, and the left-boundary word as the entry of a character (own writer, driven by the recipe field `mid`, and hand-made files in raw_tfm).");
    ctx.assume("Fonts whose first tfm_to_pl conversion warns, errors or panics are outside the quantifier and are skipped (counted).");
    ctx.assume("TFtoPL 52 upper-cases the coding scheme and family silently, PLtoTF 70 supplies UNSPECIFIED/face 0 for header fields a short header lacks, and PLtoTF recomputes the seven-bit-safe flag: the header comparison expects exactly these normalisations; header bytes TFtoPL never prints (padding after the strings, bytes 1-2 of word 17) are not compared.");
    ctx.assume("Characters are those with a non-zero width index; tags and lig/kern labels of non-existent characters are not compared, but files that carry them (own TFM writer, hand-made files) must still normalise to a fixed point.");
    ctx.assume("Seven-bit-safe flag: PLtoTF 133 writes the flag it computed (110-113: no existing character below 128, nor the left boundary program, generates a character above 127 through an effective LIG instruction whose right character is below 128 or the boundary character, NEXTLARGER or VARCHAR), so the canonical file must carry the flag iff an independent evaluation of that rule on the raw bytes says safe; not demanded for fonts with 5003 or more distinct lig/kern pairs (PLtoTF's hash table overflows there). PLtoTF 87 skips blanks in front of a header string; trailing blanks are kept.");

    ctx.assume("Generated fonts are loop-free by construction (a ligature only inserts a character of strictly higher level than every character whose program reaches the instruction and than the right character), reference only existing characters, keep |dimension| < 16, design size in [1,2048), at most 15/15/63 distinct non-zero heights/depths/italics and 255 widths; a generated font whose conversion is not warning-free is reported as a failure, not skipped.");
    ctx.assume("Fonts with more than 254 parameters, or whose seven-bit-safe flag is wrongly set, cannot be expressed in PL without a PLtoTF warning and are skipped (counted); any other pl_to_tfm warning about tfm_to_pl's own warning-free output is a failure.");
    ctx.assume("No generated or hand-made font lets a lig/kern walk RUN INTO a word with skip_byte > 128 (by falling through, by a SKIP that lands on it, or as the start of the left-boundary program): TeX 1039 simply stops there, but TFtoPL 74 prints a bare (STOP) for such an accessible word, which PLtoTF 104 rejects (\"STOP must follow LIG or KRN\") or, behind a KRN/LIG, accepts with a different meaning of an earlier SKIP; the own writer enlarges the skip_byte of every step in front of an inserted word so that all walks jump over it.");
    let known_orphan = ctx.known(ORPHAN_FLAG);
    // VP_C11_SUB=generated|generated_tfm|corpus_tfm|corpus_pl|raw_tfm restricts a generate run to one sub-check (used for the sensitivity self-test).
    let only = std::env::var("VP_C11_SUB").ok().filter(|_| ctx.is_generate());
    let want = |name: &str| only.as_deref().map(|o| o == name).unwrap_or(true);
    let files = if want("corpus_tfm") { corpus_files("tfm") } else { vec![] };
    if ctx.is_generate() && want("corpus_tfm") && files.len() < 50 {
        eprintln!("C11: corpus not found under {}", repo_root());
        std::process::exit(2);
    }
    run_list(ctx, "corpus_tfm", files, |c: &CorpusCase, case: &mut Case| {
        let Ok(b) = std::fs::read(format!("{}/{}", repo_root(), c.path)) else { return Verdict::Skip("unreadable file") };
        case.note = Some(c.path.clone());
        check_font(&b, 0, known_orphan, case)
    });
    run_list(ctx, "corpus_pl", if want("corpus_pl") { corpus_files("plst") } else { vec![] }, |c: &CorpusCase, case: &mut Case| {
        let Ok(s) = std::fs::read_to_string(format!("{}/{}", repo_root(), c.path)) else { return Verdict::Skip("unreadable file") };
        case.note = Some(c.path.clone());
        let t0 = match crate::engine::panics::catch(|| to_tfm(&s)) {
            Ok((b, _)) => b,
            Err(_) => return Verdict::Skip("pl_to_tfm(corpus plst) panics (C10 territory)"),
        };
        check_font(&t0, 0, known_orphan, case)
    });
    let raws = if want("raw_tfm") {
        let mut v = vec![raw_orphan_file(false, true), raw_orphan_file(true, true), raw_orphan_file(false, false), raw_orphan_file(true, false)];
        v.extend(raw_indirect_files());
        v
    } else {
        vec![]
    };
    run_list(ctx, "raw_tfm", raws, |c: &RawCase, case: &mut Case| {
        case.note = Some(c.what.clone());
        match check_font(&unhex(&c.hex), 0, known_orphan, case) {
            Verdict::Skip(why) => Verdict::Fail(format!("(raw) a hand-made legal TFM does not convert warning-free: {why}")),
            v => v,
        }
    });
    run_generated(ctx, "generated_tfm", if want("generated_tfm") { ctx.tier.pick(4_000, 120_000) } else { 0 }, recipe, |r: &Recipe, case: &mut Case| check_written(r, known_orphan, case));
    run_generated(ctx, "generated", if want("generated") { ctx.tier.pick(6_000, 180_000) } else { 0 }, recipe, |r: &Recipe, case: &mut Case| check_generated(r, known_orphan, case));
}
