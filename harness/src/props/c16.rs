//! C16 DVI encoding round-trips; variable removal preserves every position.

use crate::engine::panics;
use crate::engine::*;
use crate::models::dvi_track::{self as m, Blob, DOp, Dev, End, V};
use proptest::prelude::*;
use serde::{Deserialize, Serialize};

const FLAG_POST_POST: &str = "flag:post_post_id_before_pointer";
/// When true, the bytes written by `dvi::serialize` and the ops read by `dvi::Deserializer`
/// must also agree with the independent codec written from the DVI command table (TeX §585–591).
const CHECK_AGAINST_DVI_STANDARD: bool = true;
/// The crate writes and reads post_post as `249 i[1] q[4]` where DVI (TeX 590) has `q[4] i[1]`.
/// The property as stated (round trip, totality) holds for that layout, so the independent codec
/// accepts it for this one op; the observation is recorded in DESIGN.md, not as a finding.
const ACCEPT_CRATE_POST_POST_LAYOUT: bool = true;
/// When true, `dvi::Values` (the register file VarRemover is built on; anchor "DVI registers") is also
/// compared with the tracker after every op.
const CHECK_VALUES: bool = true;

/// Generated round-trip cases in which `dvi::serialize` did not write the minimal-width encoding.
/// The statement does not demand minimal widths and the crate documents them only by example
/// (those examples are asserted in `model_goldens`), so this is surfaced in the evidence
/// (`roundtrip.non_minimal_width_encodings`), not failed.
static NON_MINIMAL: std::sync::atomic::AtomicU64 = std::sync::atomic::AtomicU64::new(0);

// ---------------------------------------------------------------------------------
// Conversions between the mirror type and the API type

fn var_to(v: V) -> dvi::Var {
    match v {
        V::W => dvi::Var::W,
        V::X => dvi::Var::X,
        V::Y => dvi::Var::Y,
        V::Z => dvi::Var::Z,
    }
}
fn var_from(v: dvi::Var) -> V {
    match v {
        dvi::Var::W => V::W,
        dvi::Var::X => V::X,
        dvi::Var::Y => V::Y,
        dvi::Var::Z => V::Z,
    }
}

fn to_dvi(op: &DOp) -> dvi::Op {
    use dvi::Op;
    match op {
        DOp::Char { c, set } => Op::TypesetChar { char: *c, move_h: *set },
        DOp::Rule { height, width, set } => Op::TypesetRule { height: *height, width: *width, move_h: *set },
        DOp::Nop => Op::NoOp,
        DOp::Bop { c, p } => Op::BeginPage { parameters: *c, previous_begin_page: *p },
        DOp::Eop => Op::EndPage,
        DOp::Push => Op::Push,
        DOp::Pop => Op::Pop,
        DOp::Right(d) => Op::Right(*d),
        DOp::Down(d) => Op::Down(*d),
        DOp::Move(v) => Op::Move(var_to(*v)),
        DOp::SetVar(v, d) => Op::SetVar(var_to(*v), *d),
        DOp::Fnt(f) => Op::EnableFont(*f),
        DOp::Xxx(b) => Op::Extension(b.bytes()),
        DOp::FntDef { k, c, s, d, area, name } => Op::DefineFont { number: *k, checksum: *c, at_size: *s, design_size: *d, area: area.clone(), name: name.clone() },
        DOp::Pre { i, num, den, mag, comment } => Op::Preamble { dvi_format: *i, unit_numerator: *num, unit_denominator: *den, magnification: *mag, comment: comment.clone() },
        DOp::Post { p, num, den, mag, l, u, s, t } => Op::BeginPostamble {
            final_begin_page: *p,
            unit_numerator: *num,
            unit_denominator: *den,
            magnification: *mag,
            largest_height: *l,
            largest_width: *u,
            max_stack_depth: *s,
            num_pages: *t,
        },
        DOp::PostPost { q, i, n223 } => Op::EndPostamble { postamble: *q, dvi_format: *i, num_223_bytes: *n223 as usize },
    }
}

fn from_dvi(op: &dvi::Op) -> DOp {
    use dvi::Op;
    match op {
        Op::TypesetChar { char, move_h } => DOp::Char { c: *char, set: *move_h },
        Op::TypesetRule { height, width, move_h } => DOp::Rule { height: *height, width: *width, set: *move_h },
        Op::NoOp => DOp::Nop,
        Op::BeginPage { parameters, previous_begin_page } => DOp::Bop { c: *parameters, p: *previous_begin_page },
        Op::EndPage => DOp::Eop,
        Op::Push => DOp::Push,
        Op::Pop => DOp::Pop,
        Op::Right(d) => DOp::Right(*d),
        Op::Down(d) => DOp::Down(*d),
        Op::Move(v) => DOp::Move(var_from(*v)),
        Op::SetVar(v, d) => DOp::SetVar(var_from(*v), *d),
        Op::EnableFont(f) => DOp::Fnt(*f),
        Op::Extension(b) => DOp::Xxx(Blob::Lit(b.clone())),
        Op::DefineFont { number, checksum, at_size, design_size, area, name } => DOp::FntDef { k: *number, c: *checksum, s: *at_size, d: *design_size, area: area.clone(), name: name.clone() },
        Op::Preamble { dvi_format, unit_numerator, unit_denominator, magnification, comment } => DOp::Pre { i: *dvi_format, num: *unit_numerator, den: *unit_denominator, mag: *magnification, comment: comment.clone() },
        Op::BeginPostamble { final_begin_page, unit_numerator, unit_denominator, magnification, largest_height, largest_width, max_stack_depth, num_pages } => DOp::Post {
            p: *final_begin_page,
            num: *unit_numerator,
            den: *unit_denominator,
            mag: *magnification,
            l: *largest_height,
            u: *largest_width,
            s: *max_stack_depth,
            t: *num_pages,
        },
        Op::EndPostamble { postamble, dvi_format, num_223_bytes } => DOp::PostPost { q: *postamble, i: *dvi_format, n223: (*num_223_bytes).min(u32::MAX as usize) as u32 },
    }
}

fn render(ops: &[DOp]) -> String {
    let mut s = String::new();
    for (i, op) in ops.iter().enumerate() {
        if i > 0 {
            s.push(' ');
        }
        match op {
            DOp::Char { c, set } => s.push_str(&format!("{}({})", if *set { "set" } else { "put" }, c)),
            DOp::Rule { height, width, set } => s.push_str(&format!("{}rule({}x{})", if *set { "set" } else { "put" }, width, height)),
            DOp::Nop => s.push_str("nop"),
            DOp::Bop { .. } => s.push_str("BOP"),
            DOp::Eop => s.push_str("EOP"),
            DOp::Push => s.push_str("push"),
            DOp::Pop => s.push_str("pop"),
            DOp::Right(d) => s.push_str(&format!("right({d})")),
            DOp::Down(d) => s.push_str(&format!("down({d})")),
            DOp::Move(v) => s.push_str(&format!("{:?}0", v).to_lowercase()),
            DOp::SetVar(v, d) => s.push_str(&format!("{}({d})", format!("{:?}", v).to_lowercase())),
            DOp::Fnt(f) => s.push_str(&format!("fnt({f})")),
            DOp::Xxx(b) => s.push_str(&format!("xxx[{}]", b.len())),
            DOp::FntDef { k, .. } => s.push_str(&format!("fntdef({k})")),
            DOp::Pre { .. } => s.push_str("pre"),
            DOp::Post { .. } => s.push_str("post"),
            DOp::PostPost { n223, .. } => s.push_str(&format!("postpost[{n223}]")),
        }
    }
    s
}

// ---------------------------------------------------------------------------------
// Operand values

/// Signed values on and around every encoding boundary.
fn signed_boundaries() -> Vec<i32> {
    let mut v = vec![0, 1, -1, i32::MIN, i32::MIN + 1, i32::MAX - 1, i32::MAX];
    for k in [7, 15, 23] {
        let p = 1i32 << k;
        v.extend_from_slice(&[p - 1, p, p + 1, -p - 1, -p, -p + 1]);
    }
    v.extend_from_slice(&[1 << 30, -(1 << 30), 255, 256, -255, -256, 65535, 65536]);
    v
}

fn unsigned_boundaries() -> Vec<u32> {
    let mut v = vec![0u32, 1, 51, 52, 53, 63, 64, 65, 127, 128, 129, 222, 223, 224, u32::MAX - 1, u32::MAX];
    for k in [8, 16, 24, 31] {
        let p = 1u32 << k;
        v.extend_from_slice(&[p - 1, p, p + 1]);
    }
    v
}

fn sval() -> BoxedStrategy<i32> {
    prop_oneof![
        4 => proptest::sample::select(signed_boundaries()),
        2 => -130i32..130,
        2 => (proptest::sample::select(signed_boundaries()), -3i32..=3).prop_map(|(c, d)| c.saturating_add(d)),
        1 => any::<i32>(),
    ]
    .boxed()
}

fn uval() -> BoxedStrategy<u32> {
    prop_oneof![
        4 => proptest::sample::select(unsigned_boundaries()),
        2 => 0u32..300,
        2 => (proptest::sample::select(unsigned_boundaries()), -3i64..=3).prop_map(|(c, d)| (c as i64 + d).clamp(0, u32::MAX as i64) as u32),
        1 => any::<u32>(),
    ]
    .boxed()
}

fn u16val() -> BoxedStrategy<u16> {
    prop_oneof![proptest::sample::select(vec![0u16, 1, 127, 128, 255, 256, 32767, 32768, 65534, 65535]), any::<u16>()].boxed()
}

fn u8val() -> BoxedStrategy<u8> {
    prop_oneof![proptest::sample::select(vec![0u8, 1, 2, 3, 127, 128, 222, 223, 224, 254, 255]), any::<u8>()].boxed()
}

/// Arbitrary Unicode whose UTF-8 encoding has exactly a chosen length in 0..=255 bytes:
/// a random prefix (any scalar value, NUL and U+FFFD included) padded with a filler character.
fn ustr() -> BoxedStrategy<String> {
    let target = prop_oneof![3 => proptest::sample::select(vec![0usize, 1, 2, 3, 4, 127, 128, 252, 253, 254, 255]), 2 => 0usize..=255];
    let ch = prop_oneof![3 => any::<char>(), 2 => proptest::char::range(' ', '~'), 1 => proptest::sample::select(vec!['\0', '\u{7f}', '\u{80}', '\u{7ff}', '\u{800}', '\u{fffd}', '\u{ffff}', '\u{10000}', '\u{10ffff}', 'é', '€', '𝄞'])];
    let prefix = prop_oneof![4 => proptest::collection::vec(ch.clone(), 0..12), 1 => proptest::collection::vec(ch, 0..=255)];
    (target, prefix, proptest::sample::select(vec!['a', 'é', '€', '𝄞', '\0', '\u{fffd}'])).prop_map(|(target, prefix, fill)| {
        let mut s = String::new();
        for c in prefix {
            if s.len() + c.len_utf8() > target {
                break;
            }
            s.push(c);
        }
        while s.len() + fill.len_utf8() <= target {
            s.push(fill);
        }
        while s.len() < target {
            s.push('x');
        }
        s
    })
    .boxed()
}

fn blob() -> BoxedStrategy<Blob> {
    let len = prop_oneof![4 => proptest::sample::select(vec![0usize, 1, 2, 254, 255, 256, 257]), 3 => 0usize..40, 1 => 0usize..600];
    prop_oneof![
        30 => (len, any::<u8>(), proptest::collection::vec(any::<u8>(), 0..24)).prop_map(|(n, fill, head)| {
            let mut v: Vec<u8> = head;
            v.resize(n, fill);
            Blob::Lit(v)
        }),
        1 => (proptest::sample::select(vec![65535u32, 65536, 65537]), any::<u8>()).prop_map(|(len, seed)| Blob::Rep { len, seed }),
    ]
    .boxed()
}

fn var() -> BoxedStrategy<V> {
    proptest::sample::select(vec![V::W, V::X, V::Y, V::Z]).boxed()
}

/// Every op variant, operands at every width (encoding round trip: no position arithmetic).
fn any_op() -> BoxedStrategy<DOp> {
    prop_oneof![
        4 => (uval(), any::<bool>()).prop_map(|(c, set)| DOp::Char { c, set }),
        2 => (sval(), sval(), any::<bool>()).prop_map(|(height, width, set)| DOp::Rule { height, width, set }),
        1 => Just(DOp::Nop),
        1 => (proptest::collection::vec(sval(), 11)).prop_map(|v| {
            let mut c = [0i32; 10];
            c.copy_from_slice(&v[..10]);
            DOp::Bop { c, p: v[10] }
        }),
        1 => Just(DOp::Eop),
        1 => Just(DOp::Push),
        1 => Just(DOp::Pop),
        4 => sval().prop_map(DOp::Right),
        4 => sval().prop_map(DOp::Down),
        2 => var().prop_map(DOp::Move),
        8 => (var(), sval()).prop_map(|(v, d)| DOp::SetVar(v, d)),
        4 => uval().prop_map(DOp::Fnt),
        2 => blob().prop_map(DOp::Xxx),
        2 => (uval(), uval(), uval(), uval(), ustr(), ustr()).prop_map(|(k, c, s, d, area, name)| DOp::FntDef { k, c, s, d, area, name }),
        1 => (u8val(), uval(), uval(), uval(), ustr()).prop_map(|(i, num, den, mag, comment)| DOp::Pre { i, num, den, mag, comment }),
        1 => (sval(), uval(), uval(), uval(), uval(), uval(), u16val(), u16val()).prop_map(|(p, num, den, mag, l, u, s, t)| DOp::Post { p, num, den, mag, l, u, s, t }),
        1 => (sval(), u8val(), prop_oneof![4 => 0u32..9, 1 => 0u32..400]).prop_map(|(q, i, n223)| DOp::PostPost { q, i, n223 }),
    ]
    .boxed()
}

/// post_post is kept in one case out of eight only (elsewhere it becomes `post`), so that the
/// listed finding about its field order does not absorb a large share of the cases.
fn thin_post_post(ops: Vec<DOp>, keep: bool) -> Vec<DOp> {
    if keep {
        return ops;
    }
    ops.into_iter()
        .map(|o| match o {
            DOp::PostPost { q, i, n223 } => DOp::Post { p: q, num: i as u32, den: n223, mag: 1000, l: 0, u: 0, s: i as u16, t: n223 as u16 },
            o => o,
        })
        .collect()
}

fn any_ops_max(short: usize) -> BoxedStrategy<Vec<DOp>> {
    let v = prop_oneof![
        6 => proptest::collection::vec(any_op(), 0..short),
        1 => proptest::collection::vec(any_op(), 0..=200),
    ];
    (v, 0u8..8).prop_map(|(ops, k)| thin_post_post(ops, k == 0)).boxed()
}

fn any_ops() -> BoxedStrategy<Vec<DOp>> {
    any_ops_max(40)
}

// ---------------------------------------------------------------------------------
// (i) round trip

/// Manual decode loop over `Op::deserialize` that insists on progress.
fn impl_decode(bytes: &[u8]) -> Result<(Vec<dvi::Op>, Result<(), dvi::InvalidDviData>), String> {
    let mut rest: &[u8] = bytes;
    let mut ops = vec![];
    loop {
        match dvi::Op::deserialize(rest) {
            Ok(None) => {
                if !rest.is_empty() {
                    return Err(format!("Op::deserialize returned Ok(None) with {} bytes left", rest.len()));
                }
                return Ok((ops, Ok(())));
            }
            Ok(Some((op, tail))) => {
                if tail.len() >= rest.len() {
                    return Err(format!("Op::deserialize made no progress at offset {} (would loop forever)", bytes.len() - rest.len()));
                }
                // (an exhausted input may legitimately be reported by any empty slice)
                if !tail.is_empty() && tail.as_ptr() != rest[rest.len() - tail.len()..].as_ptr() {
                    return Err("Op::deserialize returned a tail that is not the suffix of its input".into());
                }
                rest = tail;
                ops.push(op);
            }
            Err(e) => return Ok((ops, Err(e))),
        }
    }
}

fn first_diff<T: PartialEq + std::fmt::Debug>(a: &[T], b: &[T]) -> String {
    for i in 0..a.len().max(b.len()) {
        if a.get(i) != b.get(i) {
            let f = |x: Option<&T>| {
                let mut s = format!("{:?}", x);
                if s.len() > 300 {
                    let mut k = 300;
                    while !s.is_char_boundary(k) {
                        k -= 1;
                    }
                    s.truncate(k);
                    s.push('…');
                }
                s
            };
            return format!("index {i}: {} vs {}", f(a.get(i)), f(b.get(i)));
        }
    }
    "no difference".into()
}

/// Exactly 255 bytes and the last character occupies more than one byte (the length byte is at its
/// maximum and byte 254 is a continuation byte).
fn ends_multibyte_at_255(s: &str) -> bool {
    s.len() == 255 && !s.is_char_boundary(254)
}

fn width_classes(ops: &[DOp], case: &mut Case) -> bool {
    let mut cls: std::collections::BTreeSet<&'static str> = Default::default();
    let mut s = [false; 5];
    let mut u = [false; 5];
    let mut multi = false;
    for op in ops {
        match op {
            DOp::Right(d) | DOp::Down(d) | DOp::SetVar(_, d) => {
                s[m::signed_width(*d) as usize] = true;
                multi |= m::signed_width(*d) >= 2;
            }
            DOp::Char { c, set } => {
                if *set && *c < 128 {
                    cls.insert("set_char_i");
                } else {
                    u[m::unsigned_width(*c) as usize] = true;
                    multi |= m::unsigned_width(*c) >= 2;
                }
            }
            DOp::Fnt(f) => {
                if *f < 64 {
                    cls.insert("fnt_num_i");
                } else {
                    u[m::unsigned_width(*f) as usize] = true;
                    multi |= m::unsigned_width(*f) >= 2;
                }
            }
            DOp::FntDef { k, area, name, .. } => {
                u[m::unsigned_width(*k) as usize] = true;
                multi = true;
                if area.len() == 255 || name.len() == 255 { cls.insert("str_len_255"); }
                if ends_multibyte_at_255(area) || ends_multibyte_at_255(name) { cls.insert("str_len_255_last_char_multibyte"); }
                if area.len() == 255 && name.len() == 255 { cls.insert("str_area_and_name_len_255"); }
                if area.is_empty() || name.is_empty() { cls.insert("str_len_0"); }
                if !area.is_ascii() || !name.is_ascii() { cls.insert("str_non_ascii"); }
            }
            DOp::Pre { comment, .. } => {
                multi = true;
                if comment.len() == 255 { cls.insert("str_len_255"); }
                if ends_multibyte_at_255(comment) { cls.insert("str_len_255_last_char_multibyte"); }
                if comment.is_empty() { cls.insert("str_len_0"); }
                if !comment.is_ascii() { cls.insert("str_non_ascii"); }
            }
            DOp::Xxx(b) => {
                multi = true;
                if b.len() < 256 { cls.insert("xxx1"); }
                if (256..65536).contains(&b.len()) { cls.insert("xxx2"); }
                if (65536..1 << 24).contains(&b.len()) { cls.insert("xxx3"); }
                if b.len() >= 1 << 24 { cls.insert("xxx4"); }
            }
            DOp::Rule { .. } | DOp::Bop { .. } | DOp::Post { .. } => multi = true,
            DOp::PostPost { .. } => {
                multi = true;
                cls.insert("post_post");
            }
            _ => {}
        }
    }
    for (k, name) in [(1, "signed_1byte"), (2, "signed_2byte"), (3, "signed_3byte"), (4, "signed_4byte")] {
        case.class_if(s[k], name);
    }
    for (k, name) in [(1, "unsigned_1byte"), (2, "unsigned_2byte"), (3, "unsigned_3byte"), (4, "unsigned_4byte")] {
        case.class_if(u[k], name);
    }
    if ops.len() >= 100 { cls.insert("len>=100"); }
    if ops.is_empty() { cls.insert("empty"); }
    for c in cls {
        case.class(c);
    }
    multi
}

fn roundtrip_oracle(ctx: &Ctx, ops: &Vec<DOp>, case: &mut Case) -> Verdict {
    let nontrivial = width_classes(ops, case);
    if ops.len() <= 24 {
        case.note = Some(render(ops));
    }
    let api: Vec<dvi::Op> = ops.iter().map(to_dvi).collect();
    let bytes = match panics::catch(|| dvi::serialize(api.clone())) {
        Ok(b) => b,
        Err(p) => return Verdict::Fail(format!("serialize panicked at {}: {}", p.site(), p.message)),
    };
    // the per-op API writes the same bytes
    let mut bytes2 = vec![];
    for op in &api {
        op.serialize(&mut bytes2);
    }
    if bytes2 != bytes {
        return Verdict::Fail("Op::serialize concatenation differs from dvi::serialize".into());
    }
    // The expected value: the ops themselves, except for the one sequence shape the DVI
    // format cannot express (post_post's trailing 223s directly followed by fnt_num_52 = 223).
    let (expected_d, folded) = m::fold_223(ops);
    case.class_if(folded, "post_post_then_fnt_num_52(format-ambiguous)");
    let expected: Vec<dvi::Op> = expected_d.iter().map(to_dvi).collect();
    let (got, end) = match panics::catch(|| impl_decode(&bytes)) {
        Ok(Ok(r)) => r,
        Ok(Err(e)) => return Verdict::Fail(e),
        Err(p) => return Verdict::Fail(format!("deserialize panicked at {}: {}", p.site(), p.message)),
    };
    if let Err(e) = end {
        return Verdict::Fail(format!("deserialize(serialize(ops)) stopped with {:?} after {} of {} ops", e, got.len(), expected.len()));
    }
    if got != expected {
        return Verdict::Fail(format!("deserialize(serialize(ops)) != ops: {}", first_diff(&got, &expected)));
    }
    // the iterator API says the same
    let mut result = Ok(());
    let got_iter: Vec<dvi::Op> = dvi::Deserializer::new(&bytes, &mut result).collect();
    if result != Ok(()) || got_iter != expected {
        return Verdict::Fail(format!("dvi::Deserializer disagrees with Op::deserialize: result {:?}, {}", result, first_diff(&got_iter, &expected)));
    }
    if !CHECK_AGAINST_DVI_STANDARD {
        return Verdict::pass(nontrivial);
    }
    // Independent reading of the written bytes (DVI command table).
    let want: Vec<DOp> = expected_d.iter().map(|o| o.canon()).collect();
    let (ref_ops, ref_end) = m::decode(&bytes, Dev::default());
    if ref_end == End::Done && ref_ops == want {
        let minimal = bytes == m::encode(ops, Dev::default());
        case.class_if(minimal, "bytes_equal_minimal_width_reference");
        case.class_if(!minimal, "bytes_differ_from_minimal_width_reference");
        if !minimal && !case.replay {
            NON_MINIMAL.fetch_add(1, std::sync::atomic::Ordering::Relaxed);
        }
        return Verdict::pass(nontrivial);
    }
    let dev = Dev { post_post_id_before_pointer: true };
    let (dev_ops, dev_end) = m::decode(&bytes, dev);
    if dev_end == End::Done && dev_ops == want {
        if ACCEPT_CRATE_POST_POST_LAYOUT || ctx.known(FLAG_POST_POST) {
            case.class("post_post written id-first (crate layout; outside the property)");
            return Verdict::pass(nontrivial);
        }
        return Verdict::Fail(format!(
            "the bytes written for post_post are not DVI: TeX §590 defines `post_post q[4] i[1] 223…` (pointer, then id byte); written bytes {:?} read by the DVI standard give {}",
            &bytes[..bytes.len().min(40)],
            first_diff(&ref_ops, &want)
        ));
    }
    Verdict::Fail(format!("bytes written by serialize, read by the DVI command table, are not the ops: end {:?}, {}", ref_end, first_diff(&ref_ops, &want)))
}

/// Deterministic boundary sweep: one op (alone, or framed by neighbours) per index.
fn sweep_cases(w: i64, big_blobs: bool) -> Vec<DOp> {
    let mut out = vec![];
    let mut sv: Vec<i32> = vec![];
    for c in [0i64, 1 << 7, -(1 << 7), 1 << 15, -(1 << 15), 1 << 23, -(1 << 23), i32::MIN as i64, i32::MAX as i64] {
        for d in -w..=w {
            let x = c + d;
            if x >= i32::MIN as i64 && x <= i32::MAX as i64 {
                sv.push(x as i32);
            }
        }
    }
    sv.sort();
    sv.dedup();
    let mut uv: Vec<u32> = vec![];
    for c in [0i64, 64, 128, 1 << 8, 1 << 16, 1 << 24, 1 << 31, u32::MAX as i64] {
        for d in -w..=w {
            let x = c + d;
            if x >= 0 && x <= u32::MAX as i64 {
                uv.push(x as u32);
            }
        }
    }
    uv.sort();
    uv.dedup();
    for &x in &sv {
        out.push(DOp::Right(x));
        out.push(DOp::Down(x));
        for v in [V::W, V::X, V::Y, V::Z] {
            out.push(DOp::SetVar(v, x));
        }
    }
    let fd = |k: u32, c: u32, s: u32, d: u32, a: &str, n: &str| DOp::FntDef { k, c, s, d, area: a.to_string(), name: n.to_string() };
    for &x in &uv {
        out.push(DOp::Char { c: x, set: true });
        out.push(DOp::Char { c: x, set: false });
        out.push(DOp::Fnt(x));
        out.push(fd(x, 1, 2, 3, "", "cmr10"));
    }
    let sb = signed_boundaries();
    let ub = unsigned_boundaries();
    for &a in &sb {
        for &b in &sb {
            out.push(DOp::Rule { height: a, width: b, set: true });
            out.push(DOp::Rule { height: a, width: b, set: false });
        }
        for k in 0..11 {
            let mut c = [0i32; 10];
            let mut p = -1;
            if k < 10 {
                c[k] = a;
            } else {
                p = a;
            }
            out.push(DOp::Bop { c, p });
        }
        out.push(DOp::Post { p: a, num: 25400000, den: 473628672, mag: 1000, l: 1, u: 2, s: 3, t: 4 });
        out.push(DOp::PostPost { q: a, i: 2, n223: 4 });
    }
    for &a in &ub {
        out.push(fd(1, a, 2, 3, "a", "b"));
        out.push(fd(1, 2, a, 3, "a", "b"));
        out.push(fd(1, 2, 3, a, "a", "b"));
        out.push(DOp::Pre { i: 2, num: a, den: 1, mag: 1, comment: String::new() });
        out.push(DOp::Pre { i: 2, num: 1, den: a, mag: 1, comment: String::new() });
        out.push(DOp::Pre { i: 2, num: 1, den: 1, mag: a, comment: String::new() });
        for k in 0..5 {
            let mut f = [7u32; 5];
            f[k] = a;
            out.push(DOp::Post { p: -1, num: f[0], den: f[1], mag: f[2], l: f[3], u: f[4], s: 0, t: 0 });
        }
    }
    for x in [0u16, 1, 255, 256, 32767, 32768, 65535] {
        out.push(DOp::Post { p: 0, num: 0, den: 0, mag: 0, l: 0, u: 0, s: x, t: 9 });
        out.push(DOp::Post { p: 0, num: 0, den: 0, mag: 0, l: 0, u: 0, s: 9, t: x });
    }
    for i in 0..=255u8 {
        out.push(DOp::Pre { i, num: 1, den: 2, mag: 3, comment: "x".into() });
        out.push(DOp::PostPost { q: 5, i, n223: 4 });
    }
    for n in 0..=12u32 {
        out.push(DOp::PostPost { q: 100, i: 2, n223: n });
    }
    // string lengths 0..=255 bytes with 1-, 2-, 3- and 4-byte characters
    for fill in ['a', 'é', '€', '𝄞'] {
        for len in 0..=255usize {
            let mut s = String::new();
            while s.len() + fill.len_utf8() <= len {
                s.push(fill);
            }
            while s.len() < len {
                s.push('x');
            }
            out.push(DOp::Pre { i: 2, num: 1, den: 2, mag: 3, comment: s.clone() });
            out.push(fd(0, 0, 0, 0, &s, "n"));
            out.push(fd(0, 0, 0, 0, "a", &s));
            if len % 5 == 0 {
                out.push(fd(0, 0, 0, 0, &s, &s));
            }
        }
    }
    // exactly 255 bytes, last character of 2, 3 and 4 bytes (after a run of the same, and after ASCII)
    for s in [format!("x{}", "é".repeat(127)), "€".repeat(85), format!("xxx{}", "𝄞".repeat(63)), format!("{}é", "a".repeat(253)), format!("{}€", "a".repeat(252)), format!("{}𝄞", "a".repeat(251)), format!("{}{}", "a".repeat(252), '\u{fffd}')] {
        out.push(DOp::Pre { i: 2, num: 1, den: 2, mag: 3, comment: s.clone() });
        out.push(fd(0, 0, 0, 0, &s, ""));
        out.push(fd(0, 0, 0, 0, "", &s));
        out.push(fd(0, 0, 0, 0, &s, &s));
    }
    for len in (0..=300u32).chain([65534, 65535, 65536, 65537]) {
        out.push(DOp::Xxx(Blob::Rep { len, seed: (len % 250) as u8 }));
    }
    if big_blobs {
        for len in [(1u32 << 24) - 1, 1 << 24, (1 << 24) + 1] {
            out.push(DOp::Xxx(Blob::Rep { len, seed: 3 }));
        }
    }
    for op in [DOp::Nop, DOp::Eop, DOp::Push, DOp::Pop, DOp::Move(V::W), DOp::Move(V::X), DOp::Move(V::Y), DOp::Move(V::Z)] {
        out.push(op);
    }
    out
}

// ---------------------------------------------------------------------------------
// (i') robustness of the writer on strings longer than 255 bytes

/// Ops with a string of more than 255 bytes; every character width is made to straddle byte 255.
fn overlong_cases() -> Vec<Vec<DOp>> {
    let mut out = vec![];
    let fd = |a: &str, n: &str| DOp::FntDef { k: 7, c: 1, s: 2, d: 3, area: a.to_string(), name: n.to_string() };
    for fill in ['a', 'é', '€', '𝄞', '\u{fffd}'] {
        for len in [256usize, 257, 258, 259, 300, 510, 511, 512, 513, 764, 765, 766, 1000, 65536, 65537] {
            for offset in 0..4usize {
                let mut s = "x".repeat(offset);
                while s.len() + fill.len_utf8() <= len {
                    s.push(fill);
                }
                while s.len() < len {
                    s.push('y');
                }
                let ops = [
                    DOp::Pre { i: 2, num: 25400000, den: 473628672, mag: 1000, comment: s.clone() },
                    fd(&s, "n"),
                    fd("a", &s),
                    fd(&s, &s),
                    fd(&"€".repeat(85), &s),
                ];
                for op in ops {
                    out.push(vec![op.clone()]);
                    // framed: what precedes and follows must come back untouched
                    out.push(vec![DOp::Fnt(52), DOp::Right(-129), op, DOp::Char { c: 223, set: true }, DOp::SetVar(V::Z, 1 << 23), DOp::Pop]);
                }
            }
        }
    }
    out
}

fn overlong_oracle(ops: &Vec<DOp>, case: &mut Case) -> Verdict {
    let api: Vec<dvi::Op> = ops.iter().map(to_dvi).collect();
    let longest = ops.iter().map(max_str_len).max().unwrap_or(0);
    case.note = Some(format!("{} ops, longest string {} bytes", ops.len(), longest));
    case.class_if(ops.len() > 1, "framed by other ops");
    case.class_if(ops.iter().any(|o| matches!(o, DOp::FntDef { area, name, .. } if area.len() > 255 && name.len() > 255)), "area and name both over-long");
    // both writer entry points write the same bytes
    let r = panics::catch(|| {
        let mut b = vec![];
        for op in &api {
            op.serialize(&mut b);
        }
        b
    });
    match (r, panics::catch(|| dvi::serialize(api.clone()))) {
        (Ok(a), Ok(b)) if a == b => {}
        (Ok(_), Ok(_)) => return Verdict::Fail("Op::serialize concatenation differs from dvi::serialize".into()),
        (Err(p), _) | (_, Err(p)) => return Verdict::Fail(format!("serialize panicked at {}: {} (longest string {} bytes)", p.site(), p.message, longest)),
    }
    match writer_check(ops, &api) {
        Ok(st) => {
            record_writer_stats(&st, case);
            Verdict::pass(st.overlong)
        }
        Err(e) => Verdict::Fail(e),
    }
}

// ---------------------------------------------------------------------------------
// (ii') directed reader forms: every command at every operand width with the limits of every
// width, and every proper prefix of a command

#[derive(Clone, Debug, Serialize, Deserialize)]
pub struct FormCase {
    bytes: Vec<u8>,
    /// What must be read, spelled out by the generator (not by the model decoder).
    want: Vec<DOp>,
    /// `None`: every byte is consumed; `Some(o)`: `Truncated(o)` after `want`.
    truncated: Option<u8>,
}

fn signed_form_values(w: u8) -> Vec<i32> {
    let mut v = vec![0i64, 1, -1];
    for k in 1..=w {
        let bits = 8 * k as u32 - 1;
        let (lo, hi) = (-(1i64 << bits), (1i64 << bits) - 1);
        v.extend_from_slice(&[lo, lo + 1, lo - 1, hi, hi - 1, hi + 1]);
    }
    let bits = 8 * w as u32 - 1;
    let (lo, hi) = (-(1i64 << bits), (1i64 << bits) - 1);
    let mut v: Vec<i32> = v.into_iter().filter(|x| *x >= lo && *x <= hi).map(|x| x as i32).collect();
    v.sort();
    v.dedup();
    v
}

fn unsigned_form_values(w: u8) -> Vec<u32> {
    let hi = if w == 4 { u32::MAX as u64 } else { (1u64 << (8 * w as u32)) - 1 };
    let mut v: Vec<u64> = vec![0, 1, 51, 52, 53, 63, 64, 127, 128];
    for k in 1..=w {
        let m = (1u64 << (8 * k as u32)) - 1;
        v.extend_from_slice(&[m - 1, m, m + 1]);
    }
    let mut v: Vec<u32> = v.into_iter().filter(|x| *x <= hi).map(|x| x as u32).collect();
    v.sort();
    v.dedup();
    v
}

fn directed_forms() -> Vec<FormCase> {
    let mut one: Vec<(Vec<u8>, DOp)> = vec![];
    for w in 1..=4u8 {
        for x in signed_form_values(w) {
            let tail = be_bytes(x as u32, w);
            let mut mk = |base: u8, op: DOp| {
                let mut b = vec![base + w - 1];
                b.extend(&tail);
                one.push((b, op));
            };
            mk(143, DOp::Right(x));
            mk(148, DOp::SetVar(V::W, x));
            mk(153, DOp::SetVar(V::X, x));
            mk(157, DOp::Down(x));
            mk(162, DOp::SetVar(V::Y, x));
            mk(167, DOp::SetVar(V::Z, x));
        }
        for x in unsigned_form_values(w) {
            let tail = be_bytes(x, w);
            let mut mk = |base: u8, op: DOp, rest: &[u8]| {
                let mut b = vec![base + w - 1];
                b.extend(&tail);
                b.extend(rest);
                one.push((b, op));
            };
            mk(128, DOp::Char { c: x, set: true }, &[]);
            mk(133, DOp::Char { c: x, set: false }, &[]);
            mk(235, DOp::Fnt(x), &[]);
            mk(243, DOp::FntDef { k: x, c: 0x01020304, s: 5, d: 0xfffffffe, area: "ar".into(), name: "név".into() }, &[1, 2, 3, 4, 0, 0, 0, 5, 255, 255, 255, 254, 2, 4, b'a', b'r', b'n', 0xc3, 0xa9, b'v']);
            if x <= 300 {
                let payload: Vec<u8> = (0..x).map(|i| (i * 7 + 250) as u8).collect();
                mk(239, DOp::Xxx(Blob::Lit(payload.clone())), &payload);
            }
        }
    }
    let mut out = vec![];
    for (b, op) in one {
        out.push(FormCase { bytes: b.clone(), want: vec![op.clone()], truncated: None });
        // between other commands: exactly the bytes of the command are consumed
        let mut framed = vec![141u8];
        framed.extend(&b);
        framed.extend([65u8, 142]);
        out.push(FormCase { bytes: framed, want: vec![DOp::Push, op, DOp::Char { c: 65, set: true }, DOp::Pop], truncated: None });
    }
    out
}

/// Ops whose every proper prefix is tried.
fn prefix_ops(thorough: bool) -> Vec<DOp> {
    sweep_cases(2, false)
        .into_iter()
        .filter(|op| match op {
            DOp::Xxx(b) => b.len() <= 300 && (thorough || b.len() % 16 == 0 || b.len() <= 3 || (254..=258).contains(&b.len())),
            DOp::FntDef { .. } | DOp::Pre { .. } => {
                let n = max_str_len(op);
                thorough || n <= 4 || n >= 252 || n % 32 == 0
            }
            _ => true,
        })
        .collect()
}

/// The number of leading bytes after which the command is complete (`post_post` is complete after 6
/// bytes, every further 223 belongs to it but is not needed).
fn complete_after(op: &DOp, enc: &[u8]) -> usize {
    match op {
        DOp::PostPost { .. } => 6,
        _ => enc.len(),
    }
}

fn prefix_case(op: &DOp, enc: &[u8], cut: usize, framed: bool) -> FormCase {
    let mut bytes = if framed { vec![141u8] } else { vec![] };
    bytes.extend(&enc[..cut]);
    let mut want = if framed { vec![DOp::Push] } else { vec![] };
    let mut truncated = None;
    if cut < complete_after(op, enc) {
        truncated = Some(enc[0]);
    } else if let DOp::PostPost { q, i, .. } = op {
        want.push(DOp::PostPost { q: *q, i: *i, n223: (cut - 6) as u32 });
    } else {
        want.push(op.canon());
    }
    FormCase { bytes, want, truncated }
}

fn form_oracle(ctx: &Ctx, c: &FormCase, case: &mut Case) -> Verdict {
    if c.bytes.len() <= 40 {
        case.note = Some(format!("{:?}", c.bytes));
    }
    // (1) the generic byte oracle (command table, writer, pipeline)
    let nt = match bytes_check(ctx, &c.bytes, Some(case)) {
        Ok((nt, _)) => nt,
        Err(e) => return Verdict::Fail(e),
    };
    // (2) the reading spelled out by the generator
    let (got, end) = match panics::catch(|| impl_decode(&c.bytes)) {
        Ok(Ok(r)) => r,
        Ok(Err(e)) => return Verdict::Fail(e),
        Err(p) => return Verdict::Fail(format!("deserialize panicked at {}: {}", p.site(), p.message)),
    };
    let got_d: Vec<DOp> = got.iter().map(from_dvi).collect();
    // the same ops with the five parameter bytes of post_post re-read in the standard order
    // (accepted alternative, see ACCEPT_CRATE_POST_POST_LAYOUT)
    let mut alt = got_d.clone();
    for o in alt.iter_mut() {
        if let DOp::PostPost { q, i, .. } = o {
            let b = [*i, (*q >> 24) as u8, (*q >> 16) as u8, (*q >> 8) as u8, *q as u8];
            *q = i32::from_be_bytes([b[0], b[1], b[2], b[3]]);
            *i = b[4];
        }
    }
    let want_end = match c.truncated {
        None => End::Done,
        Some(o) => End::Truncated(o),
    };
    let ops_ok = got_d == c.want || (ACCEPT_CRATE_POST_POST_LAYOUT && alt == c.want);
    if !ops_ok || end_of(&end) != want_end {
        return Verdict::Fail(format!("bytes {:?}: read {} ops ending {:?}, expected {} ops ending {:?}: {}", &c.bytes[..c.bytes.len().min(48)], got_d.len(), end_of(&end), c.want.len(), want_end, first_diff(&got_d, &c.want)));
    }
    case.class(if c.truncated.is_some() { "proper prefix of a command -> Truncated(opcode)" } else { "complete command(s)" });
    Verdict::pass(nt || c.truncated.is_some())
}

// ---------------------------------------------------------------------------------
// (ii) arbitrary bytes

#[derive(Clone, Debug, Serialize, Deserialize)]
pub enum Mutn {
    /// Keep the first `pos` (scaled) bytes.
    Truncate(u16),
    Set(u16, u8),
    Xor(u16, u8),
    Insert(u16, u8),
    Delete(u16),
    /// Repeat `n` bytes starting at the position.
    Dup(u16, u8),
}

#[derive(Clone, Debug, Serialize, Deserialize)]
pub enum BCase {
    Raw(Vec<u8>),
    /// The DVI-standard encoding of `ops` with `muts` applied in order.
    Mutated { ops: Vec<DOp>, muts: Vec<Mutn> },
    /// Commands spelled at chosen (also non-minimal) operand widths, raw strings (also non-UTF-8),
    /// possibly cut short or ended by an undefined opcode.
    Stream(Vec<u8>),
}

fn bcase_bytes(c: &BCase) -> Vec<u8> {
    match c {
        BCase::Raw(b) | BCase::Stream(b) => b.clone(),
        BCase::Mutated { ops, muts } => {
            let mut b = m::encode(ops, Dev::default());
            for mu in muts {
                let at = |p: u16, len: usize| ((p as usize) * len) >> 16;
                match mu {
                    Mutn::Truncate(p) => {
                        let k = at(*p, b.len() + 1);
                        b.truncate(k);
                    }
                    Mutn::Set(p, x) => {
                        if !b.is_empty() {
                            let k = at(*p, b.len());
                            b[k] = *x;
                        }
                    }
                    Mutn::Xor(p, x) => {
                        if !b.is_empty() {
                            let k = at(*p, b.len());
                            b[k] ^= *x;
                        }
                    }
                    Mutn::Insert(p, x) => {
                        let k = at(*p, b.len() + 1);
                        b.insert(k, *x);
                    }
                    Mutn::Delete(p) => {
                        if !b.is_empty() {
                            let k = at(*p, b.len());
                            b.remove(k);
                        }
                    }
                    Mutn::Dup(p, n) => {
                        if !b.is_empty() {
                            let k = at(*p, b.len());
                            let e = (k + *n as usize).min(b.len());
                            let seg: Vec<u8> = b[k..e].to_vec();
                            let tail = b.split_off(e);
                            b.extend_from_slice(&seg);
                            b.extend_from_slice(&tail);
                        }
                    }
                }
            }
            b
        }
    }
}

fn interesting_bytes() -> Vec<u8> {
    let mut v: Vec<u8> = (128..=170).collect();
    v.extend_from_slice(&[0, 1, 2, 3, 4, 5, 127, 171, 222, 223, 223, 223, 224, 234, 235, 236, 237, 238, 239, 239, 240, 241, 242, 243, 243, 244, 245, 246, 247, 247, 248, 249, 250, 255]);
    v
}

/// Raw content of a string parameter: `n` bytes of one of several kinds (valid UTF-8 of each
/// character width at every alignment, invalid bytes, cut multi-byte sequences, mixtures).
fn raw_string() -> BoxedStrategy<Vec<u8>> {
    let n = prop_oneof![4 => proptest::sample::select(vec![0usize, 1, 2, 84, 85, 86, 127, 128, 200, 252, 253, 254, 255]), 2 => 0usize..=255];
    let unit = proptest::sample::select(vec![
        vec![b'a'],
        "é".as_bytes().to_vec(),
        "€".as_bytes().to_vec(),
        "𝄞".as_bytes().to_vec(),
        "\u{fffd}".as_bytes().to_vec(),
        vec![0xff],
        vec![0x80],
        vec![0xc3],             // lead byte without continuation
        vec![0xe2, 0x82],       // 3-byte character cut after 2
        vec![0xf0, 0x9d, 0x84], // 4-byte character cut after 3
        vec![0xed, 0xa0, 0x80], // surrogate
        vec![0xc0, 0xaf],       // overlong form
        vec![0],
    ]);
    (n, 0usize..4, unit.clone(), unit, proptest::collection::vec(any::<u8>(), 0..6), 0usize..=255).prop_map(|(n, offset, u1, u2, noise, switch)| {
        // `offset` ASCII bytes, then unit u1 up to byte `switch`, then unit u2, then noise; cut to n bytes
        let mut v: Vec<u8> = vec![b'x'; offset.min(n)];
        while v.len() < switch.min(n) {
            v.extend_from_slice(&u1);
        }
        while v.len() + noise.len() < n {
            v.extend_from_slice(&u2);
        }
        v.extend_from_slice(&noise);
        v.truncate(n);
        while v.len() < n {
            v.push(b'y');
        }
        v
    })
    .boxed()
}

fn be_bytes(v: u32, w: u8) -> Vec<u8> {
    v.to_be_bytes()[4 - w as usize..].to_vec()
}

/// One command spelled at a chosen operand width (non-minimal forms included), as bytes.
fn raw_command() -> BoxedStrategy<Vec<u8>> {
    // operand values that fit every width and keep positions small, plus the limits of the width
    let sv = |w: u8| -> BoxedStrategy<i32> {
        let bits = 8 * w as u32 - 1;
        let (lo, hi) = if w == 4 { (i32::MIN, i32::MAX) } else { (-(1i32 << bits), (1i32 << bits) - 1) };
        prop_oneof![6 => -100i32..=100, 2 => proptest::sample::select(vec![0, -1, 1, -128, 127, -129, 128]), 1 => proptest::sample::select(vec![lo, hi, lo + 1, hi - 1])].prop_map(move |x| x.clamp(lo, hi)).boxed()
    };
    let uv = |w: u8| -> BoxedStrategy<u32> {
        let hi = if w == 4 { u32::MAX } else { (1u32 << (8 * w as u32)) - 1 };
        prop_oneof![6 => 0u32..200, 2 => proptest::sample::select(vec![0u32, 1, 52, 63, 64, 127, 128, 255, 256]), 1 => Just(hi)].prop_map(move |x| x.min(hi)).boxed()
    };
    let width = 1u8..=4;
    prop_oneof![
        // movement at every width (right, w, x, down, y, z)
        8 => (proptest::sample::select(vec![143u8, 148, 153, 157, 162, 167]), width.clone()).prop_flat_map(move |(base, w)| sv(w).prop_map(move |x| {
            let mut b = vec![base + w - 1];
            b.extend(be_bytes(x as u32, w));
            b
        })),
        // w0 x0 y0 z0
        5 => proptest::sample::select(vec![147u8, 152, 161, 166]).prop_map(|o| vec![o]),
        // set1..4, put1..4, fnt1..4
        4 => (proptest::sample::select(vec![128u8, 133, 235]), width.clone()).prop_flat_map(move |(base, w)| uv(w).prop_map(move |x| {
            let mut b = vec![base + w - 1];
            b.extend(be_bytes(x, w));
            b
        })),
        // set_char_i, fnt_num_i, nop, push, pop, eop
        8 => proptest::sample::select(vec![65u8, 66, 0, 127, 171, 172, 223, 234, 138, 141, 141, 142, 142, 140]).prop_map(|o| vec![o]),
        // rules
        2 => (proptest::sample::select(vec![132u8, 137]), -50i32..50, -50i32..50).prop_map(|(o, a, b)| {
            let mut v = vec![o];
            v.extend(a.to_be_bytes());
            v.extend(b.to_be_bytes());
            v
        }),
        // bop
        2 => (-3i32..3).prop_map(|p| {
            let mut v = vec![139u8];
            v.extend([0u8; 40]);
            v.extend(p.to_be_bytes());
            v
        }),
        // xxx at every width
        3 => (width.clone(), proptest::collection::vec(any::<u8>(), 0..20)).prop_map(|(w, payload)| {
            let mut v = vec![239 + w - 1];
            v.extend(be_bytes(payload.len() as u32, w));
            v.extend(payload);
            v
        }),
        // fnt_def at every width of k, raw strings
        6 => (width.clone(), raw_string(), prop_oneof![3 => Just(vec![b'n']), 1 => raw_string()], any::<bool>()).prop_flat_map(move |(w, a, n, swap)| uv(w).prop_map(move |k| {
            let (a, n) = if swap { (n.clone(), a.clone()) } else { (a.clone(), n.clone()) };
            let mut v = vec![243 + w - 1];
            v.extend(be_bytes(k, w));
            v.extend([0, 0, 0, 1, 0, 10, 0, 0, 0, 10, 0, 0]);
            v.push(a.len() as u8);
            v.push(n.len() as u8);
            v.extend(a);
            v.extend(n);
            v
        })),
        // pre, raw comment
        5 => raw_string().prop_map(|c| {
            let mut v = vec![247u8, 2, 1, 131, 146, 192, 28, 59, 0, 0, 0, 0, 3, 232];
            v.push(c.len() as u8);
            v.extend(c);
            v
        }),
        // post, post_post
        1 => Just(vec![248u8, 0, 0, 0, 0, 1, 131, 146, 192, 28, 59, 0, 0, 0, 0, 3, 232, 0, 0, 0, 1, 0, 0, 0, 1, 0, 1, 0, 1]),
        1 => (0usize..8).prop_map(|n| {
            let mut v = vec![249u8, 0, 0, 0, 0, 2];
            v.extend(std::iter::repeat(223u8).take(n));
            v
        }),
    ]
    .boxed()
}

/// A stream of commands spelled at arbitrary operand widths with raw (possibly non-UTF-8) strings,
/// optionally cut short or ended by an undefined opcode.
fn raw_stream() -> BoxedStrategy<Vec<u8>> {
    let tail = prop_oneof![6 => Just(None), 2 => any::<u16>().prop_map(|p| Some((p, None))), 1 => (any::<u16>(), 250u8..=255).prop_map(|(p, o)| Some((p, Some(o))))];
    (proptest::collection::vec(raw_command(), 1..24), tail)
        .prop_map(|(cmds, tail)| {
            let mut b: Vec<u8> = cmds.into_iter().flatten().collect();
            if let Some((p, o)) = tail {
                let k = ((p as usize) * (b.len() + 1)) >> 16;
                b.truncate(k);
                if let Some(o) = o {
                    b.push(o);
                }
            }
            b
        })
        .boxed()
}

fn bcase_strategy() -> BoxedStrategy<BCase> {
    let byte = prop_oneof![3 => any::<u8>(), 3 => proptest::sample::select(interesting_bytes()), 2 => 0u8..6];
    let raw = prop_oneof![
        3 => proptest::collection::vec(any::<u8>(), 0..48),
        5 => proptest::collection::vec(byte, 0..96),
    ];
    let mu = prop_oneof![
        3 => any::<u16>().prop_map(Mutn::Truncate),
        2 => (any::<u16>(), prop_oneof![any::<u8>(), proptest::sample::select(interesting_bytes())]).prop_map(|(p, x)| Mutn::Set(p, x)),
        2 => (any::<u16>(), prop_oneof![(0u8..8).prop_map(|k| 1u8 << k), any::<u8>()]).prop_map(|(p, x)| Mutn::Xor(p, x)),
        2 => (any::<u16>(), prop_oneof![any::<u8>(), proptest::sample::select(interesting_bytes())]).prop_map(|(p, x)| Mutn::Insert(p, x)),
        2 => any::<u16>().prop_map(Mutn::Delete),
        1 => (any::<u16>(), 1u8..12).prop_map(|(p, n)| Mutn::Dup(p, n)),
    ];
    prop_oneof![
        3 => raw.prop_map(BCase::Raw),
        3 => (proptest::collection::vec(any_op(), 1..14), 0u8..8, proptest::collection::vec(mu, 0..4)).prop_map(|(ops, k, muts)| BCase::Mutated { ops: thin_post_post(ops, k == 0), muts }),
        2 => raw_stream().prop_map(BCase::Stream),
    ]
    .boxed()
}

fn end_of(r: &Result<(), dvi::InvalidDviData>) -> End {
    match r {
        Ok(()) => End::Done,
        Err(dvi::InvalidDviData::InvalidOpCode(o)) => End::BadOpcode(*o),
        Err(dvi::InvalidDviData::Truncated(o)) => End::Truncated(*o),
    }
}

// ---- helpers shared by the byte-level and the op-level checks ----

/// The op with the contents of its string parameters removed.
fn blank_strings(op: &DOp) -> DOp {
    match op {
        DOp::FntDef { k, c, s, d, .. } => DOp::FntDef { k: *k, c: *c, s: *s, d: *d, area: String::new(), name: String::new() },
        DOp::Pre { i, num, den, mag, .. } => DOp::Pre { i: *i, num: *num, den: *den, mag: *mag, comment: String::new() },
        o => o.clone(),
    }
}

/// Longest string parameter of the op, in UTF-8 bytes.
fn max_str_len(op: &DOp) -> usize {
    match op {
        DOp::FntDef { area, name, .. } => area.len().max(name.len()),
        DOp::Pre { comment, .. } => comment.len(),
        _ => 0,
    }
}

fn strings_of(op: &DOp) -> Vec<&str> {
    match op {
        DOp::FntDef { area, name, .. } => vec![area, name],
        DOp::Pre { comment, .. } => vec![comment],
        _ => vec![],
    }
}

/// `a == b`, where ops marked `loose` are compared without the contents of their strings.
fn same_ops(a: &[DOp], b: &[DOp], loose: &[bool]) -> bool {
    a.len() == b.len() && a.iter().zip(b).enumerate().all(|(i, (x, y))| if loose.get(i).copied().unwrap_or(false) { blank_strings(x) == blank_strings(y) } else { x == y })
}

fn first_diff_loose(a: &[DOp], b: &[DOp], loose: &[bool]) -> String {
    let f = |v: &[DOp]| -> Vec<DOp> { v.iter().enumerate().map(|(i, o)| if loose.get(i).copied().unwrap_or(false) { blank_strings(o) } else { o.clone() }).collect() };
    first_diff(&f(a), &f(b))
}

/// Statistics of one run of the writer on reader-produced ops.
#[derive(Default)]
struct WriterStats {
    overlong: bool,
    overlong_cut_inside_char: bool,
    overlong_reread_as_lossy_prefix: bool,
    overlong_reread_otherwise: bool,
}

/// The writer applied to arbitrary `String`s (in particular those the crate's own reader produces from
/// non-UTF-8 bytes, which can be up to 765 bytes long). Demanded: no panic; the written bytes decode
/// to the end, without error, into the same number of ops; every op without an over-long string is
/// returned exactly (that part is the round-trip clause of the property); an op with an over-long
/// string is returned with all its other parameters intact. What becomes of the over-long string
/// itself is not documented by the crate and therefore only counted.
fn writer_check(ops_d: &[DOp], api: &[dvi::Op]) -> Result<WriterStats, String> {
    let mut st = WriterStats::default();
    let bytes = match panics::catch(|| dvi::serialize(api.to_vec())) {
        Ok(b) => b,
        Err(p) => return Err(format!("serialize panicked at {}: {} (strings of {:?} bytes)", p.site(), p.message, ops_d.iter().map(max_str_len).filter(|n| *n > 0).collect::<Vec<_>>())),
    };
    let (expected, _) = m::fold_223(ops_d);
    let loose: Vec<bool> = expected.iter().map(|o| max_str_len(o) > 255).collect();
    st.overlong = loose.iter().any(|b| *b);
    let want: Vec<DOp> = expected.iter().map(|o| o.canon()).collect();
    let (back, end) = match panics::catch(|| impl_decode(&bytes)) {
        Ok(Ok(r)) => r,
        Ok(Err(e)) => return Err(format!("reading back what serialize wrote: {e}")),
        Err(p) => return Err(format!("deserialize panicked at {}: {} on bytes written by serialize", p.site(), p.message)),
    };
    if let Err(e) = &end {
        return Err(format!("serialize wrote a stream that does not decode: {:?} after {} of {} ops", e, back.len(), want.len()));
    }
    let back_d: Vec<DOp> = back.iter().map(from_dvi).collect();
    if !same_ops(&back_d, &want, &loose) {
        return Err(format!("deserialize(serialize(ops)) != ops ({} vs {} ops; strings over 255 bytes not compared): {}", back_d.len(), want.len(), first_diff_loose(&back_d, &want, &loose)));
    }
    for (o, r) in want.iter().zip(&back_d) {
        for (s, t) in strings_of(o).into_iter().zip(strings_of(r)) {
            if s.len() > 255 {
                st.overlong_cut_inside_char |= !s.is_char_boundary(255);
                if *t == *String::from_utf8_lossy(&s.as_bytes()[..255]) {
                    st.overlong_reread_as_lossy_prefix = true;
                } else {
                    st.overlong_reread_otherwise = true;
                }
            }
        }
    }
    if CHECK_AGAINST_DVI_STANDARD {
        // the command table reads the same (a string cut inside a character is no longer UTF-8: loose)
        let ok = [Dev::default(), Dev { post_post_id_before_pointer: true }].iter().any(|dev| {
            if dev.post_post_id_before_pointer && !ACCEPT_CRATE_POST_POST_LAYOUT {
                return false;
            }
            let (r, _, e) = m::decode_ex(&bytes, *dev);
            e == End::Done && same_ops(&r, &want, &loose)
        });
        if !ok {
            let (r, _, e) = m::decode_ex(&bytes, Dev::default());
            return Err(format!("bytes written by serialize for reader-produced ops, read by the DVI command table, are not those ops: end {:?}, {}", e, first_diff_loose(&r, &want, &loose)));
        }
    }
    Ok(st)
}

fn record_writer_stats(st: &WriterStats, case: &mut Case) {
    case.class_if(st.overlong, "writer: string > 255 bytes");
    case.class_if(st.overlong_cut_inside_char, "writer: byte 255 of an over-long string is inside a character");
    case.class_if(st.overlong_reread_as_lossy_prefix, "writer: over-long string comes back as its first 255 bytes (lossily decoded)");
    case.class_if(st.overlong_reread_otherwise, "writer: over-long string comes back as something else (undocumented, not an error)");
}

/// What the rewriting must preserve, judged by the independent tracker: `input` is the stream before,
/// `output` the stream after; ops marked `loose` have strings whose reading/truncation is not
/// determined (non-UTF-8 in the file, or longer than 255 bytes) and are compared without them.
/// `Ok(true)` when positions were compared, `Ok(false)` when the input leaves 32 bits (only the
/// arithmetic-free demands are made then).
fn transform_check(input: &[DOp], loose: &[bool], output: &[DOp], case: Option<&mut Case>) -> Result<bool, String> {
    if let Some(i) = output.iter().position(|o| matches!(o, DOp::Move(_) | DOp::SetVar(..))) {
        return Err(format!("output op {i} is {:?}: a w/x/y/z command survived", output[i]));
    }
    let t0 = m::track_aux(input);
    let t1 = m::track_aux(output);
    let in_range = t0.max_abs <= m::POS_LIMIT;
    if in_range && t0.events != t1.events {
        return Err(format!("typeset events (characters, rules, specials with page position and font) differ, original vs rewritten: {}\noutput: {}", first_diff(&t0.events, &t1.events), render(output)));
    }
    let mut keep_loose = vec![];
    let mut a = vec![];
    for (i, o) in input.iter().enumerate() {
        if !o.is_movement() {
            a.push(o.canon());
            keep_loose.push(loose.get(i).copied().unwrap_or(false));
        }
    }
    let b: Vec<DOp> = output.iter().filter(|o| !o.is_movement()).map(|o| o.canon()).collect();
    if !same_ops(&a, &b, &keep_loose) {
        return Err(format!("non-movement ops differ: {}", first_diff_loose(&a, &b, &keep_loose)));
    }
    if let Some(case) = case {
        case.class_if(!in_range, "position leaves 32 bits: positions not compared");
        if in_range {
            case.class_if(t0.aux == t1.aux, "every other command also met at an unchanged position (not demanded)");
            case.class_if(t0.aux != t1.aux, "some nop/fnt/push/… met at a changed position (not demanded)");
        }
    }
    Ok(in_range)
}

/// Total on arbitrary bytes; returns (nontrivial, used_known_flag).
fn bytes_check(ctx: &Ctx, bytes: &[u8], mut case: Option<&mut Case>) -> Result<(bool, bool), String> {
    let (got, end) = match panics::catch(|| impl_decode(bytes)) {
        Ok(Ok(r)) => r,
        Ok(Err(e)) => return Err(e),
        Err(p) => return Err(format!("deserialize panicked at {}: {} on bytes {:?}", p.site(), p.message, &bytes[..bytes.len().min(64)])),
    };
    if got.len() > bytes.len() {
        return Err("more ops than bytes".into());
    }
    let mut result = Ok(());
    let got_iter: Vec<dvi::Op> = match panics::catch(|| dvi::Deserializer::new(bytes, &mut result).take(bytes.len() + 1).collect()) {
        Ok(v) => v,
        Err(p) => return Err(format!("Deserializer panicked at {}: {}", p.site(), p.message)),
    };
    if got_iter != got || result != end {
        return Err(format!("dvi::Deserializer ({} ops, {:?}) disagrees with Op::deserialize ({} ops, {:?})", got_iter.len(), result, got.len(), end));
    }
    let got_end = end_of(&end);
    // The documented errors, and only where the format calls for them.
    match &got_end {
        End::BadOpcode(o) if *o < 250 => return Err(format!("InvalidOpCode({o}) for a defined opcode")),
        _ => {}
    }
    let got_d: Vec<DOp> = got.iter().map(from_dvi).collect();
    let multi = got_d.iter().any(|o| !matches!(o, DOp::Char { c: 0..=127, set: true } | DOp::Nop | DOp::Eop | DOp::Push | DOp::Pop | DOp::Move(_) | DOp::Fnt(0..=63)));
    let nontrivial = multi || matches!(got_end, End::Truncated(_));
    if let Some(case) = case.as_deref_mut() {
        case.class(match got_end {
            End::Done => "all_bytes_decoded",
            End::BadOpcode(_) => "err_invalid_opcode",
            End::Truncated(_) => "err_truncated",
        });
        case.class_if(got_d.len() >= 5, "ops>=5");
        case.class_if(got_d.iter().any(|o| matches!(o, DOp::FntDef { .. } | DOp::Pre { .. })), "has_string_op");
        case.class_if(got_d.iter().any(|o| matches!(o, DOp::FntDef{area, name, ..} if area.contains('\u{fffd}') || name.contains('\u{fffd}')) || matches!(o, DOp::Pre{comment, ..} if comment.contains('\u{fffd}'))), "has_U+FFFD_string");
        case.class_if(got_d.iter().any(|o| matches!(o, DOp::Xxx(_))), "has_xxx");
        case.class_if(got_d.iter().any(|o| matches!(o, DOp::PostPost { .. })), "has_post_post");
        case.class_if(got_d.iter().any(|o| matches!(o, DOp::Bop { .. })), "has_bop");
    }
    if !CHECK_AGAINST_DVI_STANDARD {
        return Ok((nontrivial, false));
    }
    // The command table. A string parameter that is not UTF-8 in the file has no determined reading
    // as a Rust `String` (the crate documents none): such ops are compared without their strings.
    let (ref_ops, ref_loose, ref_end) = m::decode_ex(bytes, Dev::default());
    let mut agrees = same_ops(&ref_ops, &got_d, &ref_loose) && ref_end == got_end;
    if !agrees {
        let (dev_ops, dev_loose, dev_end) = m::decode_ex(bytes, Dev { post_post_id_before_pointer: true });
        if same_ops(&dev_ops, &got_d, &dev_loose) && dev_end == got_end {
            if ACCEPT_CRATE_POST_POST_LAYOUT || ctx.known(FLAG_POST_POST) {
                agrees = true;
            } else {
                return Err(format!(
                    "post_post is read as `i[1] q[4]`; the DVI standard (TeX §590) says `q[4] i[1]`: bytes {:?}: {}",
                    &bytes[..bytes.len().min(48)],
                    first_diff(&got_d, &ref_ops)
                ));
            }
        }
    }
    if !agrees {
        return Err(format!(
            "deserialize disagrees with the DVI command table on bytes {:?}: end {:?} vs {:?}; {}",
            &bytes[..bytes.len().min(64)],
            got_end,
            ref_end,
            first_diff_loose(&got_d, &ref_ops, &ref_loose)
        ));
    }
    if let Some(case) = case.as_deref_mut() {
        let non_utf8 = ref_loose.iter().any(|b| *b);
        case.class_if(non_utf8, "string not UTF-8 in the file (its reading is not compared)");
        case.class_if(non_utf8 && ref_ops.iter().zip(&got_d).all(|(a, b)| strings_of(a) == strings_of(b)), "string not UTF-8 in the file, read as from_utf8_lossy");
        case.class_if(!non_utf8 && got_end == End::Done && !ref_ops.is_empty() && m::encode(&ref_ops, Dev::default()) != bytes, "input has an operand in a non-minimal width");
    }

    // -- the writer on what the reader produced (ops before the error, if any)
    let st = writer_check(&got_d, &got)?;
    if let Some(case) = case.as_deref_mut() {
        record_writer_stats(&st, case);
    }

    // -- the `dvitools normalize` pipeline on these very bytes: Deserializer -> VarRemover -> serialize.
    // Both sides are read by the command table in the standard layout (the crate's read and write of
    // post_post mirror each other, so the bytes of that command pass through unchanged).
    let r = panics::catch(|| {
        let mut result = Ok(());
        let mut i1 = dvi::Deserializer::new(bytes, &mut result);
        let i2 = dvi::transforms::VarRemover::new(&mut i1);
        let b = dvi::serialize(i2);
        (b, result)
    });
    let (out_bytes, result) = match r {
        Ok(x) => x,
        Err(p) => return Err(format!("normalize pipeline (bytes -> Deserializer -> VarRemover -> serialize) panicked at {}: {}; ops read: {}", p.site(), p.message, render(&got_d[..got_d.len().min(24)]))),
    };
    if result != end {
        return Err(format!("normalize pipeline: the side-channel result is {:?}, plain deserialising ends with {:?}", result, end));
    }
    let (out_ops, _, out_end) = m::decode_ex(&out_bytes, Dev::default());
    if out_end != End::Done {
        return Err(format!("normalize pipeline wrote a stream that does not decode: {:?} after {} ops", out_end, out_ops.len()));
    }
    // input as the command table reads it; post_post + fnt_num_52 folds when re-serialised
    let mut input: Vec<DOp> = vec![];
    let mut loose: Vec<bool> = vec![];
    for (op, l) in ref_ops.iter().zip(&ref_loose) {
        if let (Some(DOp::PostPost { n223, .. }), DOp::Fnt(52)) = (input.last_mut(), op) {
            *n223 += 1;
            continue;
        }
        input.push(op.clone());
        loose.push(*l || max_str_len(op) > 255);
    }
    let compared = transform_check(&input, &loose, &out_ops, case.as_deref_mut()).map_err(|e| format!("normalize pipeline on bytes {:?}: {e}", &bytes[..bytes.len().min(64)]))?;
    if let Some(case) = case.as_deref_mut() {
        let vars = input.iter().any(|o| matches!(o, DOp::Move(_) | DOp::SetVar(..)));
        case.class_if(vars && compared, "pipeline: w/x/y/z commands rewritten, positions compared");
        case.class_if(vars && got_end != End::Done, "pipeline: w/x/y/z commands before a decoding error");
        case.class_if(out_bytes == bytes, "pipeline: output bytes identical to input");
    }
    Ok((nontrivial, false))
}

fn bytes_oracle(ctx: &Ctx, c: &BCase, case: &mut Case) -> Verdict {
    let bytes = bcase_bytes(c);
    case.class(match c {
        BCase::Raw(_) => "raw",
        BCase::Stream(_) => "command_stream_any_width_raw_strings",
        BCase::Mutated { muts, .. } if muts.is_empty() => "valid_stream_unmutated",
        BCase::Mutated { .. } => "mutated_stream",
    });
    if bytes.len() <= 40 {
        case.note = Some(format!("{:?}", bytes));
    }
    match bytes_check(ctx, &bytes, Some(case)) {
        Ok((_, true)) => Verdict::Known(FLAG_POST_POST.into()),
        Ok((nt, false)) => Verdict::pass(nt),
        Err(e) => Verdict::Fail(e),
    }
}

/// Index -> byte string: all strings of length 0, 1, 2, (3).
fn short_bytes(i: i64) -> Vec<u8> {
    let mut i = i as u64;
    let mut len = 0u32;
    let mut block = 1u64;
    while i >= block {
        i -= block;
        block *= 256;
        len += 1;
    }
    let mut v = vec![0u8; len as usize];
    for k in (0..len as usize).rev() {
        v[k] = (i % 256) as u8;
        i /= 256;
    }
    v
}

// ---------------------------------------------------------------------------------
// (iii) VarRemover and Values against the DVItype-style tracker

fn neg(d: i32) -> i32 {
    if d == i32::MIN {
        i32::MAX
    } else {
        -d
    }
}

/// Keep every |h|, |v| inside 32 bits by construction: an op that would leave the range
/// gets its displacement negated (h and the displacement have the same sign when the sum
/// overflows, so the difference is in range).
fn repair(ops: Vec<DOp>) -> Vec<DOp> {
    let mut t = m::Tracker::default();
    let mut out = Vec::with_capacity(ops.len());
    for op in ops {
        let (dh, dv) = t.motion(&op);
        let bad = (t.cur.h + dh).abs() > m::POS_LIMIT || (t.cur.v + dv).abs() > m::POS_LIMIT;
        let op = if !bad {
            op
        } else {
            match op {
                DOp::Right(d) => DOp::Right(neg(d)),
                DOp::Down(d) => DOp::Down(neg(d)),
                DOp::SetVar(v, d) => DOp::SetVar(v, neg(d)),
                DOp::Rule { height, width, set } => DOp::Rule { height, width: neg(width), set },
                DOp::Move(v) => DOp::SetVar(v, neg(t.cur.vars[v.idx()] as i32)),
                o => o,
            }
        };
        t.step(&op);
        // events are not needed here
        t.events.clear();
        out.push(op);
    }
    out
}

/// Displacements for the transform check; `k` is a per-case magnitude class.
fn dist(k: u8) -> BoxedStrategy<i32> {
    match k {
        0 => (-12i32..=12).boxed(),
        1 => prop_oneof![3 => -12i32..=12, 2 => proptest::sample::select(vec![127, 128, 129, -127, -128, -129, -130, 255, 256, 32767, 32768, 32769, -32767, -32768, -32769]), 1 => -40_000i32..40_000].boxed(),
        2 => prop_oneof![3 => -12i32..=12, 2 => proptest::sample::select(vec![128, -129, 32768, -32769, 8388607, 8388608, 8388609, -8388607, -8388608, -8388609, 65536]), 1 => -9_000_000i32..9_000_000].boxed(),
        _ => prop_oneof![3 => -12i32..=12, 3 => proptest::sample::select(signed_boundaries()), 1 => any::<i32>()].boxed(),
    }
}

fn page_char() -> BoxedStrategy<u32> {
    prop_oneof![6 => 65u32..70, 1 => uval()].boxed()
}

fn bop() -> DOp {
    DOp::Bop { c: [1, 0, 0, 0, 0, 0, 0, 0, 0, 0], p: -1 }
}

fn page_op(k: u8) -> BoxedStrategy<DOp> {
    let dist = move || dist(k);
    prop_oneof![
        12 => page_char().prop_map(|c| DOp::Char { c, set: true }),
        4 => page_char().prop_map(|c| DOp::Char { c, set: false }),
        4 => (dist(), dist()).prop_map(|(height, width)| DOp::Rule { height, width, set: true }),
        2 => (sval(), sval()).prop_map(|(height, width)| DOp::Rule { height, width, set: false }),
        10 => Just(DOp::Push),
        9 => Just(DOp::Pop),
        5 => dist().prop_map(DOp::Right),
        5 => dist().prop_map(DOp::Down),
        14 => (var(), dist()).prop_map(|(v, d)| DOp::SetVar(v, d)),
        16 => var().prop_map(DOp::Move),
        4 => prop_oneof![4 => 0u32..4, 1 => uval()].prop_map(DOp::Fnt),
        3 => Just(bop()),
        1 => (proptest::collection::vec(sval(), 11)).prop_map(|v| {
            let mut c = [0i32; 10];
            c.copy_from_slice(&v[..10]);
            DOp::Bop { c, p: v[10] }
        }),
        2 => Just(DOp::Eop),
        1 => Just(DOp::Nop),
        3 => blob().prop_map(DOp::Xxx),
        1 => (0u32..4, ustr()).prop_map(|(k, name)| DOp::FntDef { k, c: 0, s: 655360, d: 655360, area: String::new(), name }),
        1 => prop_oneof![
            Just(DOp::Pre { i: 2, num: 25400000, den: 473628672, mag: 1000, comment: "c".into() }),
            Just(DOp::Post { p: 0, num: 25400000, den: 473628672, mag: 1000, l: 1, u: 1, s: 1, t: 1 }),
            Just(DOp::PostPost { q: 0, i: 2, n223: 4 }),
        ],
    ]
    .boxed()
}

/// Hand-shaped fragments that make the stated non-trivial shapes frequent.
fn fragment(k: u8) -> BoxedStrategy<Vec<DOp>> {
    let dist = move || dist(k);
    let mid = proptest::collection::vec(page_op(k), 0..4);
    prop_oneof![
        // set, push, change, pop, reuse
        4 => (var(), dist(), dist(), mid.clone(), mid.clone(), page_char()).prop_map(|(v, a, b, m1, m2, c)| {
            let mut o = vec![DOp::SetVar(v, a), DOp::Push, DOp::SetVar(v, b)];
            o.extend(m1);
            o.push(DOp::Pop);
            o.extend(m2);
            o.push(DOp::Move(v));
            o.push(DOp::Char { c, set: true });
            o
        }),
        // set, page boundary, use
        4 => (var(), dist(), any::<bool>(), mid.clone(), page_char()).prop_map(|(v, a, eop, m1, c)| {
            let mut o = vec![DOp::SetVar(v, a)];
            if eop {
                o.push(DOp::Eop);
            }
            o.push(bop());
            o.extend(m1);
            o.push(DOp::Move(v));
            o.push(DOp::Char { c, set: false });
            o
        }),
        // push left open over a page boundary, then pop and use
        4 => (var(), dist(), dist(), page_char()).prop_map(|(v, a, b, c)| vec![DOp::SetVar(v, a), DOp::Push, DOp::SetVar(v, b), bop(), DOp::Pop, DOp::Move(v), DOp::Char { c, set: true }]),
        // font selected inside push, character after pop
        4 => (0u32..4, 0u32..4, page_char()).prop_map(|(f, g, c)| vec![DOp::Fnt(f), DOp::Push, DOp::Fnt(g), DOp::Char { c, set: true }, DOp::Pop, DOp::Char { c, set: true }]),
        // specials whose position is given by variable motions only: x(a) xxx x0 xxx [char]
        3 => (var(), dist(), blob(), blob(), proptest::option::of(page_char())).prop_map(|(v, a, b1, b2, c)| {
            let mut o = vec![DOp::SetVar(v, a), DOp::Xxx(b1), DOp::Move(v), DOp::Xxx(b2)];
            if let Some(c) = c {
                o.push(DOp::Char { c, set: true });
            }
            o
        }),
        // deep nesting: every level sets a variable to its own value, typesets at the bottom, and
        // on the way out each level reuses the value it had saved
        1 => (proptest::sample::select(vec![3usize, 15, 16, 17, 33, 64, 100]), var(), -12i32..=12, page_char(), any::<bool>()).prop_map(|(depth, v, a, c, unbalanced)| {
            let mut o = vec![];
            for k in 0..depth {
                o.push(DOp::SetVar(v, a.wrapping_add(k as i32)));
                o.push(DOp::Push);
            }
            o.push(DOp::Char { c, set: true });
            let pops = if unbalanced { depth / 2 } else { depth };
            for _ in 0..pops {
                o.push(DOp::Pop);
                o.push(DOp::Move(v));
                o.push(DOp::Char { c, set: false });
            }
            o
        }),
    ]
    .boxed()
}

fn page_ops() -> BoxedStrategy<Vec<DOp>> {
    prop_oneof![3 => Just(0u8), 3 => Just(1u8), 3 => Just(2u8), 2 => Just(3u8)]
        .prop_flat_map(|k| {
            let piece = prop_oneof![9 => page_op(k).prop_map(|o| vec![o]), 1 => fragment(k)];
            prop_oneof![5 => proptest::collection::vec(piece.clone(), 0..40), 1 => proptest::collection::vec(piece, 0..=200)]
        })
        .prop_map(|ps| {
            let mut v: Vec<DOp> = ps.into_iter().flatten().collect();
            v.truncate(400);
            repair(v)
        })
        .boxed()
}

/// Page content whose positions may leave 32 bits: no repair, large displacements frequent, and
/// directed pairs (a movement to within a few units of +-2^31, then one more step the same way).
fn overflow_ops() -> BoxedStrategy<Vec<DOp>> {
    let big = || prop_oneof![3 => proptest::sample::select(vec![i32::MAX, i32::MAX - 1, i32::MIN, i32::MIN + 1, 1 << 30, -(1 << 30), (1 << 30) + 1]), 1 => any::<i32>(), 1 => (-3i32..=3).prop_map(|d| if d >= 0 { i32::MAX - d } else { i32::MIN - d })];
    let mover = move |first: bool| {
        let d = if first { big().boxed() } else { prop_oneof![2 => big(), 3 => -3i32..=3].boxed() };
        prop_oneof![
            2 => d.clone().prop_map(DOp::Right),
            2 => d.clone().prop_map(DOp::Down),
            4 => (var(), d.clone()).prop_map(|(v, d)| DOp::SetVar(v, d)),
            1 => d.prop_map(|width| DOp::Rule { height: 1, width, set: true }),
        ]
    };
    let pair = (mover(true), proptest::collection::vec(page_op(0), 0..3), prop_oneof![3 => mover(false).boxed(), 2 => var().prop_map(DOp::Move).boxed()], page_char()).prop_map(|(a, mid, b, c)| {
        let mut o = vec![a];
        o.extend(mid);
        o.push(b);
        o.push(DOp::Char { c, set: true });
        o
    });
    let piece = prop_oneof![6 => page_op(3).prop_map(|o| vec![o]), 1 => fragment(3), 3 => pair];
    proptest::collection::vec(piece, 1..16).prop_map(|ps| ps.into_iter().flatten().collect()).boxed()
}

fn fonts_agree(api: &[(u32, u32)], model: &[m::Adv]) -> bool {
    api.len() == model.len() && api.iter().zip(model).all(|(a, b)| a.0 == b.0 && b.1.map_or(true, |f| f == a.1))
}

/// `overflow_zone`: the sub-check whose generator lets positions leave 32 bits. There the positions are
/// not compared (DVItype §91–92 reports "arithmetic overflow" and changes the parameter: such a stream
/// is not a DVI and its positions are not determined), everything that involves no position arithmetic is.
fn remover_oracle(ops: &Vec<DOp>, overflow_zone: bool, case: &mut Case) -> Verdict {
    case.note = Some(render(ops));
    // -- the tracker on the original
    let t0 = m::track(ops);
    let overflows = t0.max_abs > m::POS_LIMIT;
    if overflows && !overflow_zone {
        return Verdict::Skip("position leaves 32 bits");
    }
    let sh = &t0.shapes;
    case.class_if(sh.push_change_pop_reuse, "set/push/change/pop/reuse then typeset");
    case.class_if(sh.use_across_bop, "set/bop/use then typeset");
    case.class_if(sh.hit_a && !sh.push_change_pop_reuse, "push-pop reuse not observed by a typeset op");
    case.class_if(sh.hit_b && !sh.use_across_bop, "bop reuse not observed by a typeset op");
    case.class_if(sh.pop_at_level_zero, "pop at level zero");
    case.class_if(sh.pop_after_bop_emptied_stack, "bop with open push, then pop");
    case.class_if(sh.font_change_inside_push_seen_after_pop, "font changed inside push, pop");
    case.class_if(sh.max_depth >= 3, "depth>=3");
    case.class_if(sh.max_depth >= 16, "depth>=16");
    case.class_if(sh.max_depth >= 64, "depth>=64");
    case.class_if(sh.pages >= 2, "pages>=2");
    case.class_if(sh.specials > 0, "has xxx");
    case.class_if(sh.special_away_from_origin, "xxx away from the page origin");
    case.class_if(sh.special_after_var_motion, "xxx directly after a w/x/y/z motion");
    case.class_if(t0.max_abs > 1 << 24, "|pos|>2^24");
    case.class_if(t0.max_abs > 1 << 30, "|pos|>2^30");
    case.class_if(ops.len() >= 100, "len>=100");
    let has_var = sh.var_sets + sh.var_moves > 0;
    case.class_if(overflows && has_var, "position overflows 32 bits, w/x/y/z commands present");
    case.class_if(overflows && !has_var, "position overflows 32 bits, no w/x/y/z command");
    let nontrivial = if overflow_zone { overflows && has_var } else { sh.push_change_pop_reuse || sh.use_across_bop };

    let api: Vec<dvi::Op> = ops.iter().map(to_dvi).collect();

    // -- the transform
    let out: Vec<dvi::Op> = match panics::catch(|| dvi::transforms::VarRemover::new(api.clone()).collect()) {
        Ok(v) => v,
        Err(p) => return Verdict::Fail(format!("VarRemover panicked at {}: {}", p.site(), p.message)),
    };
    let out_d: Vec<DOp> = out.iter().map(from_dvi).collect();
    if let Err(e) = transform_check(ops, &[], &out_d, Some(case)) {
        return Verdict::Fail(e);
    }

    // -- the same through the byte pipeline used by `dvitools normalize`
    let (_, ambiguous) = m::fold_223(ops);
    if !ambiguous {
        let bytes = m::encode(ops, Dev::default());
        let r = panics::catch(|| {
            let mut result = Ok(());
            let mut i1 = dvi::Deserializer::new(&bytes, &mut result);
            let i2 = dvi::transforms::VarRemover::new(&mut i1);
            let b = dvi::serialize(i2);
            (b, result)
        });
        match r {
            Err(p) => return Verdict::Fail(format!("normalize pipeline panicked at {}: {}", p.site(), p.message)),
            Ok((_, Err(e))) => return Verdict::Fail(format!("normalize pipeline: deserializer error {:?} on a valid stream", e)),
            Ok((b, Ok(()))) => {
                let (ops2, end) = m::decode(&b, Dev::default());
                let want: Vec<DOp> = out_d.iter().map(|o| o.canon()).collect();
                if end != End::Done || ops2 != want {
                    return Verdict::Fail(format!("normalize pipeline (bytes -> Deserializer -> VarRemover -> serialize) differs from VarRemover on ops: end {:?}, {}", end, first_diff(&ops2, &want)));
                }
                case.class("byte_pipeline_checked");
            }
        }
    }
    // -- Values::update, step by step
    if !CHECK_VALUES {
        return Verdict::pass(nontrivial);
    }
    let r = panics::catch(|| {
        let mut values: dvi::Values = Default::default();
        let mut t = m::Tracker::default();
        for (i, (op, aop)) in ops.iter().zip(&api).enumerate() {
            values.update(aop);
            t.step(op);
            t.events.clear();
            let (h, hc) = values.h();
            let mut got = [h as i64, values.v() as i64, values.w() as i64, values.x() as i64, values.y() as i64, values.z() as i64];
            let want = [t.cur.h, t.cur.v, t.cur.vars[0], t.cur.vars[1], t.cur.vars[2], t.cur.vars[3]];
            if t.max_abs > m::POS_LIMIT {
                // (overflow zone only) once a position has left 32 bits, h and v are no longer determined;
                // w, x, y, z, the advances and the font still are
                got[0] = want[0];
                got[1] = want[1];
            }
            if got != want {
                return Err(format!("after op {i} ({:?}): dvi::Values (h,v,w,x,y,z) = {:?}, DVItype model {:?}", op, got, want));
            }
            if !fonts_agree(hc, &t.cur.hw) {
                return Err(format!("after op {i} ({:?}): dvi::Values h advances {:?}, model {:?}", op, hc, t.cur.hw));
            }
            if let Some(f) = t.font {
                if values.f() != f {
                    return Err(format!("after op {i} ({:?}): dvi::Values f = {}, model {}", op, values.f(), f));
                }
            }
        }
        Ok(())
    });
    match r {
        Ok(Ok(())) => {}
        Ok(Err(e)) => return Verdict::Fail(e),
        Err(p) => return Verdict::Fail(format!("Values::update panicked at {}: {}", p.site(), p.message)),
    }
    Verdict::pass(nontrivial)
}

// ---------------------------------------------------------------------------------
// Calibration of the reference model on the repository's unit-test goldens
// (crates/dvi/src/lib.rs `serde_tests!`, `values_tests!`, and the VarRemover doc examples).

#[derive(Clone, Debug, Serialize, Deserialize)]
pub enum Golden {
    Codec { bytes: Vec<u8>, op: DOp },
    Values { ops: Vec<DOp>, f: u32, h: i64, chars: Vec<(u32, u32)>, v: i64, vars: [i64; 4] },
    Remover { ops: Vec<DOp>, want: Vec<DOp> },
    /// An encoding the crate's documentation spells out (doc examples of `Op::serialize`, `dvi::serialize`,
    /// `Deserializer`, and the byte counts in the documentation of `Var`): asserted of the crate's writer.
    Documented { ops: Vec<DOp>, bytes: Option<Vec<u8>>, len: usize },
}

fn goldens() -> Vec<Golden> {
    use DOp::*;
    let c = |bytes: &[u8], op: DOp| Golden::Codec { bytes: bytes.to_vec(), op };
    let fd = |k: u32, a: &str, n: &str| FntDef { k, c: 2, s: 3, d: 4, area: a.into(), name: n.into() };
    let p = |k: u32| 2i32.pow(k);
    let mut g = vec![
        c(&[0], Char { c: 0, set: true }),
        c(&[127], Char { c: 127, set: true }),
        c(&[128, 128], Char { c: 128, set: true }),
        c(&[132, 0, 0, 0, 1, 0, 0, 0, 2], Rule { height: 1, width: 2, set: true }),
        c(&[133, 1], Char { c: 1, set: false }),
        c(&[134, 255, 255], Char { c: 65535, set: false }),
        c(&[135, 255, 255, 255], Char { c: (1 << 24) - 1, set: false }),
        c(&[136, 255, 255, 255, 255], Char { c: u32::MAX, set: false }),
        c(&[137, 0, 0, 0, 1, 0, 0, 0, 2], Rule { height: 1, width: 2, set: false }),
        c(&[138], Nop),
        c(
            &[139, 0, 0, 0, 1, 0, 0, 0, 2, 0, 0, 0, 3, 0, 0, 0, 4, 0, 0, 0, 5, 0, 0, 0, 6, 0, 0, 0, 7, 0, 0, 0, 8, 0, 0, 0, 9, 255, 255, 255, 255, 0, 0, 0, 1],
            Bop { c: [1, 2, 3, 4, 5, 6, 7, 8, 9, -1], p: 1 },
        ),
        c(&[140], Eop),
        c(&[141], Push),
        c(&[142], Pop),
        c(&[143, 2], Right(2)),
        c(&[144, 1, 2], Right(258)),
        c(&[145, 1, 0, 2], Right(65538)),
        c(&[146, 1, 0, 0, 2], Right(16777218)),
        c(&[147], Move(V::W)),
        c(&[148, 2], SetVar(V::W, 2)),
        c(&[149, 1, 2], SetVar(V::W, 258)),
        c(&[150, 1, 0, 2], SetVar(V::W, 65538)),
        c(&[151, 1, 0, 0, 2], SetVar(V::W, 16777218)),
        c(&[152], Move(V::X)),
        c(&[154, 1, 2], SetVar(V::X, 258)),
        c(&[157, 0], Down(0)),
        c(&[157, 1], Down(1)),
        c(&[157, 255], Down(-1)),
        c(&[157, 127], Down(127)),
        c(&[157, 128], Down(-128)),
        c(&[158, 0, 128], Down(p(7))),
        c(&[158, 255, 127], Down(-p(7) - 1)),
        c(&[158, 127, 255], Down(p(15) - 1)),
        c(&[158, 128, 0], Down(-p(15))),
        c(&[159, 0, 128, 0], Down(p(15))),
        c(&[159, 255, 127, 255], Down(-p(15) - 1)),
        c(&[159, 127, 255, 255], Down(p(23) - 1)),
        c(&[159, 128, 0, 0], Down(-p(23))),
        c(&[160, 0, 128, 0, 0], Down(p(23))),
        c(&[160, 255, 127, 255, 255], Down(-p(23) - 1)),
        c(&[160, 127, 255, 255, 255], Down(i32::MAX)),
        c(&[160, 128, 0, 0, 0], Down(i32::MIN)),
        c(&[161], Move(V::Y)),
        c(&[163, 1, 2], SetVar(V::Y, 258)),
        c(&[166], Move(V::Z)),
        c(&[170, 1, 0, 0, 2], SetVar(V::Z, 16777218)),
        c(&[171], Fnt(0)),
        c(&[234], Fnt(63)),
        c(&[235, 64], Fnt(64)),
        c(&[236, 1, 0], Fnt(256)),
        c(&[237, 1, 0, 0], Fnt(65536)),
        c(&[238, 1, 0, 0, 0], Fnt(1 << 24)),
        c(&[239, 5, 0, 1, 2, 3, 4], Xxx(Blob::Lit(vec![0, 1, 2, 3, 4]))),
        c(&[243, 1, 0, 0, 0, 2, 0, 0, 0, 3, 0, 0, 0, 4, 0, 5, 99, 109, 114, 49, 48], fd(1, "", "cmr10")),
        c(&[244, 1, 1, 0, 0, 0, 2, 0, 0, 0, 3, 0, 0, 0, 4, 5, 0, 99, 109, 114, 49, 48], fd(257, "cmr10", "")),
        c(&[245, 1, 1, 1, 0, 0, 0, 2, 0, 0, 0, 3, 0, 0, 0, 4, 2, 3, 99, 109, 114, 49, 48], fd(65793, "cm", "r10")),
        c(&[246, 1, 0, 0, 0, 0, 0, 0, 2, 0, 0, 0, 3, 0, 0, 0, 4, 0, 0], fd(1 << 24, "", "")),
        c(&[247, 2, 0, 0, 0, 3, 0, 0, 0, 5, 1, 2, 3, 4, 3, 65, 66, 67], Pre { i: 2, num: 3, den: 5, mag: 0x01020304, comment: "ABC".into() }),
        c(
            &[248, 0, 0, 0, 1, 0, 0, 0, 2, 0, 0, 0, 3, 0, 0, 0, 4, 0, 0, 0, 5, 0, 0, 0, 6, 0, 7, 0, 8],
            Post { p: 1, num: 2, den: 3, mag: 4, l: 5, u: 6, s: 7, t: 8 },
        ),
        // NOT the repository's op_code_249 golden (that one pins the id byte before the pointer, see
        // FLAG_POST_POST); this is the tail TeX §642 writes: post_post, pointer, id_byte=2, 223s.
        c(&[249, 0, 0, 0, 100, 2, 223, 223, 223, 223], PostPost { q: 100, i: 2, n223: 4 }),
    ];
    let vg = |ops: Vec<DOp>, f: u32, h: i64, chars: Vec<(u32, u32)>, v: i64, vars: [i64; 4]| Golden::Values { ops, f, h, chars, v, vars };
    g.extend(vec![
        vg(vec![Fnt(3), Fnt(3)], 3, 0, vec![], 0, [0; 4]),
        vg(vec![Fnt(3), Push, Fnt(5), Pop], 5, 0, vec![], 0, [0; 4]),
        vg(vec![SetVar(V::W, 5), SetVar(V::W, 5)], 0, 10, vec![], 0, [5, 0, 0, 0]),
        vg(vec![SetVar(V::W, 5), Push, SetVar(V::W, 3), Pop], 0, 5, vec![], 0, [5, 0, 0, 0]),
        vg(vec![SetVar(V::W, 5), SetVar(V::W, 0), SetVar(V::W, 0)], 0, 5, vec![], 0, [0; 4]),
        vg(vec![SetVar(V::W, 5), Move(V::W)], 0, 10, vec![], 0, [5, 0, 0, 0]),
        vg(vec![SetVar(V::X, 5), SetVar(V::X, 5), Move(V::X)], 0, 15, vec![], 0, [0, 5, 0, 0]),
        vg(vec![SetVar(V::Y, 5), SetVar(V::Y, 5), Move(V::Y)], 0, 0, vec![], 15, [0, 0, 5, 0]),
        vg(vec![SetVar(V::Z, 5), SetVar(V::Z, 5), Move(V::Z)], 0, 0, vec![], 15, [0, 0, 0, 5]),
        vg(vec![Right(5)], 0, 5, vec![], 0, [0; 4]),
        vg(vec![Down(5)], 0, 0, vec![], 5, [0; 4]),
        vg(vec![Rule { height: 2, width: 3, set: true }], 0, 3, vec![], 0, [0; 4]),
        vg(vec![Rule { height: 2, width: 3, set: false }], 0, 0, vec![], 0, [0; 4]),
        vg(vec![SetVar(V::W, 1), SetVar(V::X, 2), SetVar(V::Y, 3), SetVar(V::Z, 4), Bop { c: [0; 10], p: 1 }], 0, 0, vec![], 0, [0; 4]),
        vg(vec![Eop], 0, 0, vec![], 0, [0; 4]),
        vg(vec![Char { c: 1, set: true }], 0, 0, vec![(1, 0)], 0, [0; 4]),
        vg(vec![Char { c: 1, set: false }], 0, 0, vec![], 0, [0; 4]),
        vg(vec![Push, Char { c: 1, set: true }, Pop], 0, 0, vec![], 0, [0; 4]),
        // doc test of Values::h
        vg(vec![Right(1), Fnt(2), Char { c: 68, set: true }, Char { c: 86, set: true }, Char { c: 73, set: true }], 2, 1, vec![(68, 2), (86, 2), (73, 2)], 0, [0; 4]),
        // doc test of Values
        vg(vec![SetVar(V::Y, 3), Push, SetVar(V::Y, 5), Pop], 0, 0, vec![], 3, [0, 0, 3, 0]),
    ]);
    g.push(Golden::Remover {
        ops: vec![SetVar(V::X, 3), Push, SetVar(V::X, 5), Move(V::X), Pop, Move(V::X)],
        want: vec![Right(3), Push, Right(5), Right(5), Pop, Right(3)],
    });
    g.push(Golden::Remover { ops: vec![SetVar(V::X, 3), Move(V::X), Char { c: 68, set: false }], want: vec![Right(3), Right(3), Char { c: 68, set: false }] });
    // lib.rs, `Op::serialize`: Right(256) -> [144, 1, 0]
    g.push(Golden::Documented { ops: vec![Right(256)], bytes: Some(vec![144, 1, 0]), len: 3 });
    // lib.rs, `dvi::serialize` / `Deserializer`
    g.push(Golden::Documented { ops: vec![Down(256), Char { c: 68, set: true }, Char { c: 86, set: true }, Char { c: 73, set: true }], bytes: Some(vec![158, 1, 0, 68, 86, 73]), len: 6 });
    // lib.rs, `Var`: "The first sequence serializes to 9 bytes, while the second serializes to 5 bytes."
    g.push(Golden::Documented { ops: vec![Down(300), Down(300), Down(300)], bytes: None, len: 9 });
    g.push(Golden::Documented { ops: vec![SetVar(V::Y, 300), Move(V::Y), Move(V::Y)], bytes: None, len: 5 });
    g
}

fn golden_oracle(g: &Golden, _case: &mut Case) -> Verdict {
    match g {
        Golden::Codec { bytes, op } => {
            let enc = m::encode(std::slice::from_ref(op), Dev::default());
            if &enc != bytes {
                return Verdict::Fail(format!("model encoder: {:?} -> {:?}, golden {:?}", op, enc, bytes));
            }
            let (ops, end) = m::decode(bytes, Dev::default());
            if end != End::Done || ops != vec![op.clone()] {
                return Verdict::Fail(format!("model decoder: {:?} -> {:?} {:?}, golden {:?}", bytes, ops, end, op));
            }
            Verdict::pass(true)
        }
        Golden::Values { ops, f, h, chars, v, vars } => {
            let t = m::track(ops);
            let ok = t.cur.h == *h && t.cur.v == *v && t.cur.vars == *vars && fonts_agree(chars, &t.cur.hw) && t.font.map_or(true, |x| x == *f);
            if !ok {
                return Verdict::Fail(format!("model tracker on {}: h={} hw={:?} v={} vars={:?} font={:?}; golden h={} chars={:?} v={} vars={:?} f={}", render(ops), t.cur.h, t.cur.hw, t.cur.v, t.cur.vars, t.font, h, chars, v, vars, f));
            }
            Verdict::pass(true)
        }
        Golden::Documented { ops, bytes, len } => {
            let enc = m::encode(ops, Dev::default());
            if enc.len() != *len || bytes.as_ref().map_or(false, |b| *b != enc) {
                return Verdict::Fail(format!("model encoder: {} -> {:?}, documented {:?} ({} bytes)", render(ops), enc, bytes, len));
            }
            let got = dvi::serialize(ops.iter().map(to_dvi).collect::<Vec<_>>());
            if got.len() != *len || bytes.as_ref().map_or(false, |b| *b != got) {
                return Verdict::Fail(format!("dvi::serialize: {} -> {:?}; the crate's documentation says {:?} ({} bytes)", render(ops), got, bytes, len));
            }
            Verdict::pass(true)
        }
        Golden::Remover { ops, want } => {
            // the documented output must satisfy the model's notion of equivalence
            let (a, b) = (m::track(ops), m::track(want));
            if a.events != b.events || a.cur.h != b.cur.h || a.cur.v != b.cur.v {
                return Verdict::Fail(format!("model tracker does not consider the documented VarRemover example equivalent: {}", render(ops)));
            }
            Verdict::pass(true)
        }
    }
}

// ---------------------------------------------------------------------------------

pub fn run(ctx: &Ctx) {
    run_fuzz_raw(ctx, fuzz_entry);
    ctx.rule("roundtrip: proptest sequences of 0..200 ops over every Op variant with operands on and around every encoding boundary (0, +-2^7, +-2^15, +-2^23 each +-1, i32/u32 limits, fnt_num/set_char fast-path limits), strings = arbitrary Unicode of exactly 0..255 UTF-8 bytes, xxx payloads up to 2^24+1 bytes; non-trivial = some operand needs >= 2 bytes or a string/payload is present; plus a deterministic per-op sweep of +-W around every boundary. writer_overlong_strings: strings of 256..65537 bytes with 1-4 byte characters at every alignment to byte 255; non-trivial = always. bytes_total: random bytes, opcode-biased bytes, truncations/byte edits of valid streams and command streams spelled at every (also non-minimal) operand width with raw non-UTF-8 strings, plus every byte string of length <= 2 (3 in thorough); every decoded prefix is also re-serialised and sent through the normalize pipeline; non-trivial = a multi-byte command was decoded or the data ended inside a command. reader_forms: every command with an operand at every width 1..4 with the limits of that and every smaller width; reader_prefixes: every proper prefix of every command of the boundary sweep. var_remover: page-content sequences (<= 400 ops; push/pop balanced or not, nesting to depth 100, several pages) compared through an independent DVItype-style tracker; non-trivial = a variable is set, pushed over, changed, popped and reused by w0/x0/y0/z0, or is non-zero at a bop and reused on the new page, and a character or rule is typeset while that motion is in effect; var_remover_overflow: the same without keeping positions inside 32 bits, non-trivial = a position leaves 32 bits in a stream that uses w/x/y/z; distinct = by op sequence / byte string");
    ctx.assume("round trip: strings (font area/name, preamble comment) are valid Unicode of at most 255 UTF-8 bytes (the quantifier's domain). Longer strings, which the crate's own reader produces from non-UTF-8 bytes, are not expressible in DVI and the crate documents nothing about them: for those only robustness is demanded (no panic, the written stream decodes to the end into the same number of ops, every other op and every other parameter intact); what the string becomes is counted, not judged");
    ctx.assume("a string parameter that is not valid UTF-8 in the file has no determined reading as a Rust String (the crate documents none): such an op is compared with the command table without the contents of its strings (counted; the crate's from_utf8_lossy reading is counted separately)");
    ctx.assume("post_post directly followed by fnt_num_52 (byte 223) cannot be expressed in the DVI format itself (the trailing 223 bytes of post_post absorb it); for such sequences the expected reading is the folded one (count of 223s increased), counted in class post_post_then_fnt_num_52");
    ctx.assume("num_223_bytes <= 400 and xxx payloads <= 2^24+1 bytes (memory), EndPostamble.num_223_bytes fits u32");
    ctx.assume("var_remover: page positions are compared only for streams whose |h|,|v| (integer parts) stay within 32 bits (DVItype 91-92 reports arithmetic overflow and alters the parameter: a stream whose positions overflow is not a DVI and its positions are not determined). In var_remover this holds by construction; var_remover_overflow and the byte pipeline also run streams that leave 32 bits and demand there what needs no position arithmetic: no panic, no w/x/y/z command in the output, every other operation unchanged, w/x/y/z/f of dvi::Values equal to the model. Character advance widths are symbolic (char, font) as in dvi::Values::h");
    ctx.assume("the current font is undefined after bop (TeX §585); an undefined font in the model matches any font value reported by dvi::Values");
    ctx.assume("xxx commands do not move the position; their own page position (where DVI drivers act on a special) is compared like that of characters and rules. The position at which any other non-movement command (nop, fnt, fnt_def, push, pop, bop, eop, pre, post, post_post) is met has no meaning in DVI: it is counted, not judged; those commands must be unchanged in content and order");
    ctx.assume("minimal-width encodings are not demanded (the statement does not, the crate documents them only through examples, which model_goldens asserts); deviations are counted in roundtrip.non_minimal_width_encodings");
    let tier = ctx.tier;
    NON_MINIMAL.store(0, std::sync::atomic::Ordering::Relaxed);

    run_list(ctx, "model_goldens", goldens(), golden_oracle);

    // (i)
    let n = tier.pick(80_000u64, 2_000_000u64);
    run_generated(ctx, "roundtrip", n, any_ops, |ops: &Vec<DOp>, case| roundtrip_oracle(ctx, ops, case));
    let sweep = sweep_cases(tier.pick(130, 5000), true);
    let total = sweep.len() as u64;
    run_indexed(
        ctx,
        "roundtrip_sweep",
        2 * total,
        false,
        |i| {
            let op = sweep[(i % total) as usize].clone();
            if i < total {
                vec![op]
            } else {
                // framed: the bytes before and after must not be touched
                vec![DOp::Fnt(52), op, DOp::Char { c: 223, set: true }, DOp::Pop]
            }
        },
        |ops: &Vec<DOp>, case| roundtrip_oracle(ctx, ops, case),
    );
    ctx.extra("roundtrip_sweep", "window_around_each_boundary", serde_json::json!(tier.pick(130, 5000)));
    if ctx.is_generate() {
        ctx.extra("roundtrip", "non_minimal_width_encodings", serde_json::json!(NON_MINIMAL.load(std::sync::atomic::Ordering::Relaxed)));
    }
    run_list(ctx, "writer_overlong_strings", overlong_cases(), overlong_oracle);

    // (ii)
    let n = tier.pick(300_000u64, 8_000_000u64);
    run_generated(ctx, "bytes_total", n, bcase_strategy, |c: &BCase, case| bytes_oracle(ctx, c, case));
    let hi: i64 = tier.pick(1 + 256 + 65536, 1 + 256 + 65536 + 16_777_216) - 1;
    run_range(ctx, "bytes_short_exhaustive", 0, hi, true, |i| {
        let b = short_bytes(i);
        bytes_check(ctx, &b, None).map(|(nt, _)| nt)
    });
    run_list(ctx, "reader_forms", directed_forms(), |c: &FormCase, case| form_oracle(ctx, c, case));
    {
        // every proper prefix (and, for post_post, every prefix) of every command of the sweep,
        // alone and after another command
        let ops = prefix_ops(tier == Tier::Thorough);
        let encs: Vec<Vec<u8>> = ops.iter().map(|o| m::encode(std::slice::from_ref(o), Dev::default())).collect();
        let mut starts: Vec<u64> = Vec::with_capacity(encs.len() + 1);
        let mut total = 0u64;
        for e in &encs {
            starts.push(total);
            total += e.len() as u64; // cuts 1..=len-1 and, as a control, the whole command
        }
        starts.push(total);
        run_indexed(
            ctx,
            "reader_prefixes",
            2 * total,
            false,
            |i| {
                let (framed, j) = (i >= total, i % total);
                let k = starts.partition_point(|s| *s <= j) - 1;
                let cut = (j - starts[k]) as usize + 1;
                prefix_case(&ops[k], &encs[k], cut, framed)
            },
            |c: &FormCase, case| form_oracle(ctx, c, case),
        );
    }

    // (iii)
    let n = tier.pick(100_000u64, 2_500_000u64);
    run_generated(ctx, "var_remover", n, page_ops, |ops: &Vec<DOp>, case| remover_oracle(ops, false, case));
    let n = tier.pick(30_000u64, 800_000u64);
    run_generated(ctx, "var_remover_overflow", n, overflow_ops, |ops: &Vec<DOp>, case| remover_oracle(ops, true, case));
}


/// Entry point shared by the libFuzzer target and the `fuzz_raw` replay sub-check.
pub fn fuzz_entry(ctx: &Ctx, data: &[u8]) -> Verdict {
    bytes_oracle(ctx, &BCase::Raw(data.to_vec()), &mut Case::default())
}
