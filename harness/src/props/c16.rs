//! C16 DVI encoding round-trips; variable removal preserves every position.

use crate::engine::panics;
use crate::engine::*;
use crate::models::dvi_track::{self as m, Blob, DOp, Dev, End, V};
use proptest::prelude::*;
use serde::{Deserialize, Serialize};

const FLAG_POST_POST: &str = "flag:post_post_id_before_pointer";
/// When true, the bytes written by `dvi::serialize` and the ops read by `dvi::Deserializer`
/// must also agree with the independent codec written from the DVI command table (TeX §585–591).
const CHECK_AGAINST_DVI_STANDARD: bool = true;
/// The crate writes and reads post_post as `249 i[1] q[4]` where DVI (TeX 590) has `q[4] i[1]`.
/// The property as stated (round trip, totality) holds for that layout, so the independent codec
/// accepts it for this one op; the observation is recorded in DESIGN.md, not as a finding.
const ACCEPT_CRATE_POST_POST_LAYOUT: bool = true;
/// When true, `dvi::Values` (the register file VarRemover is built on; anchor "DVI registers") is also
/// compared with the tracker after every op.
const CHECK_VALUES: bool = true;

// ---------------------------------------------------------------------------------
// Conversions between the mirror type and the API type

fn var_to(v: V) -> dvi::Var {
    match v {
        V::W => dvi::Var::W,
        V::X => dvi::Var::X,
        V::Y => dvi::Var::Y,
        V::Z => dvi::Var::Z,
    }
}
fn var_from(v: dvi::Var) -> V {
    match v {
        dvi::Var::W => V::W,
        dvi::Var::X => V::X,
        dvi::Var::Y => V::Y,
        dvi::Var::Z => V::Z,
    }
}

fn to_dvi(op: &DOp) -> dvi::Op {
    use dvi::Op;
    match op {
        DOp::Char { c, set } => Op::TypesetChar { char: *c, move_h: *set },
        DOp::Rule { height, width, set } => Op::TypesetRule { height: *height, width: *width, move_h: *set },
        DOp::Nop => Op::NoOp,
        DOp::Bop { c, p } => Op::BeginPage { parameters: *c, previous_begin_page: *p },
        DOp::Eop => Op::EndPage,
        DOp::Push => Op::Push,
        DOp::Pop => Op::Pop,
        DOp::Right(d) => Op::Right(*d),
        DOp::Down(d) => Op::Down(*d),
        DOp::Move(v) => Op::Move(var_to(*v)),
        DOp::SetVar(v, d) => Op::SetVar(var_to(*v), *d),
        DOp::Fnt(f) => Op::EnableFont(*f),
        DOp::Xxx(b) => Op::Extension(b.bytes()),
        DOp::FntDef { k, c, s, d, area, name } => Op::DefineFont { number: *k, checksum: *c, at_size: *s, design_size: *d, area: area.clone(), name: name.clone() },
        DOp::Pre { i, num, den, mag, comment } => Op::Preamble { dvi_format: *i, unit_numerator: *num, unit_denominator: *den, magnification: *mag, comment: comment.clone() },
        DOp::Post { p, num, den, mag, l, u, s, t } => Op::BeginPostamble {
            final_begin_page: *p,
            unit_numerator: *num,
            unit_denominator: *den,
            magnification: *mag,
            largest_height: *l,
            largest_width: *u,
            max_stack_depth: *s,
            num_pages: *t,
        },
        DOp::PostPost { q, i, n223 } => Op::EndPostamble { postamble: *q, dvi_format: *i, num_223_bytes: *n223 as usize },
    }
}

fn from_dvi(op: &dvi::Op) -> DOp {
    use dvi::Op;
    match op {
        Op::TypesetChar { char, move_h } => DOp::Char { c: *char, set: *move_h },
        Op::TypesetRule { height, width, move_h } => DOp::Rule { height: *height, width: *width, set: *move_h },
        Op::NoOp => DOp::Nop,
        Op::BeginPage { parameters, previous_begin_page } => DOp::Bop { c: *parameters, p: *previous_begin_page },
        Op::EndPage => DOp::Eop,
        Op::Push => DOp::Push,
        Op::Pop => DOp::Pop,
        Op::Right(d) => DOp::Right(*d),
        Op::Down(d) => DOp::Down(*d),
        Op::Move(v) => DOp::Move(var_from(*v)),
        Op::SetVar(v, d) => DOp::SetVar(var_from(*v), *d),
        Op::EnableFont(f) => DOp::Fnt(*f),
        Op::Extension(b) => DOp::Xxx(Blob::Lit(b.clone())),
        Op::DefineFont { number, checksum, at_size, design_size, area, name } => DOp::FntDef { k: *number, c: *checksum, s: *at_size, d: *design_size, area: area.clone(), name: name.clone() },
        Op::Preamble { dvi_format, unit_numerator, unit_denominator, magnification, comment } => DOp::Pre { i: *dvi_format, num: *unit_numerator, den: *unit_denominator, mag: *magnification, comment: comment.clone() },
        Op::BeginPostamble { final_begin_page, unit_numerator, unit_denominator, magnification, largest_height, largest_width, max_stack_depth, num_pages } => DOp::Post {
            p: *final_begin_page,
            num: *unit_numerator,
            den: *unit_denominator,
            mag: *magnification,
            l: *largest_height,
            u: *largest_width,
            s: *max_stack_depth,
            t: *num_pages,
        },
        Op::EndPostamble { postamble, dvi_format, num_223_bytes } => DOp::PostPost { q: *postamble, i: *dvi_format, n223: (*num_223_bytes).min(u32::MAX as usize) as u32 },
    }
}

fn render(ops: &[DOp]) -> String {
    let mut s = String::new();
    for (i, op) in ops.iter().enumerate() {
        if i > 0 {
            s.push(' ');
        }
        match op {
            DOp::Char { c, set } => s.push_str(&format!("{}({})", if *set { "set" } else { "put" }, c)),
            DOp::Rule { height, width, set } => s.push_str(&format!("{}rule({}x{})", if *set { "set" } else { "put" }, width, height)),
            DOp::Nop => s.push_str("nop"),
            DOp::Bop { .. } => s.push_str("BOP"),
            DOp::Eop => s.push_str("EOP"),
            DOp::Push => s.push_str("push"),
            DOp::Pop => s.push_str("pop"),
            DOp::Right(d) => s.push_str(&format!("right({d})")),
            DOp::Down(d) => s.push_str(&format!("down({d})")),
            DOp::Move(v) => s.push_str(&format!("{:?}0", v).to_lowercase()),
            DOp::SetVar(v, d) => s.push_str(&format!("{}({d})", format!("{:?}", v).to_lowercase())),
            DOp::Fnt(f) => s.push_str(&format!("fnt({f})")),
            DOp::Xxx(b) => s.push_str(&format!("xxx[{}]", b.len())),
            DOp::FntDef { k, .. } => s.push_str(&format!("fntdef({k})")),
            DOp::Pre { .. } => s.push_str("pre"),
            DOp::Post { .. } => s.push_str("post"),
            DOp::PostPost { n223, .. } => s.push_str(&format!("postpost[{n223}]")),
        }
    }
    s
}

// ---------------------------------------------------------------------------------
// Operand values

/// Signed values on and around every encoding boundary.
fn signed_boundaries() -> Vec<i32> {
    let mut v = vec![0, 1, -1, i32::MIN, i32::MIN + 1, i32::MAX - 1, i32::MAX];
    for k in [7, 15, 23] {
        let p = 1i32 << k;
        v.extend_from_slice(&[p - 1, p, p + 1, -p - 1, -p, -p + 1]);
    }
    v.extend_from_slice(&[1 << 30, -(1 << 30), 255, 256, -255, -256, 65535, 65536]);
    v
}

fn unsigned_boundaries() -> Vec<u32> {
    let mut v = vec![0u32, 1, 51, 52, 53, 63, 64, 65, 127, 128, 129, 222, 223, 224, u32::MAX - 1, u32::MAX];
    for k in [8, 16, 24, 31] {
        let p = 1u32 << k;
        v.extend_from_slice(&[p - 1, p, p + 1]);
    }
    v
}

fn sval() -> BoxedStrategy<i32> {
    prop_oneof![
        4 => proptest::sample::select(signed_boundaries()),
        2 => -130i32..130,
        2 => (proptest::sample::select(signed_boundaries()), -3i32..=3).prop_map(|(c, d)| c.saturating_add(d)),
        1 => any::<i32>(),
    ]
    .boxed()
}

fn uval() -> BoxedStrategy<u32> {
    prop_oneof![
        4 => proptest::sample::select(unsigned_boundaries()),
        2 => 0u32..300,
        2 => (proptest::sample::select(unsigned_boundaries()), -3i64..=3).prop_map(|(c, d)| (c as i64 + d).clamp(0, u32::MAX as i64) as u32),
        1 => any::<u32>(),
    ]
    .boxed()
}

fn u16val() -> BoxedStrategy<u16> {
    prop_oneof![proptest::sample::select(vec![0u16, 1, 127, 128, 255, 256, 32767, 32768, 65534, 65535]), any::<u16>()].boxed()
}

fn u8val() -> BoxedStrategy<u8> {
    prop_oneof![proptest::sample::select(vec![0u8, 1, 2, 3, 127, 128, 222, 223, 224, 254, 255]), any::<u8>()].boxed()
}

/// Arbitrary Unicode whose UTF-8 encoding has exactly a chosen length in 0..=255 bytes:
/// a random prefix (any scalar value, NUL and U+FFFD included) padded with a filler character.
fn ustr() -> BoxedStrategy<String> {
    let target = prop_oneof![3 => proptest::sample::select(vec![0usize, 1, 2, 3, 4, 127, 128, 252, 253, 254, 255]), 2 => 0usize..=255];
    let ch = prop_oneof![3 => any::<char>(), 2 => proptest::char::range(' ', '~'), 1 => proptest::sample::select(vec!['\0', '\u{7f}', '\u{80}', '\u{7ff}', '\u{800}', '\u{fffd}', '\u{ffff}', '\u{10000}', '\u{10ffff}', 'é', '€', '𝄞'])];
    let prefix = prop_oneof![4 => proptest::collection::vec(ch.clone(), 0..12), 1 => proptest::collection::vec(ch, 0..=255)];
    (target, prefix, proptest::sample::select(vec!['a', 'é', '€', '𝄞', '\0', '\u{fffd}'])).prop_map(|(target, prefix, fill)| {
        let mut s = String::new();
        for c in prefix {
            if s.len() + c.len_utf8() > target {
                break;
            }
            s.push(c);
        }
        while s.len() + fill.len_utf8() <= target {
            s.push(fill);
        }
        while s.len() < target {
            s.push('x');
        }
        s
    })
    .boxed()
}

fn blob() -> BoxedStrategy<Blob> {
    let len = prop_oneof![4 => proptest::sample::select(vec![0usize, 1, 2, 254, 255, 256, 257]), 3 => 0usize..40, 1 => 0usize..600];
    prop_oneof![
        30 => (len, any::<u8>(), proptest::collection::vec(any::<u8>(), 0..24)).prop_map(|(n, fill, head)| {
            let mut v: Vec<u8> = head;
            v.resize(n, fill);
            Blob::Lit(v)
        }),
        1 => (proptest::sample::select(vec![65535u32, 65536, 65537]), any::<u8>()).prop_map(|(len, seed)| Blob::Rep { len, seed }),
    ]
    .boxed()
}

fn var() -> BoxedStrategy<V> {
    proptest::sample::select(vec![V::W, V::X, V::Y, V::Z]).boxed()
}

/// Every op variant, operands at every width (encoding round trip: no position arithmetic).
fn any_op() -> BoxedStrategy<DOp> {
    prop_oneof![
        4 => (uval(), any::<bool>()).prop_map(|(c, set)| DOp::Char { c, set }),
        2 => (sval(), sval(), any::<bool>()).prop_map(|(height, width, set)| DOp::Rule { height, width, set }),
        1 => Just(DOp::Nop),
        1 => (proptest::collection::vec(sval(), 11)).prop_map(|v| {
            let mut c = [0i32; 10];
            c.copy_from_slice(&v[..10]);
            DOp::Bop { c, p: v[10] }
        }),
        1 => Just(DOp::Eop),
        1 => Just(DOp::Push),
        1 => Just(DOp::Pop),
        4 => sval().prop_map(DOp::Right),
        4 => sval().prop_map(DOp::Down),
        2 => var().prop_map(DOp::Move),
        8 => (var(), sval()).prop_map(|(v, d)| DOp::SetVar(v, d)),
        4 => uval().prop_map(DOp::Fnt),
        2 => blob().prop_map(DOp::Xxx),
        2 => (uval(), uval(), uval(), uval(), ustr(), ustr()).prop_map(|(k, c, s, d, area, name)| DOp::FntDef { k, c, s, d, area, name }),
        1 => (u8val(), uval(), uval(), uval(), ustr()).prop_map(|(i, num, den, mag, comment)| DOp::Pre { i, num, den, mag, comment }),
        1 => (sval(), uval(), uval(), uval(), uval(), uval(), u16val(), u16val()).prop_map(|(p, num, den, mag, l, u, s, t)| DOp::Post { p, num, den, mag, l, u, s, t }),
        1 => (sval(), u8val(), prop_oneof![4 => 0u32..9, 1 => 0u32..400]).prop_map(|(q, i, n223)| DOp::PostPost { q, i, n223 }),
    ]
    .boxed()
}

/// post_post is kept in one case out of eight only (elsewhere it becomes `post`), so that the
/// listed finding about its field order does not absorb a large share of the cases.
fn thin_post_post(ops: Vec<DOp>, keep: bool) -> Vec<DOp> {
    if keep {
        return ops;
    }
    ops.into_iter()
        .map(|o| match o {
            DOp::PostPost { q, i, n223 } => DOp::Post { p: q, num: i as u32, den: n223, mag: 1000, l: 0, u: 0, s: i as u16, t: n223 as u16 },
            o => o,
        })
        .collect()
}

fn any_ops_max(short: usize) -> BoxedStrategy<Vec<DOp>> {
    let v = prop_oneof![
        6 => proptest::collection::vec(any_op(), 0..short),
        1 => proptest::collection::vec(any_op(), 0..=200),
    ];
    (v, 0u8..8).prop_map(|(ops, k)| thin_post_post(ops, k == 0)).boxed()
}

fn any_ops() -> BoxedStrategy<Vec<DOp>> {
    any_ops_max(40)
}

// ---------------------------------------------------------------------------------
// (i) round trip

/// Manual decode loop over `Op::deserialize` that insists on progress.
fn impl_decode(bytes: &[u8]) -> Result<(Vec<dvi::Op>, Result<(), dvi::InvalidDviData>), String> {
    let mut rest: &[u8] = bytes;
    let mut ops = vec![];
    loop {
        match dvi::Op::deserialize(rest) {
            Ok(None) => {
                if !rest.is_empty() {
                    return Err(format!("Op::deserialize returned Ok(None) with {} bytes left", rest.len()));
                }
                return Ok((ops, Ok(())));
            }
            Ok(Some((op, tail))) => {
                if tail.len() >= rest.len() {
                    return Err(format!("Op::deserialize made no progress at offset {} (would loop forever)", bytes.len() - rest.len()));
                }
                if tail.as_ptr() != rest[rest.len() - tail.len()..].as_ptr() {
                    return Err("Op::deserialize returned a tail that is not the suffix of its input".into());
                }
                rest = tail;
                ops.push(op);
            }
            Err(e) => return Ok((ops, Err(e))),
        }
    }
}

fn first_diff<T: PartialEq + std::fmt::Debug>(a: &[T], b: &[T]) -> String {
    for i in 0..a.len().max(b.len()) {
        if a.get(i) != b.get(i) {
            let f = |x: Option<&T>| {
                let mut s = format!("{:?}", x);
                if s.len() > 300 {
                    let mut k = 300;
                    while !s.is_char_boundary(k) {
                        k -= 1;
                    }
                    s.truncate(k);
                    s.push('…');
                }
                s
            };
            return format!("index {i}: {} vs {}", f(a.get(i)), f(b.get(i)));
        }
    }
    "no difference".into()
}

fn width_classes(ops: &[DOp], case: &mut Case) -> bool {
    let mut cls: std::collections::BTreeSet<&'static str> = Default::default();
    let mut s = [false; 5];
    let mut u = [false; 5];
    let mut multi = false;
    for op in ops {
        match op {
            DOp::Right(d) | DOp::Down(d) | DOp::SetVar(_, d) => {
                s[m::signed_width(*d) as usize] = true;
                multi |= m::signed_width(*d) >= 2;
            }
            DOp::Char { c, set } => {
                if *set && *c < 128 {
                    cls.insert("set_char_i");
                } else {
                    u[m::unsigned_width(*c) as usize] = true;
                    multi |= m::unsigned_width(*c) >= 2;
                }
            }
            DOp::Fnt(f) => {
                if *f < 64 {
                    cls.insert("fnt_num_i");
                } else {
                    u[m::unsigned_width(*f) as usize] = true;
                    multi |= m::unsigned_width(*f) >= 2;
                }
            }
            DOp::FntDef { k, area, name, .. } => {
                u[m::unsigned_width(*k) as usize] = true;
                multi = true;
                if area.len() == 255 || name.len() == 255 { cls.insert("str_len_255"); }
                if area.is_empty() || name.is_empty() { cls.insert("str_len_0"); }
                if !area.is_ascii() || !name.is_ascii() { cls.insert("str_non_ascii"); }
            }
            DOp::Pre { comment, .. } => {
                multi = true;
                if comment.len() == 255 { cls.insert("str_len_255"); }
                if comment.is_empty() { cls.insert("str_len_0"); }
                if !comment.is_ascii() { cls.insert("str_non_ascii"); }
            }
            DOp::Xxx(b) => {
                multi = true;
                if b.len() < 256 { cls.insert("xxx1"); }
                if (256..65536).contains(&b.len()) { cls.insert("xxx2"); }
                if (65536..1 << 24).contains(&b.len()) { cls.insert("xxx3"); }
                if b.len() >= 1 << 24 { cls.insert("xxx4"); }
            }
            DOp::Rule { .. } | DOp::Bop { .. } | DOp::Post { .. } => multi = true,
            DOp::PostPost { .. } => {
                multi = true;
                cls.insert("post_post");
            }
            _ => {}
        }
    }
    for (k, name) in [(1, "signed_1byte"), (2, "signed_2byte"), (3, "signed_3byte"), (4, "signed_4byte")] {
        case.class_if(s[k], name);
    }
    for (k, name) in [(1, "unsigned_1byte"), (2, "unsigned_2byte"), (3, "unsigned_3byte"), (4, "unsigned_4byte")] {
        case.class_if(u[k], name);
    }
    if ops.len() >= 100 { cls.insert("len>=100"); }
    if ops.is_empty() { cls.insert("empty"); }
    for c in cls {
        case.class(c);
    }
    multi
}

fn roundtrip_oracle(ctx: &Ctx, ops: &Vec<DOp>, case: &mut Case) -> Verdict {
    let nontrivial = width_classes(ops, case);
    if ops.len() <= 24 {
        case.note = Some(render(ops));
    }
    let api: Vec<dvi::Op> = ops.iter().map(to_dvi).collect();
    let bytes = match panics::catch(|| dvi::serialize(api.clone())) {
        Ok(b) => b,
        Err(p) => return Verdict::Fail(format!("serialize panicked at {}: {}", p.site(), p.message)),
    };
    // the per-op API writes the same bytes
    let mut bytes2 = vec![];
    for op in &api {
        op.serialize(&mut bytes2);
    }
    if bytes2 != bytes {
        return Verdict::Fail("Op::serialize concatenation differs from dvi::serialize".into());
    }
    // The expected value: the ops themselves, except for the one sequence shape the DVI
    // format cannot express (post_post's trailing 223s directly followed by fnt_num_52 = 223).
    let (expected_d, folded) = m::fold_223(ops);
    case.class_if(folded, "post_post_then_fnt_num_52(format-ambiguous)");
    let expected: Vec<dvi::Op> = expected_d.iter().map(to_dvi).collect();
    let (got, end) = match panics::catch(|| impl_decode(&bytes)) {
        Ok(Ok(r)) => r,
        Ok(Err(e)) => return Verdict::Fail(e),
        Err(p) => return Verdict::Fail(format!("deserialize panicked at {}: {}", p.site(), p.message)),
    };
    if let Err(e) = end {
        return Verdict::Fail(format!("deserialize(serialize(ops)) stopped with {:?} after {} of {} ops", e, got.len(), expected.len()));
    }
    if got != expected {
        return Verdict::Fail(format!("deserialize(serialize(ops)) != ops: {}", first_diff(&got, &expected)));
    }
    // the iterator API says the same
    let mut result = Ok(());
    let got_iter: Vec<dvi::Op> = dvi::Deserializer::new(&bytes, &mut result).collect();
    if result != Ok(()) || got_iter != expected {
        return Verdict::Fail(format!("dvi::Deserializer disagrees with Op::deserialize: result {:?}, {}", result, first_diff(&got_iter, &expected)));
    }
    if !CHECK_AGAINST_DVI_STANDARD {
        return Verdict::pass(nontrivial);
    }
    // Independent reading of the written bytes (DVI command table).
    let want: Vec<DOp> = expected_d.iter().map(|o| o.canon()).collect();
    let (ref_ops, ref_end) = m::decode(&bytes, Dev::default());
    if ref_end == End::Done && ref_ops == want {
        case.class_if(bytes == m::encode(ops, Dev::default()), "bytes_equal_minimal_width_reference");
        case.class_if(bytes != m::encode(ops, Dev::default()), "bytes_differ_from_minimal_width_reference");
        return Verdict::pass(nontrivial);
    }
    let dev = Dev { post_post_id_before_pointer: true };
    let (dev_ops, dev_end) = m::decode(&bytes, dev);
    if dev_end == End::Done && dev_ops == want {
        if ACCEPT_CRATE_POST_POST_LAYOUT || ctx.known(FLAG_POST_POST) {
            case.class("post_post written id-first (crate layout; outside the property)");
            return Verdict::pass(nontrivial);
        }
        return Verdict::Fail(format!(
            "the bytes written for post_post are not DVI: TeX §590 defines `post_post q[4] i[1] 223…` (pointer, then id byte); written bytes {:?} read by the DVI standard give {}",
            &bytes[..bytes.len().min(40)],
            first_diff(&ref_ops, &want)
        ));
    }
    Verdict::Fail(format!("bytes written by serialize, read by the DVI command table, are not the ops: end {:?}, {}", ref_end, first_diff(&ref_ops, &want)))
}

/// Deterministic boundary sweep: one op (alone, or framed by neighbours) per index.
fn sweep_cases(w: i64, big_blobs: bool) -> Vec<DOp> {
    let mut out = vec![];
    let mut sv: Vec<i32> = vec![];
    for c in [0i64, 1 << 7, -(1 << 7), 1 << 15, -(1 << 15), 1 << 23, -(1 << 23), i32::MIN as i64, i32::MAX as i64] {
        for d in -w..=w {
            let x = c + d;
            if x >= i32::MIN as i64 && x <= i32::MAX as i64 {
                sv.push(x as i32);
            }
        }
    }
    sv.sort();
    sv.dedup();
    let mut uv: Vec<u32> = vec![];
    for c in [0i64, 64, 128, 1 << 8, 1 << 16, 1 << 24, 1 << 31, u32::MAX as i64] {
        for d in -w..=w {
            let x = c + d;
            if x >= 0 && x <= u32::MAX as i64 {
                uv.push(x as u32);
            }
        }
    }
    uv.sort();
    uv.dedup();
    for &x in &sv {
        out.push(DOp::Right(x));
        out.push(DOp::Down(x));
        for v in [V::W, V::X, V::Y, V::Z] {
            out.push(DOp::SetVar(v, x));
        }
    }
    let fd = |k: u32, c: u32, s: u32, d: u32, a: &str, n: &str| DOp::FntDef { k, c, s, d, area: a.to_string(), name: n.to_string() };
    for &x in &uv {
        out.push(DOp::Char { c: x, set: true });
        out.push(DOp::Char { c: x, set: false });
        out.push(DOp::Fnt(x));
        out.push(fd(x, 1, 2, 3, "", "cmr10"));
    }
    let sb = signed_boundaries();
    let ub = unsigned_boundaries();
    for &a in &sb {
        for &b in &sb {
            out.push(DOp::Rule { height: a, width: b, set: true });
            out.push(DOp::Rule { height: a, width: b, set: false });
        }
        for k in 0..11 {
            let mut c = [0i32; 10];
            let mut p = -1;
            if k < 10 {
                c[k] = a;
            } else {
                p = a;
            }
            out.push(DOp::Bop { c, p });
        }
        out.push(DOp::Post { p: a, num: 25400000, den: 473628672, mag: 1000, l: 1, u: 2, s: 3, t: 4 });
        out.push(DOp::PostPost { q: a, i: 2, n223: 4 });
    }
    for &a in &ub {
        out.push(fd(1, a, 2, 3, "a", "b"));
        out.push(fd(1, 2, a, 3, "a", "b"));
        out.push(fd(1, 2, 3, a, "a", "b"));
        out.push(DOp::Pre { i: 2, num: a, den: 1, mag: 1, comment: String::new() });
        out.push(DOp::Pre { i: 2, num: 1, den: a, mag: 1, comment: String::new() });
        out.push(DOp::Pre { i: 2, num: 1, den: 1, mag: a, comment: String::new() });
        for k in 0..5 {
            let mut f = [7u32; 5];
            f[k] = a;
            out.push(DOp::Post { p: -1, num: f[0], den: f[1], mag: f[2], l: f[3], u: f[4], s: 0, t: 0 });
        }
    }
    for x in [0u16, 1, 255, 256, 32767, 32768, 65535] {
        out.push(DOp::Post { p: 0, num: 0, den: 0, mag: 0, l: 0, u: 0, s: x, t: 9 });
        out.push(DOp::Post { p: 0, num: 0, den: 0, mag: 0, l: 0, u: 0, s: 9, t: x });
    }
    for i in 0..=255u8 {
        out.push(DOp::Pre { i, num: 1, den: 2, mag: 3, comment: "x".into() });
        out.push(DOp::PostPost { q: 5, i, n223: 4 });
    }
    for n in 0..=12u32 {
        out.push(DOp::PostPost { q: 100, i: 2, n223: n });
    }
    // string lengths 0..=255 bytes with 1-, 2-, 3- and 4-byte characters
    for fill in ['a', 'é', '€', '𝄞'] {
        for len in 0..=255usize {
            let mut s = String::new();
            while s.len() + fill.len_utf8() <= len {
                s.push(fill);
            }
            while s.len() < len {
                s.push('x');
            }
            out.push(DOp::Pre { i: 2, num: 1, den: 2, mag: 3, comment: s.clone() });
            out.push(fd(0, 0, 0, 0, &s, "n"));
            out.push(fd(0, 0, 0, 0, "a", &s));
            if len % 5 == 0 {
                out.push(fd(0, 0, 0, 0, &s, &s));
            }
        }
    }
    for len in (0..=300u32).chain([65534, 65535, 65536, 65537]) {
        out.push(DOp::Xxx(Blob::Rep { len, seed: (len % 250) as u8 }));
    }
    if big_blobs {
        for len in [(1u32 << 24) - 1, 1 << 24, (1 << 24) + 1] {
            out.push(DOp::Xxx(Blob::Rep { len, seed: 3 }));
        }
    }
    for op in [DOp::Nop, DOp::Eop, DOp::Push, DOp::Pop, DOp::Move(V::W), DOp::Move(V::X), DOp::Move(V::Y), DOp::Move(V::Z)] {
        out.push(op);
    }
    out
}

// ---------------------------------------------------------------------------------
// (ii) arbitrary bytes

#[derive(Clone, Debug, Serialize, Deserialize)]
pub enum Mutn {
    /// Keep the first `pos` (scaled) bytes.
    Truncate(u16),
    Set(u16, u8),
    Xor(u16, u8),
    Insert(u16, u8),
    Delete(u16),
    /// Repeat `n` bytes starting at the position.
    Dup(u16, u8),
}

#[derive(Clone, Debug, Serialize, Deserialize)]
pub enum BCase {
    Raw(Vec<u8>),
    /// The DVI-standard encoding of `ops` with `muts` applied in order.
    Mutated { ops: Vec<DOp>, muts: Vec<Mutn> },
}

fn bcase_bytes(c: &BCase) -> Vec<u8> {
    match c {
        BCase::Raw(b) => b.clone(),
        BCase::Mutated { ops, muts } => {
            let mut b = m::encode(ops, Dev::default());
            for mu in muts {
                let at = |p: u16, len: usize| ((p as usize) * len) >> 16;
                match mu {
                    Mutn::Truncate(p) => {
                        let k = at(*p, b.len() + 1);
                        b.truncate(k);
                    }
                    Mutn::Set(p, x) => {
                        if !b.is_empty() {
                            let k = at(*p, b.len());
                            b[k] = *x;
                        }
                    }
                    Mutn::Xor(p, x) => {
                        if !b.is_empty() {
                            let k = at(*p, b.len());
                            b[k] ^= *x;
                        }
                    }
                    Mutn::Insert(p, x) => {
                        let k = at(*p, b.len() + 1);
                        b.insert(k, *x);
                    }
                    Mutn::Delete(p) => {
                        if !b.is_empty() {
                            let k = at(*p, b.len());
                            b.remove(k);
                        }
                    }
                    Mutn::Dup(p, n) => {
                        if !b.is_empty() {
                            let k = at(*p, b.len());
                            let e = (k + *n as usize).min(b.len());
                            let seg: Vec<u8> = b[k..e].to_vec();
                            let tail = b.split_off(e);
                            b.extend_from_slice(&seg);
                            b.extend_from_slice(&tail);
                        }
                    }
                }
            }
            b
        }
    }
}

fn interesting_bytes() -> Vec<u8> {
    let mut v: Vec<u8> = (128..=170).collect();
    v.extend_from_slice(&[0, 1, 2, 3, 4, 5, 127, 171, 222, 223, 223, 223, 224, 234, 235, 236, 237, 238, 239, 239, 240, 241, 242, 243, 243, 244, 245, 246, 247, 247, 248, 249, 250, 255]);
    v
}

fn bcase_strategy() -> BoxedStrategy<BCase> {
    let byte = prop_oneof![3 => any::<u8>(), 3 => proptest::sample::select(interesting_bytes()), 2 => 0u8..6];
    let raw = prop_oneof![
        3 => proptest::collection::vec(any::<u8>(), 0..48),
        5 => proptest::collection::vec(byte, 0..96),
    ];
    let mu = prop_oneof![
        3 => any::<u16>().prop_map(Mutn::Truncate),
        2 => (any::<u16>(), prop_oneof![any::<u8>(), proptest::sample::select(interesting_bytes())]).prop_map(|(p, x)| Mutn::Set(p, x)),
        2 => (any::<u16>(), prop_oneof![(0u8..8).prop_map(|k| 1u8 << k), any::<u8>()]).prop_map(|(p, x)| Mutn::Xor(p, x)),
        2 => (any::<u16>(), prop_oneof![any::<u8>(), proptest::sample::select(interesting_bytes())]).prop_map(|(p, x)| Mutn::Insert(p, x)),
        2 => any::<u16>().prop_map(Mutn::Delete),
        1 => (any::<u16>(), 1u8..12).prop_map(|(p, n)| Mutn::Dup(p, n)),
    ];
    prop_oneof![
        1 => raw.prop_map(BCase::Raw),
        1 => (proptest::collection::vec(any_op(), 1..14), 0u8..8, proptest::collection::vec(mu, 0..4)).prop_map(|(ops, k, muts)| BCase::Mutated { ops: thin_post_post(ops, k == 0), muts }),
    ]
    .boxed()
}

fn end_of(r: &Result<(), dvi::InvalidDviData>) -> End {
    match r {
        Ok(()) => End::Done,
        Err(dvi::InvalidDviData::InvalidOpCode(o)) => End::BadOpcode(*o),
        Err(dvi::InvalidDviData::Truncated(o)) => End::Truncated(*o),
    }
}

/// Total on arbitrary bytes; returns (nontrivial, used_known_flag).
fn bytes_check(ctx: &Ctx, bytes: &[u8], case: Option<&mut Case>) -> Result<(bool, bool), String> {
    let (got, end) = match panics::catch(|| impl_decode(bytes)) {
        Ok(Ok(r)) => r,
        Ok(Err(e)) => return Err(e),
        Err(p) => return Err(format!("deserialize panicked at {}: {} on bytes {:?}", p.site(), p.message, &bytes[..bytes.len().min(64)])),
    };
    if got.len() > bytes.len() {
        return Err("more ops than bytes".into());
    }
    let mut result = Ok(());
    let got_iter: Vec<dvi::Op> = match panics::catch(|| dvi::Deserializer::new(bytes, &mut result).take(bytes.len() + 1).collect()) {
        Ok(v) => v,
        Err(p) => return Err(format!("Deserializer panicked at {}: {}", p.site(), p.message)),
    };
    if got_iter != got || result != end {
        return Err(format!("dvi::Deserializer ({} ops, {:?}) disagrees with Op::deserialize ({} ops, {:?})", got_iter.len(), result, got.len(), end));
    }
    let got_end = end_of(&end);
    // The documented errors, and only where the format calls for them.
    match &got_end {
        End::BadOpcode(o) if *o < 250 => return Err(format!("InvalidOpCode({o}) for a defined opcode")),
        _ => {}
    }
    let got_d: Vec<DOp> = got.iter().map(from_dvi).collect();
    let multi = got_d.iter().any(|o| !matches!(o, DOp::Char { c: 0..=127, set: true } | DOp::Nop | DOp::Eop | DOp::Push | DOp::Pop | DOp::Move(_) | DOp::Fnt(0..=63)));
    let nontrivial = multi || matches!(got_end, End::Truncated(_));
    if let Some(case) = case {
        case.class(match got_end {
            End::Done => "all_bytes_decoded",
            End::BadOpcode(_) => "err_invalid_opcode",
            End::Truncated(_) => "err_truncated",
        });
        case.class_if(got_d.len() >= 5, "ops>=5");
        case.class_if(got_d.iter().any(|o| matches!(o, DOp::FntDef { .. } | DOp::Pre { .. })), "has_string_op");
        case.class_if(got_d.iter().any(|o| matches!(o, DOp::FntDef{area, name, ..} if area.contains('\u{fffd}') || name.contains('\u{fffd}')) || matches!(o, DOp::Pre{comment, ..} if comment.contains('\u{fffd}'))), "has_U+FFFD_string");
        case.class_if(got_d.iter().any(|o| matches!(o, DOp::Xxx(_))), "has_xxx");
        case.class_if(got_d.iter().any(|o| matches!(o, DOp::PostPost { .. })), "has_post_post");
        case.class_if(got_d.iter().any(|o| matches!(o, DOp::Bop { .. })), "has_bop");
    }
    if !CHECK_AGAINST_DVI_STANDARD {
        return Ok((nontrivial, false));
    }
    let (ref_ops, ref_end) = m::decode(bytes, Dev::default());
    if ref_ops == got_d && ref_end == got_end {
        return Ok((nontrivial, false));
    }
    let (dev_ops, dev_end) = m::decode(bytes, Dev { post_post_id_before_pointer: true });
    if dev_ops == got_d && dev_end == got_end {
        if ACCEPT_CRATE_POST_POST_LAYOUT || ctx.known(FLAG_POST_POST) {
            return Ok((nontrivial, false));
        }
        return Err(format!(
            "post_post is read as `i[1] q[4]`; the DVI standard (TeX §590) says `q[4] i[1]`: bytes {:?}: {}",
            &bytes[..bytes.len().min(48)],
            first_diff(&got_d, &ref_ops)
        ));
    }
    Err(format!(
        "deserialize disagrees with the DVI command table on bytes {:?}: end {:?} vs {:?}; {}",
        &bytes[..bytes.len().min(64)],
        got_end,
        ref_end,
        first_diff(&got_d, &ref_ops)
    ))
}

fn bytes_oracle(ctx: &Ctx, c: &BCase, case: &mut Case) -> Verdict {
    let bytes = bcase_bytes(c);
    case.class(match c {
        BCase::Raw(_) => "raw",
        BCase::Mutated { muts, .. } if muts.is_empty() => "valid_stream_unmutated",
        BCase::Mutated { .. } => "mutated_stream",
    });
    if bytes.len() <= 40 {
        case.note = Some(format!("{:?}", bytes));
    }
    match bytes_check(ctx, &bytes, Some(case)) {
        Ok((_, true)) => Verdict::Known(FLAG_POST_POST.into()),
        Ok((nt, false)) => Verdict::pass(nt),
        Err(e) => Verdict::Fail(e),
    }
}

/// Index -> byte string: all strings of length 0, 1, 2, (3).
fn short_bytes(i: i64) -> Vec<u8> {
    let mut i = i as u64;
    let mut len = 0u32;
    let mut block = 1u64;
    while i >= block {
        i -= block;
        block *= 256;
        len += 1;
    }
    let mut v = vec![0u8; len as usize];
    for k in (0..len as usize).rev() {
        v[k] = (i % 256) as u8;
        i /= 256;
    }
    v
}

// ---------------------------------------------------------------------------------
// (iii) VarRemover and Values against the DVItype-style tracker

fn neg(d: i32) -> i32 {
    if d == i32::MIN {
        i32::MAX
    } else {
        -d
    }
}

/// Keep every |h|, |v| inside 32 bits by construction: an op that would leave the range
/// gets its displacement negated (h and the displacement have the same sign when the sum
/// overflows, so the difference is in range).
fn repair(ops: Vec<DOp>) -> Vec<DOp> {
    let mut t = m::Tracker::default();
    let mut out = Vec::with_capacity(ops.len());
    for op in ops {
        let (dh, dv) = t.motion(&op);
        let bad = (t.cur.h + dh).abs() > m::POS_LIMIT || (t.cur.v + dv).abs() > m::POS_LIMIT;
        let op = if !bad {
            op
        } else {
            match op {
                DOp::Right(d) => DOp::Right(neg(d)),
                DOp::Down(d) => DOp::Down(neg(d)),
                DOp::SetVar(v, d) => DOp::SetVar(v, neg(d)),
                DOp::Rule { height, width, set } => DOp::Rule { height, width: neg(width), set },
                DOp::Move(v) => DOp::SetVar(v, neg(t.cur.vars[v.idx()] as i32)),
                o => o,
            }
        };
        t.step(&op);
        // events are not needed here
        t.events.clear();
        out.push(op);
    }
    out
}

/// Displacements for the transform check; `k` is a per-case magnitude class.
fn dist(k: u8) -> BoxedStrategy<i32> {
    match k {
        0 => (-12i32..=12).boxed(),
        1 => prop_oneof![3 => -12i32..=12, 2 => proptest::sample::select(vec![127, 128, 129, -127, -128, -129, -130, 255, 256, 32767, 32768, 32769, -32767, -32768, -32769]), 1 => -40_000i32..40_000].boxed(),
        2 => prop_oneof![3 => -12i32..=12, 2 => proptest::sample::select(vec![128, -129, 32768, -32769, 8388607, 8388608, 8388609, -8388607, -8388608, -8388609, 65536]), 1 => -9_000_000i32..9_000_000].boxed(),
        _ => prop_oneof![3 => -12i32..=12, 3 => proptest::sample::select(signed_boundaries()), 1 => any::<i32>()].boxed(),
    }
}

fn page_char() -> BoxedStrategy<u32> {
    prop_oneof![6 => 65u32..70, 1 => uval()].boxed()
}

fn bop() -> DOp {
    DOp::Bop { c: [1, 0, 0, 0, 0, 0, 0, 0, 0, 0], p: -1 }
}

fn page_op(k: u8) -> BoxedStrategy<DOp> {
    let dist = move || dist(k);
    prop_oneof![
        12 => page_char().prop_map(|c| DOp::Char { c, set: true }),
        4 => page_char().prop_map(|c| DOp::Char { c, set: false }),
        4 => (dist(), dist()).prop_map(|(height, width)| DOp::Rule { height, width, set: true }),
        2 => (sval(), sval()).prop_map(|(height, width)| DOp::Rule { height, width, set: false }),
        10 => Just(DOp::Push),
        9 => Just(DOp::Pop),
        5 => dist().prop_map(DOp::Right),
        5 => dist().prop_map(DOp::Down),
        14 => (var(), dist()).prop_map(|(v, d)| DOp::SetVar(v, d)),
        16 => var().prop_map(DOp::Move),
        4 => prop_oneof![4 => 0u32..4, 1 => uval()].prop_map(DOp::Fnt),
        3 => Just(bop()),
        1 => (proptest::collection::vec(sval(), 11)).prop_map(|v| {
            let mut c = [0i32; 10];
            c.copy_from_slice(&v[..10]);
            DOp::Bop { c, p: v[10] }
        }),
        2 => Just(DOp::Eop),
        1 => Just(DOp::Nop),
        1 => blob().prop_map(DOp::Xxx),
        1 => (0u32..4, ustr()).prop_map(|(k, name)| DOp::FntDef { k, c: 0, s: 655360, d: 655360, area: String::new(), name }),
        1 => prop_oneof![
            Just(DOp::Pre { i: 2, num: 25400000, den: 473628672, mag: 1000, comment: "c".into() }),
            Just(DOp::Post { p: 0, num: 25400000, den: 473628672, mag: 1000, l: 1, u: 1, s: 1, t: 1 }),
            Just(DOp::PostPost { q: 0, i: 2, n223: 4 }),
        ],
    ]
    .boxed()
}

/// Hand-shaped fragments that make the stated non-trivial shapes frequent.
fn fragment(k: u8) -> BoxedStrategy<Vec<DOp>> {
    let dist = move || dist(k);
    let mid = proptest::collection::vec(page_op(k), 0..4);
    prop_oneof![
        // set, push, change, pop, reuse
        (var(), dist(), dist(), mid.clone(), mid.clone(), page_char()).prop_map(|(v, a, b, m1, m2, c)| {
            let mut o = vec![DOp::SetVar(v, a), DOp::Push, DOp::SetVar(v, b)];
            o.extend(m1);
            o.push(DOp::Pop);
            o.extend(m2);
            o.push(DOp::Move(v));
            o.push(DOp::Char { c, set: true });
            o
        }),
        // set, page boundary, use
        (var(), dist(), any::<bool>(), mid.clone(), page_char()).prop_map(|(v, a, eop, m1, c)| {
            let mut o = vec![DOp::SetVar(v, a)];
            if eop {
                o.push(DOp::Eop);
            }
            o.push(bop());
            o.extend(m1);
            o.push(DOp::Move(v));
            o.push(DOp::Char { c, set: false });
            o
        }),
        // push left open over a page boundary, then pop and use
        (var(), dist(), dist(), page_char()).prop_map(|(v, a, b, c)| vec![DOp::SetVar(v, a), DOp::Push, DOp::SetVar(v, b), bop(), DOp::Pop, DOp::Move(v), DOp::Char { c, set: true }]),
        // font selected inside push, character after pop
        (0u32..4, 0u32..4, page_char()).prop_map(|(f, g, c)| vec![DOp::Fnt(f), DOp::Push, DOp::Fnt(g), DOp::Char { c, set: true }, DOp::Pop, DOp::Char { c, set: true }]),
    ]
    .boxed()
}

fn page_ops() -> BoxedStrategy<Vec<DOp>> {
    prop_oneof![3 => Just(0u8), 3 => Just(1u8), 3 => Just(2u8), 2 => Just(3u8)]
        .prop_flat_map(|k| {
            let piece = prop_oneof![9 => page_op(k).prop_map(|o| vec![o]), 1 => fragment(k)];
            prop_oneof![5 => proptest::collection::vec(piece.clone(), 0..40), 1 => proptest::collection::vec(piece, 0..=200)]
        })
        .prop_map(|ps| {
            let mut v: Vec<DOp> = ps.into_iter().flatten().collect();
            v.truncate(200);
            repair(v)
        })
        .boxed()
}

fn fonts_agree(api: &[(u32, u32)], model: &[m::Adv]) -> bool {
    api.len() == model.len() && api.iter().zip(model).all(|(a, b)| a.0 == b.0 && b.1.map_or(true, |f| f == a.1))
}

fn remover_oracle(ops: &Vec<DOp>, case: &mut Case) -> Verdict {
    case.note = Some(render(ops));
    // -- the tracker on the original
    let t0 = m::track(ops);
    if t0.max_abs > m::POS_LIMIT {
        return Verdict::Skip("position leaves 32 bits");
    }
    let sh = &t0.shapes;
    case.class_if(sh.push_change_pop_reuse, "set/push/change/pop/reuse then typeset");
    case.class_if(sh.use_across_bop, "set/bop/use then typeset");
    case.class_if(sh.hit_a && !sh.push_change_pop_reuse, "push-pop reuse not observed by a typeset op");
    case.class_if(sh.hit_b && !sh.use_across_bop, "bop reuse not observed by a typeset op");
    case.class_if(sh.pop_at_level_zero, "pop at level zero");
    case.class_if(sh.pop_after_bop_emptied_stack, "bop with open push, then pop");
    case.class_if(sh.font_change_inside_push_seen_after_pop, "font changed inside push, pop");
    case.class_if(sh.max_depth >= 3, "depth>=3");
    case.class_if(sh.pages >= 2, "pages>=2");
    case.class_if(t0.max_abs > 1 << 24, "|pos|>2^24");
    case.class_if(t0.max_abs > 1 << 30, "|pos|>2^30");
    case.class_if(ops.len() >= 100, "len>=100");
    let nontrivial = sh.push_change_pop_reuse || sh.use_across_bop;

    let api: Vec<dvi::Op> = ops.iter().map(to_dvi).collect();

    // -- the transform
    let out: Vec<dvi::Op> = match panics::catch(|| dvi::transforms::VarRemover::new(api.clone()).collect()) {
        Ok(v) => v,
        Err(p) => return Verdict::Fail(format!("VarRemover panicked at {}: {}", p.site(), p.message)),
    };
    let out_d: Vec<DOp> = out.iter().map(from_dvi).collect();
    if let Some(i) = out_d.iter().position(|o| matches!(o, DOp::Move(_) | DOp::SetVar(..))) {
        return Verdict::Fail(format!("output op {i} is {:?}: a w/x/y/z command survived", out_d[i]));
    }
    let t1 = m::track(&out_d);
    if t0.events != t1.events {
        return Verdict::Fail(format!("typeset events differ (original vs VarRemover output): {}\noutput: {}", first_diff(&t0.events, &t1.events), render(&out_d)));
    }
    let keep = |v: &[DOp]| -> Vec<DOp> { v.iter().filter(|o| !o.is_movement()).map(|o| o.canon()).collect() };
    let (a, b) = (keep(ops), keep(&out_d));
    if a != b {
        return Verdict::Fail(format!("non-movement ops differ: {}", first_diff(&a, &b)));
    }

    // -- the same through the byte pipeline used by `dvitools normalize`
    let (_, ambiguous) = m::fold_223(ops);
    if !ambiguous {
        let bytes = m::encode(ops, Dev::default());
        let r = panics::catch(|| {
            let mut result = Ok(());
            let mut i1 = dvi::Deserializer::new(&bytes, &mut result);
            let i2 = dvi::transforms::VarRemover::new(&mut i1);
            let b = dvi::serialize(i2);
            (b, result)
        });
        match r {
            Err(p) => return Verdict::Fail(format!("normalize pipeline panicked at {}: {}", p.site(), p.message)),
            Ok((_, Err(e))) => return Verdict::Fail(format!("normalize pipeline: deserializer error {:?} on a valid stream", e)),
            Ok((b, Ok(()))) => {
                let (ops2, end) = m::decode(&b, Dev::default());
                let want: Vec<DOp> = out_d.iter().map(|o| o.canon()).collect();
                if end != End::Done || ops2 != want {
                    return Verdict::Fail(format!("normalize pipeline (bytes -> Deserializer -> VarRemover -> serialize) differs from VarRemover on ops: end {:?}, {}", end, first_diff(&ops2, &want)));
                }
                case.class("byte_pipeline_checked");
            }
        }
    }
    // -- Values::update, step by step
    if !CHECK_VALUES {
        return Verdict::pass(nontrivial);
    }
    let r = panics::catch(|| {
        let mut values: dvi::Values = Default::default();
        let mut t = m::Tracker::default();
        for (i, (op, aop)) in ops.iter().zip(&api).enumerate() {
            values.update(aop);
            t.step(op);
            t.events.clear();
            let (h, hc) = values.h();
            let got = [h as i64, values.v() as i64, values.w() as i64, values.x() as i64, values.y() as i64, values.z() as i64];
            let want = [t.cur.h, t.cur.v, t.cur.vars[0], t.cur.vars[1], t.cur.vars[2], t.cur.vars[3]];
            if got != want {
                return Err(format!("after op {i} ({:?}): dvi::Values (h,v,w,x,y,z) = {:?}, DVItype model {:?}", op, got, want));
            }
            if !fonts_agree(hc, &t.cur.hw) {
                return Err(format!("after op {i} ({:?}): dvi::Values h advances {:?}, model {:?}", op, hc, t.cur.hw));
            }
            if let Some(f) = t.font {
                if values.f() != f {
                    return Err(format!("after op {i} ({:?}): dvi::Values f = {}, model {}", op, values.f(), f));
                }
            }
        }
        Ok(())
    });
    match r {
        Ok(Ok(())) => {}
        Ok(Err(e)) => return Verdict::Fail(e),
        Err(p) => return Verdict::Fail(format!("Values::update panicked at {}: {}", p.site(), p.message)),
    }
    Verdict::pass(nontrivial)
}

// ---------------------------------------------------------------------------------
// Calibration of the reference model on the repository's unit-test goldens
// (crates/dvi/src/lib.rs `serde_tests!`, `values_tests!`, and the VarRemover doc examples).

#[derive(Clone, Debug, Serialize, Deserialize)]
pub enum Golden {
    Codec { bytes: Vec<u8>, op: DOp },
    Values { ops: Vec<DOp>, f: u32, h: i64, chars: Vec<(u32, u32)>, v: i64, vars: [i64; 4] },
    Remover { ops: Vec<DOp>, want: Vec<DOp> },
}

fn goldens() -> Vec<Golden> {
    use DOp::*;
    let c = |bytes: &[u8], op: DOp| Golden::Codec { bytes: bytes.to_vec(), op };
    let fd = |k: u32, a: &str, n: &str| FntDef { k, c: 2, s: 3, d: 4, area: a.into(), name: n.into() };
    let p = |k: u32| 2i32.pow(k);
    let mut g = vec![
        c(&[0], Char { c: 0, set: true }),
        c(&[127], Char { c: 127, set: true }),
        c(&[128, 128], Char { c: 128, set: true }),
        c(&[132, 0, 0, 0, 1, 0, 0, 0, 2], Rule { height: 1, width: 2, set: true }),
        c(&[133, 1], Char { c: 1, set: false }),
        c(&[134, 255, 255], Char { c: 65535, set: false }),
        c(&[135, 255, 255, 255], Char { c: (1 << 24) - 1, set: false }),
        c(&[136, 255, 255, 255, 255], Char { c: u32::MAX, set: false }),
        c(&[137, 0, 0, 0, 1, 0, 0, 0, 2], Rule { height: 1, width: 2, set: false }),
        c(&[138], Nop),
        c(
            &[139, 0, 0, 0, 1, 0, 0, 0, 2, 0, 0, 0, 3, 0, 0, 0, 4, 0, 0, 0, 5, 0, 0, 0, 6, 0, 0, 0, 7, 0, 0, 0, 8, 0, 0, 0, 9, 255, 255, 255, 255, 0, 0, 0, 1],
            Bop { c: [1, 2, 3, 4, 5, 6, 7, 8, 9, -1], p: 1 },
        ),
        c(&[140], Eop),
        c(&[141], Push),
        c(&[142], Pop),
        c(&[143, 2], Right(2)),
        c(&[144, 1, 2], Right(258)),
        c(&[145, 1, 0, 2], Right(65538)),
        c(&[146, 1, 0, 0, 2], Right(16777218)),
        c(&[147], Move(V::W)),
        c(&[148, 2], SetVar(V::W, 2)),
        c(&[149, 1, 2], SetVar(V::W, 258)),
        c(&[150, 1, 0, 2], SetVar(V::W, 65538)),
        c(&[151, 1, 0, 0, 2], SetVar(V::W, 16777218)),
        c(&[152], Move(V::X)),
        c(&[154, 1, 2], SetVar(V::X, 258)),
        c(&[157, 0], Down(0)),
        c(&[157, 1], Down(1)),
        c(&[157, 255], Down(-1)),
        c(&[157, 127], Down(127)),
        c(&[157, 128], Down(-128)),
        c(&[158, 0, 128], Down(p(7))),
        c(&[158, 255, 127], Down(-p(7) - 1)),
        c(&[158, 127, 255], Down(p(15) - 1)),
        c(&[158, 128, 0], Down(-p(15))),
        c(&[159, 0, 128, 0], Down(p(15))),
        c(&[159, 255, 127, 255], Down(-p(15) - 1)),
        c(&[159, 127, 255, 255], Down(p(23) - 1)),
        c(&[159, 128, 0, 0], Down(-p(23))),
        c(&[160, 0, 128, 0, 0], Down(p(23))),
        c(&[160, 255, 127, 255, 255], Down(-p(23) - 1)),
        c(&[160, 127, 255, 255, 255], Down(i32::MAX)),
        c(&[160, 128, 0, 0, 0], Down(i32::MIN)),
        c(&[161], Move(V::Y)),
        c(&[163, 1, 2], SetVar(V::Y, 258)),
        c(&[166], Move(V::Z)),
        c(&[170, 1, 0, 0, 2], SetVar(V::Z, 16777218)),
        c(&[171], Fnt(0)),
        c(&[234], Fnt(63)),
        c(&[235, 64], Fnt(64)),
        c(&[236, 1, 0], Fnt(256)),
        c(&[237, 1, 0, 0], Fnt(65536)),
        c(&[238, 1, 0, 0, 0], Fnt(1 << 24)),
        c(&[239, 5, 0, 1, 2, 3, 4], Xxx(Blob::Lit(vec![0, 1, 2, 3, 4]))),
        c(&[243, 1, 0, 0, 0, 2, 0, 0, 0, 3, 0, 0, 0, 4, 0, 5, 99, 109, 114, 49, 48], fd(1, "", "cmr10")),
        c(&[244, 1, 1, 0, 0, 0, 2, 0, 0, 0, 3, 0, 0, 0, 4, 5, 0, 99, 109, 114, 49, 48], fd(257, "cmr10", "")),
        c(&[245, 1, 1, 1, 0, 0, 0, 2, 0, 0, 0, 3, 0, 0, 0, 4, 2, 3, 99, 109, 114, 49, 48], fd(65793, "cm", "r10")),
        c(&[246, 1, 0, 0, 0, 0, 0, 0, 2, 0, 0, 0, 3, 0, 0, 0, 4, 0, 0], fd(1 << 24, "", "")),
        c(&[247, 2, 0, 0, 0, 3, 0, 0, 0, 5, 1, 2, 3, 4, 3, 65, 66, 67], Pre { i: 2, num: 3, den: 5, mag: 0x01020304, comment: "ABC".into() }),
        c(
            &[248, 0, 0, 0, 1, 0, 0, 0, 2, 0, 0, 0, 3, 0, 0, 0, 4, 0, 0, 0, 5, 0, 0, 0, 6, 0, 7, 0, 8],
            Post { p: 1, num: 2, den: 3, mag: 4, l: 5, u: 6, s: 7, t: 8 },
        ),
        // NOT the repository's op_code_249 golden (that one pins the id byte before the pointer, see
        // FLAG_POST_POST); this is the tail TeX §642 writes: post_post, pointer, id_byte=2, 223s.
        c(&[249, 0, 0, 0, 100, 2, 223, 223, 223, 223], PostPost { q: 100, i: 2, n223: 4 }),
    ];
    let vg = |ops: Vec<DOp>, f: u32, h: i64, chars: Vec<(u32, u32)>, v: i64, vars: [i64; 4]| Golden::Values { ops, f, h, chars, v, vars };
    g.extend(vec![
        vg(vec![Fnt(3), Fnt(3)], 3, 0, vec![], 0, [0; 4]),
        vg(vec![Fnt(3), Push, Fnt(5), Pop], 5, 0, vec![], 0, [0; 4]),
        vg(vec![SetVar(V::W, 5), SetVar(V::W, 5)], 0, 10, vec![], 0, [5, 0, 0, 0]),
        vg(vec![SetVar(V::W, 5), Push, SetVar(V::W, 3), Pop], 0, 5, vec![], 0, [5, 0, 0, 0]),
        vg(vec![SetVar(V::W, 5), SetVar(V::W, 0), SetVar(V::W, 0)], 0, 5, vec![], 0, [0; 4]),
        vg(vec![SetVar(V::W, 5), Move(V::W)], 0, 10, vec![], 0, [5, 0, 0, 0]),
        vg(vec![SetVar(V::X, 5), SetVar(V::X, 5), Move(V::X)], 0, 15, vec![], 0, [0, 5, 0, 0]),
        vg(vec![SetVar(V::Y, 5), SetVar(V::Y, 5), Move(V::Y)], 0, 0, vec![], 15, [0, 0, 5, 0]),
        vg(vec![SetVar(V::Z, 5), SetVar(V::Z, 5), Move(V::Z)], 0, 0, vec![], 15, [0, 0, 0, 5]),
        vg(vec![Right(5)], 0, 5, vec![], 0, [0; 4]),
        vg(vec![Down(5)], 0, 0, vec![], 5, [0; 4]),
        vg(vec![Rule { height: 2, width: 3, set: true }], 0, 3, vec![], 0, [0; 4]),
        vg(vec![Rule { height: 2, width: 3, set: false }], 0, 0, vec![], 0, [0; 4]),
        vg(vec![SetVar(V::W, 1), SetVar(V::X, 2), SetVar(V::Y, 3), SetVar(V::Z, 4), Bop { c: [0; 10], p: 1 }], 0, 0, vec![], 0, [0; 4]),
        vg(vec![Eop], 0, 0, vec![], 0, [0; 4]),
        vg(vec![Char { c: 1, set: true }], 0, 0, vec![(1, 0)], 0, [0; 4]),
        vg(vec![Char { c: 1, set: false }], 0, 0, vec![], 0, [0; 4]),
        vg(vec![Push, Char { c: 1, set: true }, Pop], 0, 0, vec![], 0, [0; 4]),
        // doc test of Values::h
        vg(vec![Right(1), Fnt(2), Char { c: 68, set: true }, Char { c: 86, set: true }, Char { c: 73, set: true }], 2, 1, vec![(68, 2), (86, 2), (73, 2)], 0, [0; 4]),
        // doc test of Values
        vg(vec![SetVar(V::Y, 3), Push, SetVar(V::Y, 5), Pop], 0, 0, vec![], 3, [0, 0, 3, 0]),
    ]);
    g.push(Golden::Remover {
        ops: vec![SetVar(V::X, 3), Push, SetVar(V::X, 5), Move(V::X), Pop, Move(V::X)],
        want: vec![Right(3), Push, Right(5), Right(5), Pop, Right(3)],
    });
    g.push(Golden::Remover { ops: vec![SetVar(V::X, 3), Move(V::X), Char { c: 68, set: false }], want: vec![Right(3), Right(3), Char { c: 68, set: false }] });
    g
}

fn golden_oracle(g: &Golden, _case: &mut Case) -> Verdict {
    match g {
        Golden::Codec { bytes, op } => {
            let enc = m::encode(std::slice::from_ref(op), Dev::default());
            if &enc != bytes {
                return Verdict::Fail(format!("model encoder: {:?} -> {:?}, golden {:?}", op, enc, bytes));
            }
            let (ops, end) = m::decode(bytes, Dev::default());
            if end != End::Done || ops != vec![op.clone()] {
                return Verdict::Fail(format!("model decoder: {:?} -> {:?} {:?}, golden {:?}", bytes, ops, end, op));
            }
            Verdict::pass(true)
        }
        Golden::Values { ops, f, h, chars, v, vars } => {
            let t = m::track(ops);
            let ok = t.cur.h == *h && t.cur.v == *v && t.cur.vars == *vars && fonts_agree(chars, &t.cur.hw) && t.font.map_or(true, |x| x == *f);
            if !ok {
                return Verdict::Fail(format!("model tracker on {}: h={} hw={:?} v={} vars={:?} font={:?}; golden h={} chars={:?} v={} vars={:?} f={}", render(ops), t.cur.h, t.cur.hw, t.cur.v, t.cur.vars, t.font, h, chars, v, vars, f));
            }
            Verdict::pass(true)
        }
        Golden::Remover { ops, want } => {
            // the documented output must satisfy the model's notion of equivalence
            let (a, b) = (m::track(ops), m::track(want));
            if a.events != b.events || a.cur.h != b.cur.h || a.cur.v != b.cur.v {
                return Verdict::Fail(format!("model tracker does not consider the documented VarRemover example equivalent: {}", render(ops)));
            }
            Verdict::pass(true)
        }
    }
}

// ---------------------------------------------------------------------------------

pub fn run(ctx: &Ctx) {
    run_fuzz_raw(ctx, fuzz_entry);
    ctx.rule("roundtrip: proptest sequences of 0..200 ops over every Op variant with operands on and around every encoding boundary (0, +-2^7, +-2^15, +-2^23 each +-1, i32/u32 limits, fnt_num/set_char fast-path limits), strings = arbitrary Unicode of exactly 0..255 UTF-8 bytes, xxx payloads up to 2^24+1 bytes; non-trivial = some operand needs >= 2 bytes or a string/payload is present; plus a deterministic per-op sweep of +-W around every boundary. bytes_total: random bytes, opcode-biased bytes and truncations/byte edits of valid streams, plus every byte string of length <= 2 (3 in thorough); non-trivial = a multi-byte command was decoded or the data ended inside a command. var_remover: page-content sequences (<= 200 ops; push/pop balanced or not, several pages) compared through an independent DVItype-style tracker; non-trivial = a variable is set, pushed over, changed, popped and reused by w0/x0/y0/z0, or is non-zero at a bop and reused on the new page, and a character or rule is typeset while that motion is in effect; distinct = by op sequence");
    ctx.assume("strings (font area/name, preamble comment) are valid Unicode of at most 255 UTF-8 bytes: the writer truncates at 255 bytes and the reader decodes lossily, longer or non-UTF-8 strings are not expressible values");
    ctx.assume("post_post directly followed by fnt_num_52 (byte 223) cannot be expressed in the DVI format itself (the trailing 223 bytes of post_post absorb it); for such sequences the expected reading is the folded one (count of 223s increased), counted in class post_post_then_fnt_num_52");
    ctx.assume("num_223_bytes <= 400 and xxx payloads <= 2^24+1 bytes (memory), EndPostamble.num_223_bytes fits u32");
    ctx.assume("var_remover: |h|,|v| (integer parts) stay within 32 bits, by construction of the generator (a stream whose positions overflow is not a DVI); character advance widths are symbolic (char, font) as in dvi::Values::h");
    ctx.assume("the current font is undefined after bop (TeX §585); an undefined font in the model matches any font value reported by dvi::Values");
    ctx.assume("xxx commands are no-ops for positioning (DVItype): their page position is not compared");
    let tier = ctx.tier;

    run_list(ctx, "model_goldens", goldens(), golden_oracle);

    // (i)
    let n = tier.pick(80_000u64, 2_000_000u64);
    run_generated(ctx, "roundtrip", n, any_ops, |ops: &Vec<DOp>, case| roundtrip_oracle(ctx, ops, case));
    let sweep = sweep_cases(tier.pick(130, 5000), true);
    let total = sweep.len() as u64;
    run_indexed(
        ctx,
        "roundtrip_sweep",
        2 * total,
        false,
        |i| {
            let op = sweep[(i % total) as usize].clone();
            if i < total {
                vec![op]
            } else {
                // framed: the bytes before and after must not be touched
                vec![DOp::Fnt(52), op, DOp::Char { c: 223, set: true }, DOp::Pop]
            }
        },
        |ops: &Vec<DOp>, case| roundtrip_oracle(ctx, ops, case),
    );
    ctx.extra("roundtrip_sweep", "window_around_each_boundary", serde_json::json!(tier.pick(130, 5000)));

    // (ii)
    let n = tier.pick(300_000u64, 8_000_000u64);
    run_generated(ctx, "bytes_total", n, bcase_strategy, |c: &BCase, case| bytes_oracle(ctx, c, case));
    let hi: i64 = tier.pick(1 + 256 + 65536, 1 + 256 + 65536 + 16_777_216) - 1;
    run_range(ctx, "bytes_short_exhaustive", 0, hi, true, |i| {
        let b = short_bytes(i);
        bytes_check(ctx, &b, None).map(|(nt, _)| nt)
    });

    // (iii)
    let n = tier.pick(100_000u64, 2_500_000u64);
    run_generated(ctx, "var_remover", n, page_ops, |ops: &Vec<DOp>, case| remover_oracle(ops, case));
}


/// Entry point shared by the libFuzzer target and the `fuzz_raw` replay sub-check.
pub fn fuzz_entry(ctx: &Ctx, data: &[u8]) -> Verdict {
    bytes_oracle(ctx, &BCase::Raw(data.to_vec()), &mut Case::default())
}
