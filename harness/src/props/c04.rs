//! C04 Line breaking finds a solution iff one exists, and it is demerit-optimal.
//!
//! Generated horizontal lists × line widths × parameters are given to
//! `boxworks_knuthplass::LineBreaker::break_line_single_attempt` and judged by the
//! exhaustive evaluator `crate::models::kp_eval` (no active list, no deactivation, no
//! pruning). Break *positions* are never compared: the returned sequence is re-measured
//! by the model (legality, per-line badness, total demerits) and its total is compared
//! with the dynamic-programming optimum for the line count TeX's looseness rule selects.
//!
//! Sub-checks:
//! * `goldens`   — calibration of the model on the repository's TeX-verified traces: every
//!                 feasible break TeX printed (b, p, d) is recomputed by the model, and the
//!                 DP optimum must equal the total of TeX's chosen sequence;
//! * `witnesses` — hand-written minimal lists (two discardables after a break, kern break,
//!                 discretionary followed by glue, …);
//! * `generated` — the search (one call of `break_line_single_attempt` per case);
//! * `passes`    — the same lists given to `break_line_all_attempts` with independent
//!                 `\pretolerance`, `\tolerance`, `\emergencystretch` and a hyphenator that
//!                 inserts discretionaries: the pass that TeX §863/§873 says produces the
//!                 answer is determined with the model and the answer is judged for that pass.

use crate::engine::*;
use crate::models::kp_eval as kp;
use boxworks::ds;
use boxworks_knuthplass as bkp;
use common::{Glue, GlueOrder, Scaled};
use proptest::prelude::*;
use serde::{Deserialize, Serialize};

const PT: i32 = 65536;
/// glyph index of the hyphen character `-`
const HYPHEN: u8 = 8;
const N_GLYPHS: usize = 9;
/// bit of a glyph id that selects the second font (ids 0..=8: font 0, 16..=24: font 1)
const FONT1: u8 = 0x10;

// -------------------------------------------------------------------------------------
// Case representation

#[derive(Clone, Copy, Debug, Default, PartialEq, Eq, Serialize, Deserialize)]
pub struct GlueV {
    pub w: i32,
    pub st: i32,
    /// stretch order: 0 normal, 1 fil, 2 fill, 3 filll
    pub sto: u8,
    pub sh: i32,
}

#[derive(Clone, Debug, PartialEq, Eq, Serialize, Deserialize)]
pub enum Elem {
    /// glyph id: index into the width table (low four bits, mod 9) + `FONT1` for the second font
    Char(u8),
    /// `explicit` = `\kern`; otherwise `sub` selects the non-explicit kind: 0 font kern
    /// (`Normal`), 1 accent kern, 2 math kern (TeX's mu_glue subtype)
    Kern {
        w: i32,
        explicit: bool,
        #[serde(default)]
        sub: u8,
    },
}

#[derive(Clone, Debug, PartialEq, Eq, Serialize, Deserialize)]
pub enum Node {
    Char(u8),
    Kern {
        w: i32,
        explicit: bool,
        #[serde(default)]
        sub: u8,
    },
    Glue(GlueV),
    Penalty(i32),
    /// A discretionary; its `replace` nodes follow it in the list (replace_count = their number).
    Disc { pre: Vec<Elem>, post: Vec<Elem>, replace: Vec<Elem> },
}

#[derive(Clone, Debug, PartialEq, Eq, Serialize, Deserialize)]
pub struct KpCase {
    /// widths (sp) of the synthetic font 0: glyph i is character 'a'+i, glyph 8 is '-'
    pub glyphs: Vec<i32>,
    /// widths of the same nine characters in font 1 (empty in old replay files: font 1 unused)
    #[serde(default)]
    pub glyphs2: Vec<i32>,
    /// paragraph body; the check appends `\penalty10000` and `\parfillskip` as `break_line` does
    pub nodes: Vec<Node>,
    pub par_fill_skip: GlueV,
    /// width of line 1, 2, …; the last entry applies to all further lines
    pub line_widths: Vec<i32>,
    pub tolerance: i32,
    pub emergency_stretch: i32,
    pub force_solution: bool,
    pub line_penalty: i32,
    pub hyphen_penalty: i32,
    pub ex_hyphen_penalty: i32,
    pub adj_demerits: i32,
    pub double_hyphen_demerits: i32,
    pub final_hyphen_demerits: i32,
    pub left_skip: GlueV,
    pub right_skip: GlueV,
    pub looseness: i32,
}

// -------------------------------------------------------------------------------------
// Case -> implementation input and model input

struct SynthRepo {
    fonts: [Vec<i32>; 2],
}

fn glyph_index(g: u8) -> usize {
    (g & 0x0f) as usize % N_GLYPHS
}

fn glyph_font(g: u8) -> u32 {
    ((g & FONT1) != 0) as u32
}

fn glyph_char(g: u8) -> char {
    let i = glyph_index(g);
    if i == HYPHEN as usize {
        '-'
    } else {
        (b'a' + i as u8) as char
    }
}

/// Width of a glyph id according to the case (model side; a glyph of a font without a width
/// table has width 0, as `FontRepo::width` = None is treated by the breaker).
fn glyph_width(glyphs: &[i32], glyphs2: &[i32], g: u8) -> i64 {
    let table = if glyph_font(g) == 0 { glyphs } else { glyphs2 };
    table.get(glyph_index(g)).copied().unwrap_or(0) as i64
}

fn ds_char(g: u8) -> ds::Char {
    ds::Char { char: glyph_char(g), font: glyph_font(g) }
}

impl boxworks::FontRepo for SynthRepo {
    fn width(&self, c: char, font: u32) -> Option<Scaled> {
        let table = self.fonts.get(font as usize)?;
        let i = if c == '-' { HYPHEN as usize } else { (c as u32).checked_sub('a' as u32)? as usize };
        table.get(i).map(|w| Scaled(*w))
    }
    fn height(&self, _c: char, _font: u32) -> Option<Scaled> {
        Some(Scaled(5 * PT))
    }
    fn depth(&self, _c: char, _font: u32) -> Option<Scaled> {
        Some(Scaled(0))
    }
}

struct NoHyphenation;
impl boxworks::Hyphenator for NoHyphenation {
    fn hyphenate(&self, _list: &mut Vec<ds::Horizontal>) {}
}

fn order(o: u8) -> GlueOrder {
    match o & 3 {
        0 => GlueOrder::Normal,
        1 => GlueOrder::Fil,
        2 => GlueOrder::Fill,
        _ => GlueOrder::Filll,
    }
}

fn glue(g: &GlueV) -> Glue {
    Glue { width: Scaled(g.w), stretch: Scaled(g.st), stretch_order: order(g.sto), shrink: Scaled(g.sh), shrink_order: GlueOrder::Normal }
}

fn spec(g: &GlueV) -> kp::GlueSpec {
    kp::GlueSpec { width: g.w as i64, stretch: g.st as i64, stretch_order: g.sto & 3, shrink: g.sh as i64 }
}

fn kern(w: i32, explicit: bool, sub: u8) -> ds::Kern {
    let kind = if explicit {
        ds::KernKind::Explicit
    } else {
        match sub % 3 {
            0 => ds::KernKind::Normal,
            1 => ds::KernKind::Accent,
            _ => ds::KernKind::Math,
        }
    };
    ds::Kern { width: Scaled(w), kind }
}

fn kern_name(explicit: bool, sub: u8) -> &'static str {
    if explicit {
        "kern"
    } else {
        ["fontkern", "accentkern", "mathkern"][(sub % 3) as usize]
    }
}

fn elem_h(e: &Elem) -> ds::Horizontal {
    match e {
        Elem::Char(c) => ds::Horizontal::Char(ds_char(*c)),
        Elem::Kern { w, explicit, sub } => ds::Horizontal::Kern(kern(*w, *explicit, *sub)),
    }
}

fn elem_d(e: &Elem) -> ds::DiscretionaryElem {
    match e {
        Elem::Char(c) => ds::DiscretionaryElem::Char(ds_char(*c)),
        Elem::Kern { w, explicit, sub } => ds::DiscretionaryElem::Kern(kern(*w, *explicit, *sub)),
    }
}

fn build_list(c: &KpCase) -> Vec<ds::Horizontal> {
    let mut out = vec![];
    for n in &c.nodes {
        match n {
            Node::Char(g) => out.push(ds::Horizontal::Char(ds_char(*g))),
            Node::Kern { w, explicit, sub } => out.push(ds::Horizontal::Kern(kern(*w, *explicit, *sub))),
            Node::Glue(g) => out.push(ds::Horizontal::Glue(ds::Glue { kind: ds::GlueKind::Normal, value: glue(g) })),
            Node::Penalty(p) => out.push(ds::Horizontal::Penalty(ds::Penalty(*p))),
            Node::Disc { pre, post, replace } => {
                out.push(ds::Horizontal::Discretionary(ds::Discretionary {
                    pre_break: pre.iter().map(elem_d).collect(),
                    post_break: post.iter().map(elem_d).collect(),
                    replace_count: replace.len() as u32,
                }));
                for e in replace {
                    out.push(elem_h(e));
                }
            }
        }
    }
    // TeX §816 / `break_line`: \penalty10000 \parfillskip
    out.push(ds::Horizontal::Penalty(ds::Penalty::INFINITE));
    out.push(ds::Horizontal::Glue(ds::Glue { kind: ds::GlueKind::Normal, value: glue(&c.par_fill_skip) }));
    out
}

/// `Params` fields that duplicate an argument of `break_line_single_attempt` (tolerance,
/// emergency stretch) or are not a pass's business at all (`\pretolerance`, `\parfillskip`:
/// the list already ends with its own parfillskip glue).
#[derive(Clone, Copy)]
struct PassFields {
    pre_tolerance: i32,
    tolerance: i32,
    emergency_stretch: i32,
    par_fill_skip: GlueV,
}

/// Values no generated case uses for the corresponding argument: a breaker that reads the
/// field instead of its argument measures a different paragraph.
const DECOYS: PassFields = PassFields { pre_tolerance: 3, tolerance: 7, emergency_stretch: 1000 * PT, par_fill_skip: GlueV { w: 13 * PT, st: 5 * PT, sto: 2, sh: 2 * PT } };

fn impl_params(c: &KpCase, f: PassFields) -> bkp::Params {
    bkp::Params {
        adj_demerits: c.adj_demerits,
        broken_penalty: 100,
        double_hyphen_demerits: c.double_hyphen_demerits,
        club_penalty: 150,
        emergency_stretch: Scaled(f.emergency_stretch),
        ex_hyphen_penalty: c.ex_hyphen_penalty,
        final_hyphen_demerits: c.final_hyphen_demerits,
        final_widow_penalty: 150,
        hyphen_penalty: c.hyphen_penalty,
        inter_line_penalty: 0,
        left_skip: glue(&c.left_skip),
        line_penalty: c.line_penalty,
        looseness: c.looseness,
        par_fill_skip: glue(&f.par_fill_skip),
        pre_tolerance: f.pre_tolerance,
        right_skip: glue(&c.right_skip),
        tolerance: f.tolerance,
    }
}

fn model_params(c: &KpCase) -> kp::Params {
    kp::Params {
        line_penalty: c.line_penalty,
        hyphen_penalty: c.hyphen_penalty,
        ex_hyphen_penalty: c.ex_hyphen_penalty,
        adj_demerits: c.adj_demerits,
        double_hyphen_demerits: c.double_hyphen_demerits,
        final_hyphen_demerits: c.final_hyphen_demerits,
        left_skip: spec(&c.left_skip),
        right_skip: spec(&c.right_skip),
        looseness: c.looseness,
    }
}

/// The model's items are derived from the case directly (not from the boxworks list), so
/// the model side never touches repository code.
fn model_items(c: &KpCase) -> Vec<kp::Item> {
    let gw = |g: u8| glyph_width(&c.glyphs, &c.glyphs2, g);
    let ew = |e: &Elem| match e {
        Elem::Char(g) => gw(*g),
        Elem::Kern { w, .. } => *w as i64,
    };
    let sum = |v: &Vec<Elem>| if v.is_empty() { None } else { Some(v.iter().map(ew).sum::<i64>()) };
    let mut out = vec![];
    for n in &c.nodes {
        match n {
            Node::Char(g) => out.push(kp::Item::Solid(gw(*g))),
            // accent and math kerns are "not explicit" (tex.web tests only subtype = explicit)
            Node::Kern { w, explicit, .. } => out.push(kp::Item::Kern { width: *w as i64, explicit: *explicit }),
            Node::Glue(g) => out.push(kp::Item::Glue(spec(g))),
            Node::Penalty(p) => out.push(kp::Item::Penalty(*p)),
            Node::Disc { pre, post, replace } => {
                out.push(kp::Item::Disc { pre: sum(pre), post: sum(post), replace: replace.len() });
                for e in replace {
                    out.push(match e {
                        Elem::Char(g) => kp::Item::Solid(gw(*g)),
                        Elem::Kern { w, explicit, .. } => kp::Item::Kern { width: *w as i64, explicit: *explicit },
                    });
                }
            }
        }
    }
    out.push(kp::Item::Penalty(10000));
    out.push(kp::Item::Glue(spec(&c.par_fill_skip)));
    out
}

// -------------------------------------------------------------------------------------
// Rendering

fn pt(v: i64) -> String {
    crate::models::tex_arith::print_scaled(v)
}

fn glue_str(g: &GlueV) -> String {
    let mut s = format!("{}pt", pt(g.w as i64));
    if g.st != 0 {
        s.push_str(&format!(" plus {}{}", pt(g.st as i64), ["pt", "fil", "fill", "filll"][(g.sto & 3) as usize]));
    }
    if g.sh != 0 {
        s.push_str(&format!(" minus {}pt", pt(g.sh as i64)));
    }
    s
}

/// characters of font 1 are shown in upper case (the hyphen as `=`)
fn push_glyph(s: &mut String, g: u8) {
    let ch = glyph_char(g);
    if glyph_font(g) == 0 {
        s.push(ch)
    } else if ch == '-' {
        s.push('=')
    } else {
        s.push(ch.to_ascii_uppercase())
    }
}

fn elems_str(v: &[Elem]) -> String {
    let mut s = String::new();
    for e in v {
        match e {
            Elem::Char(c) => push_glyph(&mut s, *c),
            Elem::Kern { w, explicit, sub } => s.push_str(&format!("\\{}{}pt ", kern_name(*explicit, *sub), pt(*w as i64))),
        }
    }
    s
}

/// TeX-like rendering with list indices (`[i]`) at every node that is not a plain character.
fn render(c: &KpCase) -> String {
    let mut s = String::new();
    let mut widths: Vec<String> = vec![];
    for (i, w) in c.glyphs.iter().enumerate() {
        widths.push(format!("{}={}", glyph_char(i as u8), pt(*w as i64)));
    }
    s.push_str(&format!("glyph widths (pt): {}\n", widths.join(" ")));
    if !c.glyphs2.is_empty() {
        let w2: Vec<String> = c.glyphs2.iter().enumerate().map(|(i, w)| format!("{}={}", glyph_char(i as u8).to_ascii_uppercase(), pt(*w as i64))).collect();
        s.push_str(&format!("font 1 (upper case; hyphen shown as =, listed as -): {}\n", w2.join(" ")));
    }
    s.push_str(&format!(
        "line widths: [{}]  tolerance={} emergency_stretch={}pt force_solution={} looseness={}\n",
        c.line_widths.iter().map(|w| format!("{}pt", pt(*w as i64))).collect::<Vec<_>>().join(", "),
        c.tolerance,
        pt(c.emergency_stretch as i64),
        c.force_solution,
        c.looseness
    ));
    s.push_str(&format!(
        "\\linepenalty={} \\hyphenpenalty={} \\exhyphenpenalty={} \\adjdemerits={} \\doublehyphendemerits={} \\finalhyphendemerits={} \\leftskip={} \\rightskip={} \\parfillskip={}\n",
        c.line_penalty,
        c.hyphen_penalty,
        c.ex_hyphen_penalty,
        c.adj_demerits,
        c.double_hyphen_demerits,
        c.final_hyphen_demerits,
        glue_str(&c.left_skip),
        glue_str(&c.right_skip),
        glue_str(&c.par_fill_skip)
    ));
    s.push_str("list: ");
    let mut i = 0usize;
    for n in &c.nodes {
        match n {
            Node::Char(g) => {
                push_glyph(&mut s, *g);
                i += 1;
            }
            Node::Kern { w, explicit, sub } => {
                s.push_str(&format!("[{i}]\\{}{}pt ", kern_name(*explicit, *sub), pt(*w as i64)));
                i += 1;
            }
            Node::Glue(g) => {
                s.push_str(&format!(" [{i}]\\hskip {} ", glue_str(g)));
                i += 1;
            }
            Node::Penalty(p) => {
                s.push_str(&format!("[{i}]\\penalty{} ", p));
                i += 1;
            }
            Node::Disc { pre, post, replace } => {
                s.push_str(&format!("[{i}]\\discretionary{{{}}}{{{}}}{{{}}}", elems_str(pre), elems_str(post), elems_str(replace)));
                i += 1 + replace.len();
            }
        }
    }
    s.push_str(&format!("[{i}]\\penalty10000 [{}]\\hskip(parfillskip) [end={}]", i + 1, i + 2));
    s
}

fn describe_sequence(pass: &kp::Pass, seq: &kp::SeqEval) -> String {
    let mut s = String::new();
    for (k, l) in seq.lines.iter().enumerate() {
        let b = &pass.para.breaks[l.to];
        s.push_str(&format!(
            "  line {} ends at [{}]{:?}: natural {}pt (+{}pt{} −{}pt) to {}pt: b={} class={:?} p={} d={}{}\n",
            k + 1,
            b.pos,
            b.kind,
            pt(l.eval.totals.width),
            pt(l.eval.totals.stretch[0]),
            if l.eval.totals.infinitely_stretchable() { " +fil" } else { "" },
            pt(l.eval.totals.shrink),
            pt(l.eval.width),
            if l.eval.overfull() { "overfull".to_string() } else { l.eval.badness.to_string() },
            l.eval.fit,
            b.penalty,
            l.demerits,
            if l.feasible { "" } else { "  <- exceeds the tolerance" }
        ));
    }
    s.push_str(&format!("  total demerits {}\n", seq.total));
    s
}

// -------------------------------------------------------------------------------------
// Oracle

fn run_impl(c: &KpCase) -> Result<Option<Vec<usize>>, panics::PanicInfo> {
    let list = build_list(c);
    let repo = SynthRepo { fonts: [c.glyphs.clone(), c.glyphs2.clone()] };
    // the pass gets its tolerance and emergency stretch as arguments; the fields of the same
    // name hold decoys
    let params = impl_params(c, DECOYS);
    let widths: Vec<Scaled> = c.line_widths.iter().map(|w| Scaled(*w)).collect();
    panics::catch(|| {
        let mut lb = bkp::LineBreaker { params: &params, line_widths: &widths, line_indents: &[], debug_logger: None, hyphenator: &NoHyphenation };
        lb.break_line_single_attempt(&list, &repo, c.tolerance, Scaled(c.emergency_stretch), c.force_solution)
    })
}

/// What one evaluator (TeX, or TeX with named deviations) says about a case.
struct Analysis {
    para: kp::Paragraph,
    params: kp::Params,
    widths: Vec<i64>,
    dev: kp::Deviations,
    monotone: bool,
    solution: kp::Solution,
    choice: Option<kp::Choice>,
}

impl Analysis {
    fn pass<'a>(&'a self, c: &KpCase) -> kp::Pass<'a> {
        kp::Pass { para: &self.para, params: &self.params, line_widths: &self.widths, tolerance: c.tolerance, emergency_stretch: c.emergency_stretch as i64, dev: self.dev }
    }
}

fn analyse(c: &KpCase, dev: kp::Deviations) -> Analysis {
    let params = model_params(c);
    let para = kp::Paragraph::scan(&model_items(c), &params, dev);
    let widths: Vec<i64> = c.line_widths.iter().map(|w| *w as i64).collect();
    let (monotone, solution) = {
        let pass = kp::Pass { para: &para, params: &params, line_widths: &widths, tolerance: c.tolerance, emergency_stretch: c.emergency_stretch as i64, dev };
        (pass.monotone(), pass.solve())
    };
    let choice = solution.choose(c.looseness);
    Analysis { para, params, widths, dev, monotone, solution, choice }
}

enum Outcome {
    Agree { nontrivial: bool, seq: Option<kp::SeqEval> },
    Skip(&'static str),
    Mismatch(String),
}

const SKIP_NONMONOTONE: &str = "non-monotone instance (overfull not upward closed): outside the property";
const SKIP_PEAK: &str = "total demerits reach TeX's awful_bad (2^30-1): TeX itself is undefined";
const SKIP_TIE: &str = "exact demerit tie between different line counts under looseness";

/// The reason, if any, for which the full oracle does not apply to an instance.
fn skip_reason(c: &KpCase, a: &Analysis) -> Option<&'static str> {
    if !a.monotone {
        return Some(SKIP_NONMONOTONE);
    }
    if a.solution.peak + (c.adj_demerits as i64).abs() >= kp::AWFUL_BAD {
        return Some(SKIP_PEAK);
    }
    if let Some(ch) = &a.choice {
        if c.looseness != 0 && ch.best_count_tie {
            return Some(SKIP_TIE);
        }
    }
    None
}

/// An upper bound on the total demerits TeX can accumulate along any sequence of breaks of
/// this pass (recorded lines are within the threshold or have artificial demerits 0).
fn worst_case_total(c: &KpCase, a: &Analysis) -> i64 {
    let thr = c.tolerance.clamp(0, kp::INF_BAD) as i64;
    let lb = (c.line_penalty as i64).abs() + thr;
    let line = if lb >= 10_000 { 100_000_000 } else { lb * lb };
    let pen = a.para.breaks.iter().filter(|b| !b.forced()).map(|b| (b.penalty as i64) * (b.penalty as i64)).max().unwrap_or(0);
    let extra = (c.adj_demerits as i64).abs() + (c.double_hyphen_demerits as i64).abs().max((c.final_hyphen_demerits as i64).abs());
    a.para.breaks.len() as i64 * (line + pen + extra) + (c.adj_demerits as i64).abs()
}

/// What every breaking pass of TeX guarantees whether or not the instance satisfies the
/// preconditions of the full oracle (tex.web §851–§855: a non-final pass records a break only
/// if the line's badness is within the threshold; §854: in the final pass the active list
/// never becomes empty; and the exhaustive DP minimises over *every* feasible sequence):
///
/// * no panic (not demanded on `SKIP_PEAK` instances, where TeX's own arithmetic is undefined);
/// * `force_solution` ⇒ `Some`;
/// * `Some(s)` ⇒ `s` is a legal sequence (legal breakpoints, ascending, ends at the end of the
///   list, no line across a forced break);
/// * `Some(s)` in a non-final pass ⇒ every line of `s` is within the threshold;
/// * every line of `s` within the threshold ⇒ the DP is feasible and total(s) ≥ its minimum;
/// * on a monotone instance without overflow (only the looseness tie is in the way) the total of
///   `s` is the minimum for its own number of lines (with looseness ≠ 0 every line number is a
///   class of its own, §835).
///
/// `Some(message)` = one of these is violated.
fn unconditional_checks(c: &KpCase, a: &Analysis, got: &Result<Option<Vec<usize>>, panics::PanicInfo>, reason: &'static str) -> Option<String> {
    let got = match got {
        Ok(g) => g,
        Err(p) => {
            if reason == SKIP_PEAK {
                return None;
            }
            return Some(format!("break_line_single_attempt panicked at {}: {} (instance otherwise skipped: {reason})", p.site(), p.message));
        }
    };
    let pass = a.pass(c);
    let Some(breaks) = got else {
        // §854 keeps the last active node alive in the final pass unless a total exceeds
        // awful_bad (§855 `d<=minimal_demerits`); on a non-monotone instance TeX's totals need
        // not be the DP's minima, so the guard is a bound on the total of any sequence at all
        if c.force_solution && reason != SKIP_PEAK && worst_case_total(c, a) < kp::AWFUL_BAD {
            return Some(format!("implementation returned None in the final pass (force_solution=true), TeX §854 always produces a sequence (instance otherwise skipped: {reason})"));
        }
        return None;
    };
    let seq = match pass.evaluate(breaks) {
        Ok(s) => s,
        Err(e) => return Some(format!("implementation returned {:?}, which is not a legal sequence: {} (instance otherwise skipped: {reason})", breaks, e)),
    };
    if !seq.all_feasible {
        if !c.force_solution {
            return Some(format!(
                "implementation returned {:?} in a non-final pass; a line exceeds the tolerance {} (instance otherwise skipped: {reason})\n{}",
                breaks,
                c.tolerance,
                describe_sequence(&pass, &seq)
            ));
        }
        return None;
    }
    let Some(opt) = a.solution.optimum() else {
        return Some(format!("internal: implementation found a feasible sequence {:?} the DP did not (instance otherwise skipped: {reason})", breaks));
    };
    if seq.total < opt {
        return Some(format!("internal: implementation's sequence {:?} has total {} below the DP minimum {} (instance otherwise skipped: {reason})", breaks, seq.total, opt));
    }
    if reason == SKIP_TIE {
        let own = a.solution.by_count.get(&seq.lines.len()).map(|e| e.min);
        if own != Some(seq.total) {
            return Some(format!(
                "implementation returned {:?} with {} lines and total demerits {}; the minimum for {} lines is {:?} (line-count tie, the count itself is not judged)\n{}",
                breaks,
                seq.lines.len(),
                seq.total,
                seq.lines.len(),
                own,
                describe_sequence(&pass, &seq)
            ));
        }
    }
    None
}

/// Judge the implementation's answer against one evaluator.
fn judge(c: &KpCase, a: &Analysis, got: &Result<Option<Vec<usize>>, panics::PanicInfo>) -> Outcome {
    if let Some(reason) = skip_reason(c, a) {
        return match unconditional_checks(c, a, got, reason) {
            Some(msg) => Outcome::Mismatch(msg),
            None => Outcome::Skip(reason),
        };
    }
    let feasible = a.solution.feasible();
    let got = match got {
        Ok(g) => g,
        Err(p) => return Outcome::Mismatch(format!("break_line_single_attempt panicked at {}: {}", p.site(), p.message)),
    };
    let pass = a.pass(c);
    // (i) Some <=> feasible (and, with looseness, §873: the pass only succeeds if the
    // requested line count is met, unless it is the final pass)
    let expect_some = if c.force_solution {
        true
    } else if !feasible {
        false
    } else if c.looseness == 0 {
        true
    } else {
        a.choice.as_ref().unwrap().exact
    };
    let model_says = || -> String {
        let mut s = String::new();
        if !feasible {
            s.push_str("model: no feasible sequence of breakpoints exists\n");
        } else {
            let ch = a.choice.as_ref().unwrap();
            s.push_str(&format!(
                "model: feasible line counts {:?}; optimum {} demerits with {} lines; looseness {} selects {} lines ({}), minimum {} demerits\n",
                a.solution.by_count.iter().map(|(k, e)| (*k, e.min)).collect::<Vec<_>>(),
                a.solution.optimum().unwrap(),
                ch.best_count,
                c.looseness,
                ch.count,
                if ch.exact { "exactly as requested" } else { "as close as feasible" },
                ch.demerits
            ));
            if let Some(p) = a.solution.best_path.get(&ch.count) {
                s.push_str(&format!("model: one optimal sequence: {:?}\n", p));
                if let Ok(seq) = pass.evaluate(p) {
                    s.push_str(&describe_sequence(&pass, &seq));
                }
            }
        }
        s
    };
    match got {
        None => {
            if expect_some {
                return Outcome::Mismatch(format!("implementation returned None but a solution is required\n{}", model_says()));
            }
            Outcome::Agree { nontrivial: false, seq: None }
        }
        Some(breaks) => {
            // (ii) legality
            let seq = match pass.evaluate(breaks) {
                Ok(s) => s,
                Err(e) => return Outcome::Mismatch(format!("implementation returned {:?}, which is not a legal sequence: {}\n{}", breaks, e, model_says())),
            };
            if !expect_some {
                return Outcome::Mismatch(format!(
                    "implementation returned Some({:?}) but {}\nimplementation's sequence as measured by the model:\n{}{}",
                    breaks,
                    if feasible { "the requested looseness is not attainable and this is not the final pass (TeX §873)" } else { "no feasible sequence exists" },
                    describe_sequence(&pass, &seq),
                    model_says()
                ));
            }
            if !feasible {
                // final pass on an infeasible paragraph: any legal sequence is acceptable
                if seq.all_feasible {
                    return Outcome::Mismatch(format!("internal: implementation found a feasible sequence {:?} the DP did not", breaks));
                }
                return Outcome::Agree { nontrivial: false, seq: Some(seq) };
            }
            // (ii) every line within the tolerance
            if !seq.all_feasible {
                return Outcome::Mismatch(format!(
                    "implementation returned {:?}; a line exceeds the tolerance {} although feasible sequences exist\n{}{}",
                    breaks,
                    c.tolerance,
                    describe_sequence(&pass, &seq),
                    model_says()
                ));
            }
            // (iii) optimality for the selected line count
            let ch = a.choice.as_ref().unwrap();
            let (want_total, want_count) = if c.looseness == 0 { (a.solution.optimum().unwrap(), None) } else { (ch.demerits, Some(ch.count)) };
            if let Some(n) = want_count {
                if seq.lines.len() != n {
                    return Outcome::Mismatch(format!(
                        "implementation returned {:?} with {} lines; TeX's looseness rule selects {} lines\n{}{}",
                        breaks,
                        seq.lines.len(),
                        n,
                        describe_sequence(&pass, &seq),
                        model_says()
                    ));
                }
            }
            if seq.total != want_total {
                return Outcome::Mismatch(format!(
                    "implementation returned {:?} with total demerits {}; the minimum is {}\n{}{}",
                    breaks,
                    seq.total,
                    want_total,
                    describe_sequence(&pass, &seq),
                    model_says()
                ));
            }
            // non-trivial: >= 3 lines and >= 2 feasible sequences with different demerits
            // among those eligible (same count under looseness, all counts otherwise)
            let distinct = if c.looseness == 0 {
                let lo = a.solution.by_count.values().map(|e| e.min).min().unwrap();
                let hi = a.solution.by_count.values().map(|e| e.max).max().unwrap();
                lo != hi
            } else {
                let e = a.solution.by_count[&ch.count];
                e.min != e.max
            };
            Outcome::Agree { nontrivial: seq.lines.len() >= 3 && distinct, seq: Some(seq) }
        }
    }
}

fn flag_subsets(ctx: &Ctx) -> Vec<(kp::Deviations, String)> {
    let listed: Vec<&'static str> = kp::Deviations::FLAG_NAMES.iter().copied().filter(|f| ctx.known(&format!("flag:{f}"))).collect();
    let mut out = vec![];
    for size in 1..=listed.len() {
        for mask in 1u32..(1 << listed.len()) {
            if mask.count_ones() as usize != size {
                continue;
            }
            let mut d = kp::Deviations::NONE;
            let mut names = vec![];
            for (i, f) in listed.iter().enumerate() {
                if mask & (1 << i) != 0 {
                    d = d.with_flag(f);
                    names.push(format!("flag:{f}"));
                }
            }
            out.push((d, names.join("+")));
        }
    }
    out
}

/// Class counters for the shapes of list and parameters (independent of the answer).
fn shape_classes(c: &KpCase, case: &mut Case) {
    let discardable = |n: &Node| matches!(n, Node::Glue(_) | Node::Penalty(_) | Node::Kern { explicit: true, .. });
    match c.nodes.first() {
        Some(Node::Glue(_)) => case.class("edge: list starts with glue"),
        Some(Node::Penalty(_)) => case.class("edge: list starts with a penalty"),
        Some(Node::Kern { explicit: true, .. }) => case.class("edge: list starts with an explicit kern"),
        Some(Node::Disc { .. }) => case.class("edge: list starts with a discretionary"),
        _ => {}
    }
    case.class_if(c.nodes.last().map(discardable).unwrap_or(false), "edge: discardable run directly before \\penalty10000\\parfillskip");
    case.class_if(c.nodes.windows(2).any(|w| matches!((&w[0], &w[1]), (Node::Disc { .. }, Node::Disc { .. }))), "edge: two adjacent discretionaries");
    let mut words = 0usize;
    let mut in_word = false;
    for n in &c.nodes {
        let d = discardable(n);
        if !d && !in_word {
            words += 1;
        }
        in_word = !d;
    }
    case.class_if(words <= 3, "edge: paragraph of 0-3 words");
    // kern kinds
    let special = |e: bool, sub: u8| !e && sub % 3 != 0;
    let elem_special = |v: &Vec<Elem>| v.iter().any(|e| matches!(e, Elem::Kern { explicit, sub, .. } if special(*explicit, *sub)));
    let mut accent_or_math = false;
    for n in &c.nodes {
        match n {
            Node::Kern { explicit, sub, .. } => accent_or_math |= special(*explicit, *sub),
            Node::Disc { pre, post, replace } => accent_or_math |= elem_special(pre) || elem_special(post) || elem_special(replace),
            _ => {}
        }
    }
    case.class_if(accent_or_math, "kern kind: accent or math kern in the list");
    case.class_if(
        c.nodes.windows(2).any(|w| matches!((&w[0], &w[1]), (Node::Kern { explicit, sub, .. }, Node::Glue(_)) if special(*explicit, *sub))),
        "kern kind: accent or math kern directly before glue (glue must be a breakpoint, kern must not)",
    );
    case.class_if(
        c.nodes.windows(2).any(|w| discardable(&w[0]) && matches!(&w[1], Node::Kern { explicit, sub, .. } if special(*explicit, *sub))),
        "kern kind: accent or math kern directly after a discardable (must end the §837 skip)",
    );
    // fonts
    let f1 = |g: &u8| glyph_font(*g) == 1;
    let elem_f1 = |v: &Vec<Elem>| v.iter().any(|e| matches!(e, Elem::Char(g) if f1(g)));
    case.class_if(c.nodes.iter().any(|n| matches!(n, Node::Char(g) if f1(g))), "font: list has characters of font 1");
    case.class_if(c.nodes.iter().any(|n| matches!(n, Node::Disc { pre, post, .. } if elem_f1(pre) || elem_f1(post))), "font: pre/post-break text in font 1");
    case.class_if(c.nodes.iter().any(|n| matches!(n, Node::Disc { replace, .. } if elem_f1(replace))), "font: replaced characters in font 1");
    // dimensions
    let gmax = c.glyphs.iter().chain(c.glyphs2.iter()).copied().max().unwrap_or(0);
    case.class_if(gmax > 8 * PT && gmax <= 32 * PT, "dimensions scaled x4");
    case.class_if(gmax > 32 * PT, "dimensions scaled x16");
    let glues = || c.nodes.iter().filter_map(|n| if let Node::Glue(g) = n { Some(g) } else { None });
    case.class_if(glues().any(|g| g.w < 0), "negative glue component: width");
    case.class_if(glues().any(|g| g.st < 0 && g.sto == 0), "negative glue component: finite stretch");
    case.class_if(glues().any(|g| g.st < 0 && g.sto != 0), "negative glue component: infinite stretch");
    case.class_if(glues().any(|g| g.sh < 0), "negative glue component: shrink");
    case.class_if(c.par_fill_skip.w != 0 || c.par_fill_skip.sh != 0, "\\parfillskip with width or shrink");
    case.class_if(c.left_skip.sto != 0 || c.left_skip.w < 0 || c.right_skip.w < 0, "infinite \\leftskip or negative \\leftskip/\\rightskip width");
    let distinct: std::collections::BTreeSet<i32> = c.line_widths.iter().copied().collect();
    case.class_if(c.line_widths.len() >= 4, "line widths: 4-6 entries");
    case.class_if(distinct.len() >= 4 && c.looseness == 0, "line widths: >= 4 distinct, looseness 0");
    case.class_if(c.tolerance < 0, "tolerance < 0");
}

fn branch_classes(mask: u16, case: &mut Case, returned: bool) {
    use kp::branch as b;
    let names: [(u16, &'static str, &'static str); 8] = [
        (b::STRETCH_LARGE_DIVIDE, "badness (feasible candidate line): shortfall > 110pt, stretch >= 25.4pt (t/(s/297))", "badness (returned line): shortfall > 110pt, stretch >= 25.4pt (t/(s/297))"),
        (b::STRETCH_LARGE_SHORTCUT, "badness (feasible candidate line): shortfall > 110pt, 0 < stretch < 25.4pt (inf_bad)", "badness (returned line): shortfall > 110pt, 0 < stretch < 25.4pt (inf_bad)"),
        (b::STRETCH_NONPOSITIVE, "badness (feasible candidate line): underfull with total stretch <= 0 (inf_bad)", "badness (returned line): underfull with total stretch <= 0 (inf_bad)"),
        (b::STRETCH_SMALL, "badness (feasible candidate line): 0 < shortfall <= 110pt, finite stretch", "badness (returned line): 0 < shortfall <= 110pt, finite stretch"),
        (b::EXACT, "badness (feasible candidate line): exact fit", "badness (returned line): exact fit"),
        (b::SHRINK, "badness (feasible candidate line): shrinks", "badness (returned line): shrinks"),
        (b::NEGATIVE_SHRINK_TOTAL, "badness (feasible candidate line): negative total shrink", "badness (returned line): negative total shrink"),
        (b::NEGATIVE_STRETCH_TOTAL, "badness (feasible candidate line): negative total finite stretch", "badness (returned line): negative total finite stretch"),
    ];
    for (bit, cand, ret) in names {
        case.class_if(mask & bit != 0, if returned { ret } else { cand });
    }
}

/// Class counters of an instance as one pass sees it.
fn instance_classes(c: &KpCase, truth: &Analysis, case: &mut Case) {
    let nb = truth.para.breaks.len();
    case.class(match nb {
        0..=2 => "breakpoints: <3",
        3..=10 => "breakpoints: 3-10",
        11..=20 => "breakpoints: 11-20",
        21..=40 => "breakpoints: 21-40",
        _ => "breakpoints: >40",
    });
    case.class_if(c.looseness != 0, "looseness != 0");
    case.class_if(c.line_widths.windows(2).any(|w| w[0] != w[1]), "varying line widths");
    case.class_if(c.force_solution, "final pass (force_solution)");
    case.class_if(c.emergency_stretch != 0, "emergency stretch");
    case.class_if(truth.para.breaks.iter().any(|b| b.forced() && b.kind != kp::BreakKind::Final), "has forced break");
    case.class_if(truth.para.breaks.iter().any(|b| b.kind == kp::BreakKind::Disc), "has discretionary breakpoint");
    case.class_if(truth.para.breaks.iter().any(|b| b.kind == kp::BreakKind::Kern), "has kern breakpoint");
    let all_devs = kp::Deviations { break_width_covers_only_break_node: true, kern_break_width_sign_inverted: true, replaced_nodes_are_scanned: true, tolerance_not_clamped: false };
    let dev_para = kp::Paragraph::scan(&truth.para.items, &truth.params, all_devs);
    let list_touches_deviation = dev_para.breaks != truth.para.breaks;
    case.class_if(!list_touches_deviation, "list measured identically under every named deviation");
    // cancelling infinite stretch: some stretch of the list is infinite, yet a line exists in
    // which it sums to zero
    let n = truth.para.items.len();
    let cancels = (1..4).any(|o| truth.para.prefix.iter().any(|t| t.stretch[o] != 0) && truth.para.prefix[n].stretch[o] == 0);
    case.class_if(cancels, "infinite stretch of the whole list cancels to zero");
    shape_classes(c, case);
    branch_classes(truth.solution.feasible_branches, case, false);
}

/// Class counters of an answer the oracle agreed with.
fn agree_classes(c: &KpCase, truth: &Analysis, seq: &Option<kp::SeqEval>, case: &mut Case) {
    let feasible = truth.solution.feasible();
    case.class(if feasible { "feasible" } else { "infeasible" });
    if feasible {
        case.class_if(truth.solution.by_count.len() >= 2, "several feasible line counts");
        if let Some(ch) = &truth.choice {
            case.class_if(c.looseness != 0 && ch.exact && ch.count != ch.best_count, "looseness changes the line count");
            case.class_if(c.looseness != 0 && !ch.exact, "looseness not attainable");
        }
    }
    if let Some(seq) = seq {
        case.class(match seq.lines.len() {
            1 => "lines: 1",
            2 => "lines: 2",
            3..=4 => "lines: 3-4",
            5..=8 => "lines: 5-8",
            _ => "lines: >8",
        });
        if feasible {
            let fits: std::collections::BTreeSet<kp::Fit> = seq.lines.iter().map(|l| l.eval.fit).collect();
            case.class_if(fits.len() >= 2, "mixed fitness classes");
            case.class_if(seq.lines.windows(2).any(|w| (w[0].eval.fit as i32 - w[1].eval.fit as i32).abs() > 1), "adjacent lines with incompatible classes");
            let discs: Vec<bool> = seq.lines.iter().map(|l| truth.para.breaks[l.to].kind == kp::BreakKind::Disc).collect();
            case.class_if(discs.iter().any(|d| *d), "breaks at a discretionary");
            case.class_if(discs.windows(2).any(|w| w[0] && w[1]), "two consecutive hyphenated lines");
            case.class_if(seq.lines.len() >= 2 && discs[seq.lines.len() - 2], "hyphenated line before the last");
            case.class_if(seq.lines.iter().any(|l| truth.para.breaks[l.to].kind == kp::BreakKind::Kern), "breaks at a kern");
            case.class_if(seq.lines.iter().any(|l| truth.para.breaks[l.to].kind == kp::BreakKind::Penalty), "breaks at a penalty");
            let mut mask = 0u16;
            for l in &seq.lines {
                mask |= kp::badness_branch(&l.eval.totals, l.eval.width);
            }
            branch_classes(mask, case, true);
            let n = truth.para.items.len();
            case.class_if(truth.para.breaks[seq.lines[0].to].pos == 0 && n > 0, "returned: first line ends at node 0");
            if let Some(a) = seq.lines.last().and_then(|l| l.from) {
                case.class_if(truth.para.breaks[a].next_start == truth.para.prefix[n], "returned: last line has no material (\\parfillskip discarded after the break, §837)");
            }
            let distinct: std::collections::BTreeSet<i32> = c.line_widths.iter().copied().collect();
            case.class_if(distinct.len() >= 4 && c.looseness == 0 && seq.lines.len() >= 5, "line widths: >= 4 distinct, looseness 0, >= 5 lines returned");
        } else {
            case.class("final pass on an infeasible paragraph (legality only)");
        }
    }
}

/// After a mismatch against TeX: is it excused by a listed known deviation?
fn excuse(ctx: &Ctx, msg: String, rendering: String, rejudge: &dyn Fn(kp::Deviations) -> Outcome) -> Verdict {
    // Listed known deviations: excused only if the deviating evaluator agrees with
    // the implementation completely.
    for (dev, sig) in flag_subsets(ctx) {
        match rejudge(dev) {
            Outcome::Agree { .. } => return Verdict::Known(sig),
            Outcome::Skip(_) | Outcome::Mismatch(_) => {}
        }
    }
    // A listed deviation can make the implementation's own view of the list
    // non-monotone (or overflow its 32-bit totals); its pruning is then not exact
    // and nothing can be concluded from this instance.
    for (dev, _sig) in flag_subsets(ctx) {
        if let Outcome::Skip(_) = rejudge(dev) {
            return Verdict::Skip("instance is outside the property under a listed deviation of the implementation's measurement");
        }
    }
    Verdict::Fail(format!("{}\n{}", msg, rendering))
}

fn malformed(c: &KpCase) -> bool {
    c.line_widths.is_empty() || c.glyphs.len() != N_GLYPHS || !(c.glyphs2.is_empty() || c.glyphs2.len() == N_GLYPHS)
}

/// Diagnostic switch for sensitivity experiments only: with VP_C04_SKIPPED_ONLY=1 the sub-checks
/// `witnesses` and `generated` judge nothing but the instances the full oracle skips (to show
/// that the unconditional checks on them are live).
fn diag_skipped_only() -> bool {
    static F: std::sync::OnceLock<bool> = std::sync::OnceLock::new();
    *F.get_or_init(|| std::env::var("VP_C04_SKIPPED_ONLY").map(|v| v == "1").unwrap_or(false))
}

fn check(ctx: &Ctx, c: &KpCase, case: &mut Case) -> Verdict {
    if malformed(c) {
        return Verdict::Skip("malformed case");
    }
    let truth = analyse(c, kp::Deviations::NONE);
    let got = run_impl(c);
    if !case.replay && diag_skipped_only() && skip_reason(c, &truth).is_none() {
        return Verdict::Skip("diagnostic run: only skipped instances are judged");
    }
    instance_classes(c, &truth, case);

    let outcome = judge(c, &truth, &got);
    match outcome {
        Outcome::Skip(r) => {
            case.class_if(got.is_err(), "implementation panicked on a skipped instance");
            case.class_if(matches!(got, Ok(Some(_))), "skipped instance: returned sequence checked for legality, feasibility and total >= optimum");
            Verdict::Skip(r)
        }
        Outcome::Agree { nontrivial, seq } => {
            agree_classes(c, &truth, &seq, case);
            if nontrivial {
                case.class("non-trivial");
                case.note = Some(render(c));
            }
            Verdict::pass(nontrivial)
        }
        Outcome::Mismatch(msg) => excuse(ctx, msg, render(c), &|dev| judge(c, &analyse(c, dev), &got)),
    }
}

// -------------------------------------------------------------------------------------
// Pass sequencing (`break_line_all_attempts`, tex.web §863 and §873)

/// A paragraph for `break_line_all_attempts`. `case.tolerance` is `\tolerance`,
/// `case.emergency_stretch` is `\emergencystretch` (any sign); `case.force_solution` is unused.
#[derive(Clone, Debug, PartialEq, Eq, Serialize, Deserialize)]
pub struct PassCase {
    pub case: KpCase,
    pub pre_tolerance: i32,
    /// the hyphenator inserts `\discretionary{-}{}{}` after the second character of every
    /// run of four or more characters (otherwise it leaves the list alone)
    pub hyphenate: bool,
}

/// What the synthetic hyphenator does, on the case representation.
fn hyphenate_nodes(nodes: &[Node]) -> Vec<Node> {
    let mut out = Vec::with_capacity(nodes.len() + 8);
    let mut i = 0;
    while i < nodes.len() {
        if let Node::Char(_) = nodes[i] {
            let mut j = i;
            while j < nodes.len() && matches!(nodes[j], Node::Char(_)) {
                j += 1;
            }
            for (k, n) in nodes[i..j].iter().enumerate() {
                if k == 2 && j - i >= 4 {
                    let font = if let Node::Char(g) = nodes[i] { g & FONT1 } else { 0 };
                    out.push(Node::Disc { pre: vec![Elem::Char(HYPHEN | font)], post: vec![], replace: vec![] });
                }
                out.push(n.clone());
            }
            i = j;
        } else {
            out.push(nodes[i].clone());
            i += 1;
        }
    }
    out
}

/// Replaces the list by the prepared hyphenated one (the paragraph tail included).
struct PreparedHyphenator {
    list: Vec<ds::Horizontal>,
}

impl boxworks::Hyphenator for PreparedHyphenator {
    fn hyphenate(&self, list: &mut Vec<ds::Horizontal>) {
        *list = self.list.clone();
    }
}

/// One pass of the sequence tex.web §863/§873 prescribes.
#[derive(Clone, Debug)]
struct PassSpec {
    /// 1 = `\pretolerance` pass, 2 = `\tolerance` pass, 3 = emergency pass
    number: u8,
    case: KpCase,
}

/// §863: `threshold:=pretolerance; if threshold>=0 then … second_pass:=false; final_pass:=false
/// else begin threshold:=tolerance; second_pass:=true; final_pass:=(emergency_stretch<=0) end`;
/// at the end of the same loop, after a failed first pass `threshold:=tolerance;
/// second_pass:=true; final_pass:=(emergency_stretch<=0)`, after a failed second pass
/// `background[2]:=background[2]+emergency_stretch; final_pass:=true`. A pass ends the loop
/// (§873) when active nodes remain and `looseness=0`, or `actual_looseness=looseness`, or
/// `final_pass`. Hyphenation happens from the second pass on (§863 `if second_pass then …`,
/// §866 `if second_pass and auto_breaking`).
fn pass_sequence(pc: &PassCase) -> Vec<PassSpec> {
    let c = &pc.case;
    let hyphenated = if pc.hyphenate { hyphenate_nodes(&c.nodes) } else { c.nodes.clone() };
    let mut out = vec![];
    if pc.pre_tolerance >= 0 {
        out.push(PassSpec { number: 1, case: KpCase { tolerance: pc.pre_tolerance, emergency_stretch: 0, force_solution: false, ..c.clone() } });
    }
    let second_is_final = c.emergency_stretch <= 0;
    out.push(PassSpec { number: 2, case: KpCase { nodes: hyphenated.clone(), emergency_stretch: 0, force_solution: second_is_final, ..c.clone() } });
    if !second_is_final {
        out.push(PassSpec { number: 3, case: KpCase { nodes: hyphenated, force_solution: true, ..c.clone() } });
    }
    out
}

fn run_impl_passes(pc: &PassCase) -> Result<Vec<usize>, panics::PanicInfo> {
    let c = &pc.case;
    let mut list = build_list(c);
    let hyphenator = PreparedHyphenator { list: build_list(&KpCase { nodes: if pc.hyphenate { hyphenate_nodes(&c.nodes) } else { c.nodes.clone() }, ..c.clone() }) };
    let repo = SynthRepo { fonts: [c.glyphs.clone(), c.glyphs2.clone()] };
    let params = impl_params(c, PassFields { pre_tolerance: pc.pre_tolerance, tolerance: c.tolerance, emergency_stretch: c.emergency_stretch, par_fill_skip: c.par_fill_skip });
    let widths: Vec<Scaled> = c.line_widths.iter().map(|w| Scaled(*w)).collect();
    panics::catch(|| {
        let mut vlist = vec![];
        let mut lb = bkp::LineBreaker { params: &params, line_widths: &widths, line_indents: &[], debug_logger: None, hyphenator: &hyphenator };
        lb.break_line_all_attempts(&repo, &hyphenator, &mut vlist, &mut list)
    })
}

/// Would this pass, according to the evaluator, end with a sequence (`Ok(true)`), fail
/// (`Ok(false)`), or is that not decidable by the oracle (`Err(reason)`)?
fn pass_succeeds(c: &KpCase, a: &Analysis) -> Result<bool, &'static str> {
    if c.force_solution {
        return Ok(true);
    }
    // a pass without any feasible sequence fails whatever the shape of the instance: every
    // recorded break is within the threshold (§851–§855)
    if !a.solution.feasible() {
        return Ok(false);
    }
    if let Some(r) = skip_reason(c, a) {
        return Err(r);
    }
    Ok(c.looseness == 0 || a.choice.as_ref().unwrap().exact)
}

/// Judge the answer of `break_line_all_attempts` against one evaluator: find the pass that
/// produces the answer, then judge the answer as that pass's.
fn judge_passes(pc: &PassCase, dev: kp::Deviations, got: &Result<Vec<usize>, panics::PanicInfo>) -> (Outcome, Option<(PassSpec, Analysis)>) {
    let got1: Result<Option<Vec<usize>>, panics::PanicInfo> = match got {
        Ok(v) => Ok(Some(v.clone())),
        Err(p) => Err(p.clone()),
    };
    for spec in pass_sequence(pc) {
        let a = analyse(&spec.case, dev);
        match pass_succeeds(&spec.case, &a) {
            Err(r) => return (Outcome::Skip(r), None),
            Ok(false) => continue,
            Ok(true) => {
                let o = match judge(&spec.case, &a, &got1) {
                    Outcome::Mismatch(m) => Outcome::Mismatch(format!(
                        "break_line_all_attempts: TeX §863/§873 produces the answer in pass {} (tolerance {}, emergency stretch {}pt in the background, final={}{})\n{}",
                        spec.number,
                        spec.case.tolerance,
                        pt(spec.case.emergency_stretch as i64),
                        spec.case.force_solution,
                        if spec.number > 1 && pc.hyphenate { ", hyphenated list" } else { "" },
                        m
                    )),
                    o => o,
                };
                return (o, Some((spec, a)));
            }
        }
    }
    unreachable!("the last pass of the sequence is final")
}

fn render_passes(pc: &PassCase) -> String {
    let mut s = format!("\\pretolerance={} \\tolerance={} \\emergencystretch={}pt hyphenator active: {}\n", pc.pre_tolerance, pc.case.tolerance, pt(pc.case.emergency_stretch as i64), pc.hyphenate);
    s.push_str(&render(&pc.case));
    if pc.hyphenate {
        s.push_str("\nfrom the second pass on:\n");
        s.push_str(&render(&KpCase { nodes: hyphenate_nodes(&pc.case.nodes), ..pc.case.clone() }));
    }
    s
}

fn check_passes(ctx: &Ctx, pc: &PassCase, case: &mut Case) -> Verdict {
    if malformed(&pc.case) {
        return Verdict::Skip("malformed case");
    }
    let got = run_impl_passes(pc);
    case.class_if(pc.pre_tolerance < 0, "passes: \\pretolerance < 0 (no first pass)");
    case.class_if(pc.case.emergency_stretch < 0, "passes: \\emergencystretch < 0 (second pass is final)");
    case.class_if(pc.case.emergency_stretch > 0, "passes: \\emergencystretch > 0");
    case.class_if(pc.hyphenate && hyphenate_nodes(&pc.case.nodes) != pc.case.nodes, "passes: hyphenator changes the list");
    let (outcome, decided) = judge_passes(pc, kp::Deviations::NONE, &got);
    if let Some((spec, a)) = &decided {
        case.class(match (spec.number, spec.case.force_solution) {
            (1, _) => "passes: answer from pass 1 (\\pretolerance)",
            (2, false) => "passes: answer from pass 2 (\\tolerance), not final",
            (2, true) => "passes: answer from pass 2 (\\tolerance), final",
            _ => "passes: answer from pass 3 (emergency)",
        });
        instance_classes(&spec.case, a, case);
    }
    match outcome {
        Outcome::Skip(r) => Verdict::Skip(r),
        Outcome::Agree { nontrivial, seq } => {
            let (spec, a) = decided.as_ref().unwrap();
            agree_classes(&spec.case, a, &seq, case);
            // non-trivial: as for a single pass, judged on the pass that produces the answer
            let nt = nontrivial;
            if nt {
                case.class("non-trivial");
                case.note = Some(render_passes(pc));
            }
            Verdict::pass(nt)
        }
        Outcome::Mismatch(msg) => excuse(ctx, msg, render_passes(pc), &|dev| judge_passes(pc, dev, &got).0),
    }
}

// -------------------------------------------------------------------------------------
// Generator

fn grain_round(v: i32, grain: i32) -> i32 {
    if grain <= 1 {
        v
    } else {
        let q = (v as i64 + (grain as i64) / 2).div_euclid(grain as i64);
        (q * grain as i64) as i32
    }
}

fn glue_strategy() -> BoxedStrategy<GlueV> {
    (2 * PT..=5 * PT, 0..=3 * PT, 0u8..20, 0..=2 * PT, 0u8..200)
        .prop_map(|(w, st, sel, sh, odd)| {
            let sto = match sel {
                0 => 1,
                1 => {
                    if st % 2 == 0 {
                        2
                    } else {
                        3
                    }
                }
                _ => 0,
            };
            let mut g = GlueV { w, st, sto, sh };
            // half of the infinite glue is exactly 1fil/1fill/1filll so that a negative one can
            // cancel it
            if sto != 0 && odd % 2 == 0 {
                g.st = PT;
            }
            // 3.5%: one component negated
            match odd {
                0 | 1 => g.w = -g.w / 2,
                2 | 3 => g.st = -g.st,
                4 | 5 => g.sh = -g.sh,
                // \hskip 0pt plus -1fil
                6 => g = GlueV { w: 0, st: -PT, sto: 1, sh: 0 },
                _ => {}
            }
            g
        })
        .boxed()
}

fn penalty_strategy() -> BoxedStrategy<i32> {
    prop_oneof![2 => Just(-10000), 1 => Just(-20000), 8 => Just(-50), 8 => Just(0), 8 => Just(50), 2 => Just(9999), 4 => Just(10000), 1 => Just(20000)].boxed()
}

/// kind of a non-explicit kern: font kern 10, accent kern 1, math kern 1
fn sub_strategy() -> BoxedStrategy<u8> {
    prop_oneof![10 => Just(0u8), 1 => Just(1u8), 1 => Just(2u8)].boxed()
}

/// font bit of a glyph id: font 1 in one of six
fn font_strategy() -> BoxedStrategy<u8> {
    prop_oneof![5 => Just(0u8), 1 => Just(FONT1)].boxed()
}

fn elem_strategy(wild: bool) -> BoxedStrategy<Elem> {
    let ch = (0u8..8, font_strategy()).prop_map(|(c, f)| Elem::Char(c | f));
    let k = (prop_oneof![4 => 0..=2 * PT, 1 => -PT..0], sub_strategy()).prop_map(|(w, sub)| Elem::Kern { w, explicit: false, sub });
    if wild {
        let ke = prop_oneof![4 => 0..=2 * PT, 1 => -PT / 2..0].prop_map(|w| Elem::Kern { w, explicit: true, sub: 0 });
        prop_oneof![10 => ch, 2 => k, 1 => ke].boxed()
    } else {
        prop_oneof![10 => ch, 2 => k].boxed()
    }
}

fn disc_strategy(wild: bool) -> BoxedStrategy<Node> {
    let pre = prop_oneof![
        5 => font_strategy().prop_map(|f| vec![Elem::Char(HYPHEN | f)]),
        3 => Just(vec![]),
        1 => (0u8..8, font_strategy()).prop_map(|(c, f)| vec![Elem::Char(c | f), Elem::Char(HYPHEN | f)]),
    ];
    let post = prop_oneof![5 => Just(vec![]), 3 => prop::collection::vec(elem_strategy(wild), 1..=1), 2 => prop::collection::vec(elem_strategy(wild), 2..=2)];
    let replace = prop_oneof![6 => Just(vec![]), 2 => prop::collection::vec(elem_strategy(wild), 1..=1), 2 => prop::collection::vec(elem_strategy(wild), 2..=2)];
    (pre, post, replace).prop_map(|(pre, post, replace)| Node::Disc { pre, post, replace }).boxed()
}

/// 1–4 characters of one font with an occasional font (rarely accent or math) kern between
/// them or at the end (then the kern may stand directly before glue).
fn chars_strategy() -> BoxedStrategy<Vec<Node>> {
    let k = (prop_oneof![4 => 0..=PT, 1 => -PT / 2..0], sub_strategy()).prop_map(|(w, sub)| Node::Kern { w, explicit: false, sub });
    (prop::collection::vec(prop_oneof![14 => (0u8..8).prop_map(Node::Char), 1 => k], 1..=4), font_strategy())
        .prop_map(|(mut v, font)| {
            // a word fragment starts with a character
            if !matches!(v[0], Node::Char(_)) {
                v[0] = Node::Char(0);
            }
            for n in v.iter_mut() {
                if let Node::Char(g) = n {
                    *g |= font;
                }
            }
            v
        })
        .boxed()
}

fn word_strategy(wild: bool) -> BoxedStrategy<Vec<Node>> {
    // a discretionary, in 5% directly followed by a second one
    let second = prop_oneof![19 => Just(None), 1 => disc_strategy(wild).prop_map(Some)];
    let tail = prop::collection::vec((disc_strategy(wild), second, chars_strategy()), 0..=2);
    let tail = prop_oneof![5 => Just(vec![]), 4 => tail];
    let trailing = if wild { prop_oneof![8 => Just(None), 1 => disc_strategy(wild).prop_map(Some)].boxed() } else { Just(None).boxed() };
    // 4%: the word starts with a non-explicit kern (as an accented letter does, §1125): such a
    // kern stands directly after the separator and must end the §837 run of discardables
    let leading = prop_oneof![
        24 => Just(None),
        1 => (prop_oneof![4 => 0..=2 * PT, 1 => -PT / 2..0], 0u8..3).prop_map(|(w, sub)| Some(Node::Kern { w, explicit: false, sub })),
    ];
    (chars_strategy(), tail, trailing, leading)
        .prop_map(|(head, tail, trailing, leading)| {
            let mut v: Vec<Node> = leading.into_iter().collect();
            v.extend(head);
            for (d, d2, cs) in tail {
                v.push(d);
                if let Some(d2) = d2 {
                    v.push(d2);
                }
                v.extend(cs);
            }
            if let Some(d) = trailing {
                v.push(d);
            }
            v
        })
        .boxed()
}

/// What stands between two words.
fn separator_strategy(wild: bool) -> BoxedStrategy<Vec<Node>> {
    let g = || glue_strategy().prop_map(Node::Glue);
    let p = || penalty_strategy().prop_map(Node::Penalty);
    if !wild {
        // a single glue, or a single penalty directly between two words
        return prop_oneof![9 => g().prop_map(|n| vec![n]), 1 => p().prop_map(|n| vec![n])].boxed();
    }
    let k = || prop_oneof![5 => 0..=3 * PT, 1 => -PT / 2..0].prop_map(|w| Node::Kern { w, explicit: true, sub: 0 });
    let item = move || prop_oneof![12 => g(), 5 => p(), 2 => k()];
    prop_oneof![
        8 => g().prop_map(|n| vec![n]),
        2 => (k(), g()).prop_map(|(a, b)| vec![a, b]),
        2 => (p(), g()).prop_map(|(a, b)| vec![a, b]),
        2 => (g(), p(), g()).prop_map(|(a, b, c)| vec![a, b, c]),
        1 => (g(), g()).prop_map(|(a, b)| vec![a, b]),
        3 => prop::collection::vec(item(), 1..=3),
    ]
    .boxed()
}

/// Body of the paragraph and its number of words. 10% of the bodies have 1–3 words, 10% start
/// with a separator (glue, penalty, explicit kern, runs of them) or a discretionary instead of a
/// character, 10% end with a separator (which then stands directly before the
/// `\penalty10000\parfillskip` tail; `break_line` removes at most one trailing glue, so
/// `glue glue`, `glue penalty` or `kern` tails are real).
fn body_strategy(wild: bool) -> BoxedStrategy<(Vec<Node>, usize)> {
    let rest = prop_oneof![
        1 => prop::collection::vec((separator_strategy(wild), word_strategy(wild)), 0..=2),
        9 => prop::collection::vec((separator_strategy(wild), word_strategy(wild)), 3..=21),
    ];
    let lead = prop_oneof![
        18 => Just(vec![]),
        1 => separator_strategy(wild),
        1 => disc_strategy(wild).prop_map(|d| vec![d]),
    ];
    let trail = prop_oneof![9 => Just(vec![]), 1 => separator_strategy(wild)];
    (lead, word_strategy(wild), rest, trail)
        .prop_map(|(lead, first, rest, trail)| {
            let words = rest.len() + 1;
            let mut v = lead;
            v.extend(first);
            for (s, w) in rest {
                v.extend(s);
                v.extend(w);
            }
            v.extend(trail);
            (v, words)
        })
        .boxed()
}

fn skip_strategy(right: bool) -> BoxedStrategy<GlueV> {
    if right {
        prop_oneof![
            8 => Just(GlueV::default()),
            2 => (0..=10 * PT, 0..=20 * PT).prop_map(|(w, st)| GlueV { w, st, sto: 0, sh: 0 }),
            1 => (0..=3 * PT, 0..=3 * PT, 0..=2 * PT).prop_map(|(w, st, sh)| GlueV { w, st, sto: 0, sh }),
            1 => (0..=2 * PT).prop_map(|st| GlueV { w: 0, st, sto: 1, sh: 0 }),
            // negative width (a line wider than \hsize is allowed)
            1 => (-5 * PT..0, 0..=3 * PT).prop_map(|(w, st)| GlueV { w, st, sto: 0, sh: 0 }),
        ]
        .boxed()
    } else {
        prop_oneof![
            20 => Just(GlueV::default()),
            4 => (0..=10 * PT, 0..=3 * PT, 0..=PT).prop_map(|(w, st, sh)| GlueV { w, st, sto: 0, sh }),
            // \leftskip=0pt plus 1fil (centred or ragged-left text), negative \leftskip
            1 => Just(GlueV { w: 0, st: PT, sto: 1, sh: 0 }),
            1 => (-5 * PT..0).prop_map(|w| GlueV { w, st: 0, sto: 0, sh: 0 }),
        ]
        .boxed()
    }
}

#[derive(Clone, Debug)]
struct Knobs {
    tolerance: i32,
    emergency: i32,
    force: bool,
    line_penalty: i32,
    hyphen_penalty: i32,
    ex_hyphen_penalty: i32,
    adj: i32,
    dbl: i32,
    fin: i32,
    looseness: i32,
}

fn knobs_strategy() -> BoxedStrategy<Knobs> {
    let tolerance = prop_oneof![1 => Just(-1), 1 => Just(0), 1 => Just(50), 2 => Just(100), 5 => Just(200), 6 => Just(1000), 4 => Just(9999), 4 => Just(10000), 1 => Just(20000)];
    let emergency = prop_oneof![7 => Just(0), 3 => 1..=20 * PT];
    let force = prop_oneof![3 => Just(false), 1 => Just(true)];
    let line_penalty = prop_oneof![5 => Just(10), 1 => Just(0), 1 => Just(1), 1 => Just(100), 1 => Just(1000), 1 => Just(-3)];
    let hyph = || prop_oneof![8 => Just(50), 3 => Just(0), 2 => Just(-50), 2 => Just(500), 1 => Just(10000), 1 => Just(-10000)];
    let adj = prop_oneof![4 => Just(10000), 2 => Just(0), 1 => Just(100), 1 => Just(100000), 1 => Just(-1000)];
    let dbl = prop_oneof![4 => Just(10000), 2 => Just(0), 1 => Just(100000), 1 => Just(-5000)];
    let fin = prop_oneof![4 => Just(5000), 2 => Just(0), 1 => Just(50000), 1 => Just(-2000)];
    let looseness = prop_oneof![10 => Just(0), 2 => Just(1), 2 => Just(-1), 1 => Just(2), 1 => Just(-2)];
    (tolerance, emergency, force, line_penalty, hyph(), hyph(), adj, dbl, fin, looseness)
        .prop_map(|(tolerance, emergency, force, line_penalty, hyphen_penalty, ex_hyphen_penalty, adj, dbl, fin, looseness)| Knobs {
            tolerance,
            emergency,
            force,
            line_penalty,
            hyphen_penalty,
            ex_hyphen_penalty,
            adj,
            dbl,
            fin,
            looseness,
        })
        .boxed()
}

fn natural_width(glyphs: &[i32], glyphs2: &[i32], nodes: &[Node]) -> i64 {
    let gw = |g: u8| glyph_width(glyphs, glyphs2, g);
    let mut t = 0i64;
    for n in nodes {
        match n {
            Node::Char(g) => t += gw(*g),
            Node::Kern { w, .. } => t += *w as i64,
            Node::Glue(g) => t += g.w as i64,
            Node::Penalty(_) => {}
            Node::Disc { replace, .. } => {
                for e in replace {
                    t += match e {
                        Elem::Char(g) => gw(*g),
                        Elem::Kern { w, .. } => *w as i64,
                    };
                }
            }
        }
    }
    t
}

fn apply_grain(nodes: &mut [Node], grain: i32) {
    let fe = |v: &mut Vec<Elem>| {
        for e in v.iter_mut() {
            if let Elem::Kern { w, .. } = e {
                *w = grain_round(*w, grain);
            }
        }
    };
    for n in nodes.iter_mut() {
        match n {
            Node::Kern { w, .. } => *w = grain_round(*w, grain),
            Node::Glue(g) => {
                g.w = grain_round(g.w, grain);
                g.st = grain_round(g.st, grain);
                g.sh = grain_round(g.sh, grain);
            }
            Node::Disc { pre, post, replace } => {
                fe(pre);
                fe(post);
                fe(replace);
            }
            _ => {}
        }
    }
}

/// Multiply every dimension of the case by `k`.
fn apply_scale(glyphs: &mut [i32], nodes: &mut [Node], skips: [&mut GlueV; 3], k: i32) {
    let fe = |v: &mut Vec<Elem>| {
        for e in v.iter_mut() {
            if let Elem::Kern { w, .. } = e {
                *w *= k;
            }
        }
    };
    for g in glyphs.iter_mut() {
        *g *= k;
    }
    for n in nodes.iter_mut() {
        match n {
            Node::Kern { w, .. } => *w *= k,
            Node::Glue(g) => {
                g.w *= k;
                g.st *= k;
                g.sh *= k;
            }
            Node::Disc { pre, post, replace } => {
                fe(pre);
                fe(post);
                fe(replace);
            }
            _ => {}
        }
    }
    for g in skips {
        g.w *= k;
        g.st *= k;
        g.sh *= k;
    }
}

fn case_strategy() -> BoxedStrategy<KpCase> {
    // the two profiles (plain / wild separators) with equal weight; both strategy trees are built
    // once (a `prop_flat_map` over the profile would rebuild the tree for every case)
    let body = prop_oneof![1 => body_strategy(false), 1 => body_strategy(true)];
    // two width tables (font 0 and font 1) of nine glyphs each
    let glyphs = prop::collection::vec(2 * PT..=8 * PT, 2 * N_GLYPHS..=2 * N_GLYPHS);
    // dimensions are multiples of 1sp, 1/4pt or 1pt: coarse grains make exact demerit ties
    // between different sequences frequent
    let grain = prop_oneof![2 => Just(1i32), 2 => Just(PT / 4), 1 => Just(PT)];
    // everything times 1, 4 or 16: with 16 a 5pt glyph is 80pt wide, lines are thousands of
    // points long and shortfalls beyond 110pt (the second arm of §108) are common
    let scale = prop_oneof![6 => Just(1i32), 2 => Just(4i32), 2 => Just(16i32)];
    // target number of lines, the relative width of lines 1, 2, … (percent of the target) and
    // the number of explicit line widths (10%: four to six)
    let n_widths = prop_oneof![27 => Just(1usize), 9 => Just(2usize), 9 => Just(3usize), 2 => Just(4usize), 2 => Just(5usize), 1 => Just(6usize)];
    let shape = (0u8..8, prop::collection::vec(-30i32..=30, 1..=6), n_widths);
    let parfill = prop_oneof![
        16 => Just(GlueV { w: 0, st: PT, sto: 1, sh: 0 }),
        2 => Just(GlueV::default()),
        2 => (0..=20 * PT).prop_map(|st| GlueV { w: 0, st, sto: 0, sh: 0 }),
        // \parfillskip with natural width and shrink (and finite or infinite stretch)
        1 => (0..=10 * PT, 0..=20 * PT, 0..=3 * PT, 0u8..2).prop_map(|(w, st, sh, sto)| GlueV { w, st, sto, sh }),
    ];
    (glyphs, body, (grain, scale), shape, parfill, knobs_strategy(), skip_strategy(false), skip_strategy(true))
        .prop_map(|(mut glyphs, (mut nodes, words), (grain, scale), (lines_sel, pcts, n_widths), mut par_fill_skip, k, mut left_skip, mut right_skip)| {
            for g in glyphs.iter_mut() {
                *g = grain_round(*g, grain);
            }
            apply_grain(&mut nodes, grain);
            for g in [&mut par_fill_skip, &mut left_skip, &mut right_skip] {
                g.w = grain_round(g.w, grain);
                g.st = grain_round(g.st, grain);
                g.sh = grain_round(g.sh, grain);
            }
            let mut emergency = grain_round(k.emergency, grain);
            let mut glyphs2 = glyphs.split_off(N_GLYPHS);
            // TeX's totals are 32-bit: keep the natural width of the whole paragraph below
            // 2^29sp (8192pt) by lowering the scale where necessary
            let unscaled = natural_width(&glyphs, &glyphs2, &nodes).abs().max(1);
            let scale = [scale, 4, 1].into_iter().find(|k| unscaled * (*k as i64) < (1 << 29)).unwrap_or(1);
            if scale != 1 {
                apply_scale(&mut glyphs, &mut nodes, [&mut par_fill_skip, &mut left_skip, &mut right_skip], scale);
                for g in glyphs2.iter_mut() {
                    *g *= scale;
                }
                emergency *= scale;
            }
            let total = natural_width(&glyphs, &glyphs2, &nodes).max(0);
            // 1..=8 lines, biased to 3..5, at least two words per line; paragraphs of one to
            // three words are set in 1..=words lines
            let target = if words <= 3 { (lines_sel as i64 % words as i64) + 1 } else { [3i64, 4, 5, 2, 6, 3, 8, 4][lines_sel as usize % 8].min((words as i64 / 3).max(1)) };
            let base = total / target;
            let mut line_widths = vec![];
            for i in 0..n_widths {
                let pct = if i == 0 { pcts[0] / 3 } else { pcts[i % pcts.len()] };
                let w = (base * (100 + pct as i64) / 100).max(8 * PT as i64).min(i32::MAX as i64 / 4);
                line_widths.push(grain_round(w as i32, grain));
            }
            KpCase {
                glyphs,
                glyphs2,
                nodes,
                par_fill_skip,
                line_widths,
                tolerance: k.tolerance,
                emergency_stretch: emergency,
                force_solution: k.force,
                line_penalty: k.line_penalty,
                hyphen_penalty: k.hyphen_penalty,
                ex_hyphen_penalty: k.ex_hyphen_penalty,
                adj_demerits: k.adj,
                double_hyphen_demerits: k.dbl,
                final_hyphen_demerits: k.fin,
                left_skip,
                right_skip,
                looseness: k.looseness,
            }
        })
        .boxed()
}

/// Cases for `break_line_all_attempts`: a generated case plus independent `\pretolerance`
/// and a signed `\emergencystretch`.
fn pass_case_strategy() -> BoxedStrategy<PassCase> {
    let pre = prop_oneof![2 => Just(-1), 1 => Just(0), 3 => Just(50), 5 => Just(100), 3 => Just(200), 2 => Just(1000), 1 => Just(10000)];
    let tol = prop_oneof![1 => Just(50), 3 => Just(100), 6 => Just(200), 5 => Just(1000), 2 => Just(9999), 2 => Just(10000), 1 => Just(20000)];
    // sign and presence of \emergencystretch; the magnitude is the generated case's
    let emergency = prop_oneof![5 => Just(0i32), 4 => Just(1i32), 1 => Just(-1i32)];
    (case_strategy(), pre, tol, emergency, 1..=20 * PT, prop_oneof![1 => Just(false), 2 => Just(true)])
        .prop_map(|(mut case, pre_tolerance, tolerance, sign, magnitude, hyphenate)| {
            case.tolerance = tolerance;
            case.force_solution = false;
            let m = if case.emergency_stretch != 0 { case.emergency_stretch } else { magnitude };
            case.emergency_stretch = sign * m;
            PassCase { case, pre_tolerance, hyphenate }
        })
        .boxed()
}

// -------------------------------------------------------------------------------------
// Hand-written witnesses

fn base_case(nodes: Vec<Node>, width_pt: i32) -> KpCase {
    KpCase {
        glyphs: vec![5 * PT; N_GLYPHS],
        glyphs2: vec![7 * PT; N_GLYPHS],
        nodes,
        par_fill_skip: GlueV { w: 0, st: PT, sto: 1, sh: 0 },
        line_widths: vec![width_pt * PT],
        tolerance: 200,
        emergency_stretch: 0,
        force_solution: false,
        line_penalty: 10,
        hyphen_penalty: 50,
        ex_hyphen_penalty: 50,
        adj_demerits: 10000,
        double_hyphen_demerits: 10000,
        final_hyphen_demerits: 5000,
        left_skip: GlueV::default(),
        right_skip: GlueV::default(),
        looseness: 0,
    }
}

fn word(n: usize) -> Vec<Node> {
    (0..n).map(|i| Node::Char((i % 8) as u8)).collect()
}

/// Minimal lists, all with 5pt glyphs so that `abcd` is exactly 20pt wide. The first one
/// cannot be affected by any named deviation; each of the others isolates one way in
/// which a line start can be measured differently from TeX (tex.web §837, §840, §863, §869).
fn witnesses() -> Vec<KpCase> {
    let sp = |w: i32, st: i32, sh: i32| Node::Glue(GlueV { w: w * PT, st: st * PT, sto: 0, sh: sh * PT });
    let two_words = |between: Vec<Node>| {
        let mut n = word(4);
        n.extend(between);
        n.extend(word(4));
        n
    };
    let mut out = vec![];
    // W0: plain text, single glue between words
    {
        let mut n = vec![];
        for i in 0..6 {
            if i > 0 {
                n.push(sp(3, 2, 1));
            }
            n.extend(word(4));
        }
        out.push(base_case(n, 45));
    }
    // W1: discretionaries with pre-break, post-break and replaced material inside words,
    // single glue between words
    {
        let mut n = vec![];
        for i in 0..4 {
            if i > 0 {
                n.push(sp(3, 3, 1));
            }
            n.extend(word(3));
            n.push(Node::Disc { pre: vec![Elem::Char(HYPHEN)], post: vec![Elem::Char(1)], replace: vec![Elem::Char(2), Elem::Kern { w: PT / 2, explicit: false, sub: 0 }] });
            n.extend(word(3));
        }
        let mut c = base_case(n, 58);
        c.tolerance = 1000;
        out.push(c);
    }
    // W2 (DESIGN D9): abcd␣␣abcd at \hsize=20pt. TeX §837 passes over both glues: two lines
    // of exactly 20pt.
    out.push(base_case(two_words(vec![sp(3, 1, 1), sp(3, 1, 1)]), 20));
    // W3 (D9): glue penalty glue
    out.push(base_case(two_words(vec![sp(3, 1, 1), Node::Penalty(0), sp(3, 1, 1)]), 20));
    // W4 (D9): break at a penalty that is followed by glue
    out.push(base_case(two_words(vec![Node::Penalty(0), sp(3, 1, 1)]), 20));
    // W5 (D9, §840): discretionary with empty post-break list followed by glue; with
    // \exhyphenpenalty=-50 and \finalhyphendemerits=0 the break at the discretionary is optimal
    {
        let mut c = base_case(two_words(vec![Node::Disc { pre: vec![], post: vec![], replace: vec![] }, sp(3, 1, 1)]), 20);
        c.ex_hyphen_penalty = -50;
        c.final_hyphen_demerits = 0;
        out.push(c);
    }
    // W6: break at an explicit kern (followed by glue of width zero, so that D9 is not involved)
    out.push(base_case(two_words(vec![Node::Kern { w: 2 * PT, explicit: true, sub: 0 }, sp(0, 0, 0)]), 20));
    // W7 (§869): an explicit kern among the nodes replaced by a discretionary, followed by
    // glue, is not a breakpoint; the glue is (prev_p is the discretionary). Zero widths keep
    // D9 and the kern measurement out of the picture; \\exhyphenpenalty=10000 disables the
    // discretionary itself.
    {
        let mut n = word(4);
        n.push(Node::Disc { pre: vec![], post: vec![], replace: vec![Elem::Kern { w: 0, explicit: true, sub: 0 }] });
        n.push(sp(0, 0, 0));
        n.extend(word(4));
        let mut c = base_case(n, 20);
        c.ex_hyphen_penalty = 10000;
        out.push(c);
    }
    // W8 (§863): tolerance above 10000; every line is overfull
    {
        let mut n = vec![];
        for i in 0..3 {
            if i > 0 {
                n.push(sp(3, 1, 1));
            }
            n.extend(word(6));
        }
        let mut c = base_case(n, 20);
        c.tolerance = 20000;
        out.push(c);
    }
    let acc = |w: i32, sub: u8| Node::Kern { w: w * PT, explicit: false, sub };
    // W9 (§868): glue after an accent kern is a legal breakpoint (`subtype(prev_p)<>explicit`);
    // abcd + 1pt fills the 21pt line exactly
    out.push(base_case(two_words(vec![acc(1, 1), sp(3, 1, 1)]), 21));
    // W10 (§837): a math kern after the break glue is not discardable; it starts the second
    // line, which then fills its 21pt exactly (no \parfillskip stretch)
    {
        let mut c = base_case(two_words(vec![sp(3, 1, 1), acc(1, 2)]), 20);
        c.line_widths = vec![20 * PT, 21 * PT];
        c.par_fill_skip = GlueV::default();
        out.push(c);
    }
    // W11 (§866): an accent kern followed by glue is not a kern break; the only way to set
    // this in 20pt lines would be to break at the kern
    out.push(base_case(two_words(vec![sp(0, 0, 0), acc(0, 1), sp(0, 0, 0)]), 20));
    // W12 (§863 `prev_p:=cur_p`): glue at the very beginning is not a breakpoint, a penalty is
    {
        let mut n = vec![sp(3, 1, 1)];
        n.extend(two_words(vec![sp(3, 1, 1)]));
        out.push(base_case(n, 23));
        let mut n = vec![Node::Penalty(0)];
        n.extend(two_words(vec![sp(3, 1, 1)]));
        let mut c = base_case(n, 20);
        c.tolerance = 10000;
        out.push(c);
    }
    // W13 (§837): discardable run directly before \penalty10000\parfillskip: after a break at
    // the first trailing glue the whole tail is passed over and the last line is empty
    {
        let mut n = two_words(vec![sp(3, 1, 1)]);
        n.push(sp(3, 1, 0));
        n.push(sp(3, 0, 0));
        let mut c = base_case(n, 20);
        c.tolerance = 10000;
        out.push(c);
    }
    // W14 (§869): two adjacent discretionaries, the second with replaced text
    {
        let mut n = word(2);
        n.push(Node::Disc { pre: vec![Elem::Char(HYPHEN)], post: vec![], replace: vec![] });
        n.push(Node::Disc { pre: vec![Elem::Char(3), Elem::Char(HYPHEN)], post: vec![Elem::Char(4)], replace: vec![Elem::Char(5)] });
        n.extend(word(2));
        n.push(sp(3, 1, 1));
        n.extend(word(4));
        let mut c = base_case(n, 20);
        c.tolerance = 10000;
        out.push(c);
    }
    // W15: a word in font 1 (7pt glyphs) on a 28pt line, then a word in font 0 on a 20pt line
    {
        let mut n: Vec<Node> = (0..4).map(|i| Node::Char(i | FONT1)).collect();
        n.push(sp(3, 1, 1));
        n.extend(word(4));
        let mut c = base_case(n, 28);
        c.line_widths = vec![28 * PT, 20 * PT];
        c.par_fill_skip = GlueV::default();
        out.push(c);
    }
    out
}

/// Hand-written paragraphs for `break_line_all_attempts`: six 20pt words, 3pt plus 2pt minus
/// 1pt between them, 45pt lines: two words per line have badness 100.
fn pass_witnesses() -> Vec<PassCase> {
    let sp = |w: i32, st: i32, sh: i32| Node::Glue(GlueV { w: w * PT, st: st * PT, sto: 0, sh: sh * PT });
    let mut n = vec![];
    for i in 0..6 {
        if i > 0 {
            n.push(sp(3, 2, 1));
        }
        n.extend(word(4));
    }
    let mk = |pre: i32, tol: i32, em: i32, hyphenate: bool| {
        let mut c = base_case(n.clone(), 45);
        c.tolerance = tol;
        c.emergency_stretch = em;
        PassCase { case: c, pre_tolerance: pre, hyphenate }
    };
    vec![
        // answer from pass 1
        mk(100, 200, 0, false),
        // pass 1 fails (b = 100 > 50), pass 2 is final and succeeds
        mk(50, 200, 0, false),
        // pass 2 is not final and succeeds
        mk(50, 200, 10 * PT, false),
        // passes 1 and 2 fail, the emergency pass succeeds (b = 0 with 22pt of stretch)
        mk(50, 50, 20 * PT, false),
        // no first pass
        mk(-1, 200, 0, false),
        // \emergencystretch < 0: the second pass is the final one (§863 `emergency_stretch<=0`).
        // Four lines are not feasible, so with \looseness=1 only a final pass returns the three
        // lines of badness 100; a third pass with 1pt less stretch would find b = 799 > 200.
        {
            let mut p = mk(50, 200, -PT, false);
            p.case.looseness = 1;
            p
        },
        // the hyphenator's discretionaries exist from pass 2 on only: 33pt lines need them
        {
            let mut p = mk(200, 200, 0, true);
            p.case.line_widths = vec![33 * PT];
            p.case.tolerance = 10000;
            p
        },
    ]
}

// -------------------------------------------------------------------------------------
// Golden calibration: the repository's TeX-verified traces

#[derive(Clone, Debug, Serialize, Deserialize)]
pub struct Golden {
    pub name: String,
    pub input: String,
    pub widths: Vec<String>,
    pub log: String,
    /// (parameter, value) overrides of the plain TeX defaults; dimensions as TeX strings
    pub overrides: Vec<(String, String)>,
    pub ragged_text: bool,
}

fn goldens() -> Vec<Golden> {
    let g = |name: &str, input: &str, widths: &[&str], overrides: &[(&str, &str)], ragged_text: bool| Golden {
        name: name.to_string(),
        input: input.to_string(),
        widths: widths.iter().map(|s| s.to_string()).collect(),
        log: format!("{name}_log.txt"),
        overrides: overrides.iter().map(|(a, b)| (a.to_string(), b.to_string())).collect(),
        ragged_text,
    };
    let wh = "wolf_hall_input.txt";
    vec![
        g("wolf_hall_5in", wh, &["5in"], &[], false),
        g("wolf_hall_3in", wh, &["3in"], &[], false),
        g("wolf_hall_2in", wh, &["2in"], &[], false),
        g("wolf_hall_1in", wh, &["1in"], &[], false),
        g("wolf_hall_emergency_stretch", wh, &["1in"], &[("emergency_stretch", "10.0pt")], false),
        g("wolf_hall_emergency_stretch_2", wh, &["3in"], &[("emergency_stretch", "10.0pt")], false),
        g("wolf_hall_variable_widths", wh, &["5in", "4in", "3in", "4in"], &[], false),
        g("farewell_to_arms_looseness_plus_1", "farewell_to_arms_input.txt", &["3in"], &[("looseness", "1")], false),
        g("farewell_to_arms_looseness_minus_1", "farewell_to_arms_input.txt", &["5in"], &[("looseness", "-1")], false),
        g("wolf_hall_ragged_right", wh, &["5in"], &[("right_skip_stretch", "20.00003pt")], true),
        g("wolf_hall_adj_demerits", wh, &["3in"], &[("adj_demerits", "-10000")], false),
        g("wolf_hall_broken_penalty", wh, &["3in"], &[("broken_penalty", "500")], false),
        g("wolf_hall_club_penalty", wh, &["3in"], &[("club_penalty", "1000")], false),
        g("wolf_hall_double_hyphen_demerits", wh, &["3in"], &[("double_hyphen_demerits", "-100000")], false),
        g("wolf_hall_stone_eyed", "wolf_hall_stone_eyed_input.txt", &["3in"], &[], false),
        g("wolf_hall_ex_hyphen_penalty", "wolf_hall_stone_eyed_input.txt", &["3in"], &[("ex_hyphen_penalty", "-10000")], false),
        g("wolf_hall_final_hyphen_demerits", wh, &["3in"], &[("final_hyphen_demerits", "0")], false),
        g("wolf_hall_final_widow_penalty", wh, &["3in"], &[("final_widow_penalty", "1000")], false),
        g("wolf_hall_hyphen_penalty", wh, &["3in"], &[("hyphen_penalty", "10000")], false),
        g("wolf_hall_inter_line_penalty", wh, &["3in"], &[("inter_line_penalty", "100")], false),
        g("wolf_hall_left_skip", wh, &["3in"], &[("left_skip_width", "20.0pt")], false),
        g("wolf_hall_line_penalty", wh, &["3in"], &[("line_penalty", "100")], false),
        g("wolf_hall_par_fill_skip", wh, &["3in"], &[("par_fill_skip_zero", "1")], false),
        g("wolf_hall_pre_tolerance", wh, &["3in"], &[("pre_tolerance", "10000")], false),
        g("wolf_hall_right_skip", wh, &["3in"], &[("right_skip_stretch", "20.00003pt")], false),
        g("wolf_hall_tolerance", wh, &["3in"], &[("tolerance", "45")], false),
        g("alice_paragraph_1", "alice_paragraph_1.txt", &["10in"], &[], false),
        g("alice_paragraph_2", "alice_paragraph_2.txt", &["10in"], &[], false),
    ]
}

fn repo_dir() -> String {
    std::env::var("VP_REPO").unwrap_or_else(|_| "/repo".to_string())
}

#[derive(Clone, Debug)]
enum Event {
    Feasible { elem: usize, badness: i32, penalty: i32, demerits: i32, artificial: bool, prev_node: usize },
    Node { index: usize, line: usize, fit: u8, total: i32 },
    Selected(usize),
}

struct Recorder {
    inner: bkp::debug::TexLogger,
    events: Vec<Event>,
}

impl bkp::debug::Logger for Recorder {
    fn log_attempt(&mut self, attempt: bkp::debug::Attempt) {
        self.inner.log_attempt(attempt)
    }
    fn log_feasible_breakpoint(&mut self, list: &[ds::Horizontal], fb: bkp::debug::FeasibleBreakpoint) {
        self.events.push(Event::Feasible {
            elem: fb.elem_index,
            badness: fb.badness,
            penalty: fb.penalty,
            demerits: fb.demerits,
            artificial: fb.artificial_demerits,
            prev_node: fb.previous_node_index,
        });
        self.inner.log_feasible_breakpoint(list, fb)
    }
    fn log_new_active_node(&mut self, an: bkp::debug::NewActiveNode) {
        self.events.push(Event::Node { index: an.node_index, line: an.line_number, fit: an.fitness_class, total: an.total_demerits });
        self.inner.log_new_active_node(an)
    }
    fn log_selected_node(&mut self, node_index: usize) {
        self.events.push(Event::Selected(node_index));
    }
}

fn normalize_log(s: &str) -> String {
    let v: Vec<&str> = s.split('\n').map(|l| l.trim()).map(|l| l.strip_prefix(r"\customFont ").unwrap_or(l)).filter(|l| !l.is_empty()).collect();
    v.join("\n")
}

fn check_golden(g: &Golden, case: &mut Case) -> Verdict {
    use boxworks::TextPreprocessor;
    use boxworks_text as bwt;
    let repo = repo_dir();
    let dir = format!("{repo}/crates/boxworks-knuthplass/testdata");
    let read = |p: String| std::fs::read_to_string(&p).map_err(|e| format!("cannot read {p}: {e}"));
    let input = match read(format!("{dir}/{}", g.input)) {
        Ok(s) => s,
        Err(e) => return Verdict::Fail(e),
    };
    let want_log = match read(format!("{dir}/{}", g.log)) {
        Ok(s) => s,
        Err(e) => return Verdict::Fail(e),
    };
    let tfm_bytes = match std::fs::read(format!("{repo}/crates/tfm/corpus/computer-modern/cmr10.tfm")) {
        Ok(b) => b,
        Err(e) => return Verdict::Fail(format!("cannot read cmr10.tfm: {e}")),
    };
    let dimen = |s: &str| Scaled::parse_from_string(s).expect("dimension");

    // parameters, as in the repository's test table
    let mut params = bkp::Params::plain_tex_defaults();
    let mut text_params = bwt::Params::plain_tex_defaults();
    if g.ragged_text {
        text_params.space_skip = Glue { width: dimen("3.33298pt"), ..Default::default() };
        text_params.extra_space_skip = Glue { width: dimen("5.0pt"), ..Default::default() };
    }
    for (k, v) in &g.overrides {
        let int = || v.parse::<i32>().expect("integer override");
        match k.as_str() {
            "emergency_stretch" => params.emergency_stretch = dimen(v),
            "looseness" => params.looseness = int(),
            "right_skip_stretch" => params.right_skip = Glue { stretch: dimen(v), ..Default::default() },
            "left_skip_width" => params.left_skip = Glue { width: dimen(v), ..Default::default() },
            "adj_demerits" => params.adj_demerits = int(),
            "broken_penalty" => params.broken_penalty = int(),
            "club_penalty" => params.club_penalty = int(),
            "double_hyphen_demerits" => params.double_hyphen_demerits = int(),
            "ex_hyphen_penalty" => params.ex_hyphen_penalty = int(),
            "final_hyphen_demerits" => params.final_hyphen_demerits = int(),
            "final_widow_penalty" => params.final_widow_penalty = int(),
            "hyphen_penalty" => params.hyphen_penalty = int(),
            "inter_line_penalty" => params.inter_line_penalty = int(),
            "line_penalty" => params.line_penalty = int(),
            "par_fill_skip_zero" => params.par_fill_skip = Glue::ZERO,
            "pre_tolerance" => params.pre_tolerance = int(),
            "tolerance" => params.tolerance = int(),
            other => return Verdict::Fail(format!("unknown golden override {other}")),
        }
    }

    // the list, as the repository's tests build it
    let mut tfm_file = match tfm::File::deserialize(&tfm_bytes).0 {
        Ok(f) => f,
        Err(e) => return Verdict::Fail(format!("cmr10.tfm does not parse: {e:?}")),
    };
    let lig_kern_program = tfm::ligkern::CompiledProgram::compile_from_tfm_file(&mut tfm_file).0;
    let mut tp = bwt::TextPreprocessorImpl::new(text_params);
    tp.register_font(0, &tfm_file, lig_kern_program.clone());
    tp.activate_font(0);
    let mut list: Vec<ds::Horizontal> = vec![];
    for w in input.split_ascii_whitespace() {
        tp.add_word(w.trim_matches(' '), &mut list);
        tp.add_space(&mut list);
    }
    let mut font_repo: bwt::TfmFontRepo = Default::default();
    font_repo.register_font(0, tfm_file);
    let widths: Vec<Scaled> = g.widths.iter().map(|w| dimen(w)).collect();
    let hyphenator = boxworks_hyphenate::Hyphenator::plain_tex_en_us(lig_kern_program);

    // TeX §816
    if matches!(list.last(), Some(ds::Horizontal::Glue(_))) {
        list.pop();
    }
    list.push(ds::Horizontal::Penalty(ds::Penalty::INFINITE));
    list.push(ds::Horizontal::Glue(ds::Glue { kind: ds::GlueKind::Normal, value: params.par_fill_skip }));

    let mparams = kp::Params {
        line_penalty: params.line_penalty,
        hyphen_penalty: params.hyphen_penalty,
        ex_hyphen_penalty: params.ex_hyphen_penalty,
        adj_demerits: params.adj_demerits,
        double_hyphen_demerits: params.double_hyphen_demerits,
        final_hyphen_demerits: params.final_hyphen_demerits,
        left_skip: kp::GlueSpec { width: params.left_skip.width.0 as i64, stretch: params.left_skip.stretch.0 as i64, stretch_order: params.left_skip.stretch_order as u8, shrink: params.left_skip.shrink.0 as i64 },
        right_skip: kp::GlueSpec { width: params.right_skip.width.0 as i64, stretch: params.right_skip.stretch.0 as i64, stretch_order: params.right_skip.stretch_order as u8, shrink: params.right_skip.shrink.0 as i64 },
        looseness: params.looseness,
    };
    let mwidths: Vec<i64> = widths.iter().map(|w| w.0 as i64).collect();

    // the three passes of TeX §863, driven here so that every pass can be examined
    let log_text: std::rc::Rc<std::cell::RefCell<String>> = Default::default();
    let mut rec = Recorder { inner: bkp::debug::TexLogger::new(log_text.clone()), events: vec![] };
    let second_is_final = params.emergency_stretch.is_zero();
    let passes = [
        (bkp::debug::Attempt::First, params.pre_tolerance, Scaled::ZERO, false),
        (bkp::debug::Attempt::Second, params.tolerance, Scaled::ZERO, second_is_final),
        (bkp::debug::Attempt::Emergency, params.tolerance, params.emergency_stretch, true),
    ];
    let mut events_checked = 0usize;
    let mut totals_checked = false;
    let mut done = false;
    for (k, (attempt, tolerance, emergency, force)) in passes.iter().enumerate() {
        if done {
            break;
        }
        if k == 1 {
            use boxworks::Hyphenator;
            hyphenator.hyphenate(&mut list);
        }
        {
            use bkp::debug::Logger;
            rec.log_attempt(*attempt);
        }
        rec.events.clear();
        let result = {
            let mut lb = bkp::LineBreaker { params: &params, line_widths: &widths, line_indents: &[], debug_logger: Some(&mut rec), hyphenator: &hyphenator };
            lb.break_line_single_attempt(&list, &font_repo, *tolerance, *emergency, *force)
        };
        // model of this pass
        let items = match kp::items_from_hlist(&list, &font_repo) {
            Ok(i) => i,
            Err(e) => return Verdict::Fail(e),
        };
        let para = kp::Paragraph::scan(&items, &mparams, kp::Deviations::NONE);
        let pass = kp::Pass { para: &para, params: &mparams, line_widths: &mwidths, tolerance: *tolerance, emergency_stretch: emergency.0 as i64, dev: kp::Deviations::NONE };
        // node index -> (break index in the model, lines so far, fitness)
        let mut nodes: std::collections::BTreeMap<usize, (Option<usize>, usize, kp::Fit)> = Default::default();
        nodes.insert(0, (None, 0, kp::Fit::Decent));
        let mut pending_elem: Option<usize> = None;
        let mut artificial_seen = false;
        let mut selected: Option<usize> = None;
        let mut node_total: std::collections::BTreeMap<usize, i32> = Default::default();
        for ev in &rec.events {
            match ev {
                Event::Feasible { elem, badness, penalty, demerits, artificial, prev_node } => {
                    pending_elem = Some(*elem);
                    let Some(to) = para.break_index(*elem) else {
                        return Verdict::Fail(format!("{}: TeX's trace has a feasible break at list position {elem}, which the model does not consider a legal breakpoint", g.name));
                    };
                    let Some((from, line, prev_fit)) = nodes.get(prev_node).copied() else {
                        return Verdict::Fail(format!("{}: trace refers to unknown node @@{prev_node}", g.name));
                    };
                    let le = pass.line(from, to, line);
                    let b = &para.breaks[to];
                    let prev_hyph = from.map(|a| para.breaks[a].hyphenated).unwrap_or(false);
                    let d = kp::line_demerits(&mparams, le.badness, b.penalty, prev_fit, le.fit, prev_hyph, b.hyphenated, b.kind == kp::BreakKind::Final);
                    if le.badness != *badness || b.penalty != *penalty || (!*artificial && d != *demerits as i64) {
                        return Verdict::Fail(format!(
                            "{}: model disagrees with TeX's trace at list position {elem} via @@{prev_node}: TeX b={badness} p={penalty} d={demerits}{}, model b={} p={} d={d}",
                            g.name,
                            if *artificial { " (artificial)" } else { "" },
                            le.badness,
                            b.penalty
                        ));
                    }
                    artificial_seen |= *artificial;
                    events_checked += 1;
                }
                Event::Node { index, line, fit, total } => {
                    let Some(elem) = pending_elem else {
                        return Verdict::Fail(format!("{}: new active node without a feasible break", g.name));
                    };
                    let to = para.break_index(elem).unwrap();
                    nodes.insert(*index, (Some(to), *line, kp::FITS[*fit as usize]));
                    node_total.insert(*index, *total);
                }
                Event::Selected(n) => selected = Some(*n),
            }
        }
        if let Some(breaks) = result {
            done = true;
            // the sequence TeX chose, re-measured by the model
            let seq = match pass.evaluate(&breaks) {
                Ok(s) => s,
                Err(e) => return Verdict::Fail(format!("{}: TeX's breaks {:?} are not legal for the model: {e}", g.name, breaks)),
            };
            case.class_if(artificial_seen, "golden: chosen pass has artificial demerits (totals not comparable)");
            if !artificial_seen {
                let Some(sel) = selected else {
                    return Verdict::Fail(format!("{}: no selected node logged", g.name));
                };
                let tex_total = node_total[&sel] as i64;
                if !seq.all_feasible || seq.total != tex_total {
                    return Verdict::Fail(format!("{}: TeX's sequence has total {tex_total}; the model re-measures it as {} (all lines feasible: {})", g.name, seq.total, seq.all_feasible));
                }
                if !pass.monotone() {
                    return Verdict::Fail(format!("{}: golden paragraph is not monotone for the model", g.name));
                }
                let sol = pass.solve();
                let Some(ch) = sol.choose(params.looseness) else {
                    return Verdict::Fail(format!("{}: the DP finds no feasible sequence but TeX did", g.name));
                };
                let want = if params.looseness == 0 { sol.optimum().unwrap() } else { ch.demerits };
                if want != tex_total || (params.looseness != 0 && (ch.count != seq.lines.len() || !(ch.exact || *force))) {
                    return Verdict::Fail(format!(
                        "{}: DP optimum {want} (count {} exact {}) differs from TeX's total {tex_total} with {} lines; counts {:?}",
                        g.name,
                        ch.count,
                        ch.exact,
                        seq.lines.len(),
                        sol.by_count
                    ));
                }
                totals_checked = true;
                case.class("golden: DP optimum equals TeX's total");
                case.class_if(params.looseness != 0, "golden: looseness");
            }
        } else if !*force {
            // a failed pass: with looseness 0 the DP must find nothing either
            if params.looseness == 0 {
                if pass.monotone() && pass.solve().feasible() {
                    return Verdict::Fail(format!("{}: pass {} failed in TeX but the DP finds a feasible sequence", g.name, k + 1));
                }
                case.class("golden: failed pass confirmed infeasible by the DP");
            } else {
                let sol = pass.solve();
                if let Some(ch) = sol.choose(params.looseness) {
                    if ch.exact && !ch.best_count_tie {
                        return Verdict::Fail(format!("{}: pass {} failed in TeX but the DP says looseness {} is attainable", g.name, k + 1, params.looseness));
                    }
                }
                case.class("golden: failed pass (looseness not attainable) confirmed by the DP");
            }
        }
    }
    // the harness's reconstruction must reproduce the golden trace, otherwise the events
    // above are not TeX-verified
    let got_log = normalize_log(&log_text.borrow());
    if got_log != normalize_log(&want_log) {
        return Verdict::Fail(format!("{}: the trace produced here differs from the golden trace {} (reconstruction of the test set-up is wrong, or the implementation no longer matches TeX's trace)", g.name, g.log));
    }
    case.note = Some(format!("{}: {} feasible breaks of TeX's trace recomputed, totals compared: {}", g.name, events_checked, totals_checked));
    Verdict::pass(totals_checked)
}

// -------------------------------------------------------------------------------------

pub fn run(ctx: &Ctx) {
    ctx.rule(
        "generated: a case is a horizontal list over a 9-glyph synthetic font (words of characters with font kerns and discretionaries \
         [empty, '-' or 'x-' pre-break, 0-2 post-break items, 0-2 replaced items], separated by glue [2-5pt plus 0-3pt (10% fil/fill/filll) minus 0-2pt], \
         penalties from {-20000,-10000,-50,0,50,9999,10000,20000}, explicit kerns and runs of up to three such discardables; half of the lists use single glue/penalty separators only), \
         terminated by \\penalty10000\\parfillskip, with 1-3 line widths derived from the natural width (target 1-8 lines), tolerance in {0,50,100,200,1000,9999,10000,20000}, \
         all demerit/penalty parameters, left/right skip, emergency stretch, looseness -2..2 and force_solution. Non-trivial = the returned sequence has >= 3 lines AND \
         at least two feasible sequences eligible for selection (same line count when looseness != 0) have different total demerits; distinct by the whole case. \
         goldens: non-trivial = the DP optimum was compared with the total of TeX's chosen sequence (no artificial demerits in the chosen pass). \
         Since round 2 the generator also produces: characters of a second font with its own width table (per word fragment / discretionary element); accent and math kerns \
         (1:10 against font kerns); 10% paragraphs of 1-3 words, 10% lists starting with a separator or a discretionary, 10% ending with a separator directly before the tail, \
         5% discretionaries directly followed by another; 3.5% glue with one negated component (width, stretch, shrink, `plus -1fil`), half of the infinite glue exactly 1fil/1fill/1filll; \
         all dimensions times 4 or 16 (20% each, reduced where the paragraph would exceed 8192pt); 4-6 line widths in 10%; tolerance -1; \\parfillskip with width/shrink, \
         infinite or negative \\leftskip, negative \\rightskip. The Params fields pre_tolerance, tolerance, emergency_stretch and par_fill_skip hold decoy values that differ \
         from the arguments of the pass. passes: the same generator with independent \\pretolerance in {-1,0,50,100,200,1000,10000}, \\tolerance, \\emergencystretch \
         (50% zero, 40% positive, 10% negative) and in two thirds of the cases a hyphenator that inserts a discretionary into every run of >= 4 characters; non-trivial as for generated, \
         judged on the pass that produces the answer.",
    );
    ctx.assume("instances on which 'line from a to b is overfull' is not upward closed in b (for some line start a, some line width in use, b up to the next forced break) are skipped and counted, as the property states");
    ctx.assume("instances on which some total TeX's algorithm has to represent (best total to a state + one more line, + |adj_demerits|) reaches awful_bad = 2^30-1 are skipped and counted: TeX's own comparisons are undefined there");
    ctx.assume("with looseness != 0, instances where two different line counts attain exactly the same minimum total demerits are skipped and counted (TeX's choice then depends on the order of the active list)");
    ctx.assume("no math nodes, whatsits, boxes or rules in generated lists (the property quantifies over characters, kerns, glue, penalties and discretionaries); glue has finite shrink (TeX §825 rejects infinite shrink); a tolerance above 10000 means 10000 (TeX §863 clamps the threshold to inf_bad)");
    ctx.assume("break positions are never compared: the implementation's sequence is re-measured by the model and only legality, per-line badness and the total are judged");
    ctx.assume("with force_solution=true on an infeasible paragraph only legality of the returned sequence is checked (any forced sequence is acceptable)");
    ctx.assume("looseness in a non-final pass: when the requested looseness cannot be met exactly the pass returns None although feasible sequences exist (TeX §873: `if (actual_looseness=looseness) or final_pass then goto done`); the property's 'as far as feasible' is what the final pass returns");
    ctx.assume("instances skipped for one of the three reasons above are still judged on what holds without the precondition: no panic (except where totals overflow), final pass => Some (where no total can reach awful_bad), legality of every returned breakpoint, Some in a non-final pass => every line within the threshold (TeX §851-§855), all lines within the threshold => total demerits >= the exhaustive optimum, and under a looseness tie the total is the minimum for the returned line count");
    ctx.assume("kerns of kind Accent and Math are 'not explicit': tex.web §837, §866, §868, §879 test `subtype(p)=explicit` only, so such a kern is never a breakpoint, is not discardable, and glue after it is a legal breakpoint (TeX itself never leaves a mu_glue kern in a horizontal list; boxworks' data structure allows it)");
    ctx.assume("passes: the sequence of passes is tex.web §863/§873: a first pass at \\pretolerance without hyphenation unless \\pretolerance<0; a second pass at \\tolerance on the hyphenated list, final iff \\emergencystretch<=0; otherwise a final third pass with \\emergencystretch added to the background stretch. Which pass produces the answer is decided with the model (a pass fails iff the model says None is required); if that is undecidable for a pass before the answer (non-monotone, awful_bad, looseness tie with feasible sequences) the case is skipped");
    ctx.assume("dimensions: the natural width of a generated paragraph stays below 8192pt so that TeX's 32-bit totals cannot overflow; the breaker's 64-bit totals and the model's agree with TeX there");
    ctx.assume("the golden traces under crates/boxworks-knuthplass/testdata are TeX's own \\tracingparagraphs output (repository README); the model is calibrated on every feasible break they contain");

    // Diagnostic switch for sensitivity experiments only:
    // VP_C04_ONLY=goldens|witnesses|generated|pass_witnesses|passes restricts the run to one
    // sub-check (replays are unaffected).
    let only = if ctx.is_generate() { std::env::var("VP_C04_ONLY").ok() } else { None };
    let wanted = |name: &str| only.as_deref().map(|o| o == name).unwrap_or(true);

    // 1. calibration on the goldens
    if wanted("goldens") {
        run_list(ctx, "goldens", goldens(), |g: &Golden, case: &mut Case| check_golden(g, case));
    }

    // 2. hand-written witnesses
    if wanted("witnesses") {
        run_list(ctx, "witnesses", witnesses(), |c: &KpCase, case: &mut Case| check(ctx, c, case));
    }

    // 3. the search
    if wanted("generated") {
        let n = ctx.tier.pick(300_000, 6_000_000);
        run_generated(ctx, "generated", n, case_strategy, |c: &KpCase, case: &mut Case| check(ctx, c, case));
    }

    // 4. pass sequencing of break_line_all_attempts
    if wanted("pass_witnesses") {
        run_list(ctx, "pass_witnesses", pass_witnesses(), |c: &PassCase, case: &mut Case| check_passes(ctx, c, case));
    }
    if wanted("passes") {
        let n = ctx.tier.pick(60_000, 1_500_000);
        run_generated(ctx, "passes", n, pass_case_strategy, |c: &PassCase, case: &mut Case| check_passes(ctx, c, case));
    }
}
