//! C05 Compiled lig/kern programs equal direct interpretation; loops detected exactly.
//!
//! Oracle: `models::ligkern_interp` (TeX §1034–1040 on the raw instructions). Sub-checks:
//! * `calib_unit_run`, `calib_unit_compile`, `calib_compact_forms`, `calib_corpus_loops`,
//!   `calib_cmr10_facts`: the model is
//!   replayed on the repository's TeX-verified unit-test goldens, on TFtoPL's recorded verdicts
//!   for the corpus and on cmr10 before it is used;
//! * `ligkern` (4 letters, boundary character anywhere, padding), `ligkern_exact3` (3 letters, the
//!   ≤ 12-pair sub-space), `ligkern_dense2` (2 letters): generated programs × words;
//! * `cmr10_words`: compiled cmr10 against the interpreter on all short words over 12 characters.

use crate::engine::*;
use crate::models::ligkern_interp::{self as li, Deviations, Glyph, Item, Limits, Outcome, RawFont};
use proptest::prelude::*;
use serde::{Deserialize, Serialize};
use std::collections::{BTreeMap, BTreeSet, HashMap};
use tfm::ligkern::lang::{Instruction, Operation, PostLigOperation, Program};
use tfm::ligkern::{CompiledProgram, RunItem, RunOptions};
use tfm::{Char, FixWord};

// ------------------------------------------------------------------------------------------
// Generated case

const LETTERS: [u8; 4] = *b"abcd";
/// boundary character outside the alphabet
const OUTSIDE: u8 = b'r';
/// left and right character of the padding block
const PAD_LEFT: u8 = b'z';
const PAD_RIGHT: u8 = b'y';
/// a character that can be inserted but has no program and occurs in no word
const EXTRA: u8 = b'e';
/// stands in for the last letter when `CaseSpec::high` is set: a character code above 127
const HIGH: u8 = 0xE9;

fn text(word: &[u8]) -> String {
    word.iter().map(|b| *b as char).collect()
}

fn codes(s: &str) -> Vec<u8> {
    s.chars().map(|c| c as u32 as u8).collect()
}

const FORMS: [PostLigOperation; 8] = [
    PostLigOperation::RetainNeitherMoveToInserted, // =:
    PostLigOperation::RetainRightMoveToInserted,   // =:|
    PostLigOperation::RetainRightMoveToRight,      // =:|>
    PostLigOperation::RetainLeftMoveNowhere,       // |=:
    PostLigOperation::RetainLeftMoveToInserted,    // |=:>
    PostLigOperation::RetainBothMoveNowhere,       // |=:|
    PostLigOperation::RetainBothMoveToInserted,    // |=:|>
    PostLigOperation::RetainBothMoveToRight,       // |=:|>>
];

#[derive(Clone, Copy, Debug, PartialEq, Eq, Serialize, Deserialize)]
pub enum OpSpec {
    /// kern of k/16 design units
    Kern(i8),
    /// index into FORMS, index of the inserted letter (index = number of letters: the extra
    /// character `e`, which has no program)
    Lig { form: u8, insert: u8 },
}

#[derive(Clone, Copy, Debug, PartialEq, Eq, Serialize, Deserialize)]
pub struct InstrSpec {
    /// index into the right-character universe: the letters, then the boundary character when
    /// it lies outside the alphabet
    pub right: u8,
    pub op: OpSpec,
    /// 0..20. Inside a chain: 0..=15 continue, 16..=17 SKIP 1, 18 SKIP 2, 19 STOP.
    /// Last of a chain: 0..=15 STOP, 16..=18 fall through into the next chain, 19 SKIP 1.
    pub next: u8,
}

#[derive(Clone, Copy, Debug, PartialEq, Eq, Serialize, Deserialize)]
pub enum LabelSpec {
    /// the label stands in front of the symbol's own chain (and so enters the following chain
    /// when its own chain is empty)
    Own,
    /// the label stands in front of an arbitrary instruction (monotone pick over the program)
    At(u16),
    /// the symbol has no program
    Absent,
}

#[derive(Clone, Copy, Debug, PartialEq, Eq, Serialize, Deserialize)]
pub enum RbSpec {
    Absent,
    /// a letter of the alphabet
    Inside(u8),
    /// a character no word contains
    Outside,
}

#[derive(Clone, Copy, Debug, PartialEq, Eq, Serialize, Deserialize)]
pub struct PadSpec {
    /// the padding block stands in front of this chain
    pub before_chain: u8,
    pub len: u16,
}

#[derive(Clone, Copy, Debug, PartialEq, Eq, Serialize, Deserialize)]
pub struct ModeSpec {
    pub disable_left_boundary: bool,
    /// 0..=5 none, 6..=7 a letter, 8 the outside character
    pub right_boundary_override: u8,
}

#[derive(Clone, Debug, PartialEq, Eq, Serialize, Deserialize)]
pub struct CaseSpec {
    /// 2, 3 or 4
    pub letters: u8,
    /// one chain per letter plus, last, the left boundary's chain
    pub chains: Vec<Vec<InstrSpec>>,
    pub labels: Vec<LabelSpec>,
    pub rb: RbSpec,
    pub pad: Option<PadSpec>,
    /// build a TFM file (pack entry points, kerns to indices), serialise, read it back and use
    /// `compile_from_tfm_file` instead of handing the program to `compile` directly
    pub via_tfm: bool,
    /// the last letter of the alphabet is the character code 0xE9 instead of an ASCII letter
    #[serde(default)]
    pub high: bool,
    /// (when not `via_tfm`) put the program into a `pl::File` and use `compile_from_pl_file`
    #[serde(default)]
    pub via_pl: bool,
    pub words: Vec<(Vec<u8>, ModeSpec)>,
}

fn instr_strategy(nletters: u8, outside: bool, rich: bool) -> impl Strategy<Value = InstrSpec> {
    let nr = nletters + outside as u8;
    // the extra character is inserted by about one ligature instruction in twelve (rich only)
    let insert = if rich { prop_oneof![11 => 0..nletters, 1 => Just(nletters)].boxed() } else { (0..nletters).boxed() };
    let op = prop_oneof![
        1 => (-8i8..=8).prop_map(OpSpec::Kern),
        2 => (0u8..8, insert).prop_map(|(form, insert)| OpSpec::Lig { form, insert }),
    ];
    (0..nr, op, 0u8..20).prop_map(|(right, op, next)| InstrSpec { right, op, next })
}

fn label_strategy() -> impl Strategy<Value = LabelSpec> {
    prop_oneof![
        16 => Just(LabelSpec::Own),
        3 => any::<u16>().prop_map(LabelSpec::At),
        1 => Just(LabelSpec::Absent),
    ]
}

fn mode_strategy() -> impl Strategy<Value = ModeSpec> {
    (any::<bool>(), 0u8..9).prop_map(|(d, r)| ModeSpec { disable_left_boundary: d, right_boundary_override: r })
}

/// `rich = false`: `letters` letters, boundary character inside the alphabet or absent, no
/// padding — with three letters the sub-space of DESIGN.md on which at most 12 pairs exist.
/// `rich = true`: boundary character also outside the alphabet, padding blocks, an inserted
/// character outside the alphabet, optionally a letter with a code above 127.
pub fn case_strategy(letters: u8, rich: bool) -> impl Strategy<Value = CaseSpec> {
    let head = if !rich {
        (
            Just(letters),
            prop_oneof![2 => Just(RbSpec::Absent), 5 => (0u8..letters).prop_map(RbSpec::Inside)].boxed(),
            Just(None::<PadSpec>).boxed(),
            prop_oneof![5 => Just(false), 1 => Just(true)].boxed(),
            Just(false).boxed(),
        )
    } else {
        (
            Just(letters),
            prop_oneof![2 => Just(RbSpec::Absent), 3 => (0u8..letters).prop_map(RbSpec::Inside), 3 => Just(RbSpec::Outside)].boxed(),
            prop_oneof![12 => Just(None), 1 => (0u8..=letters, 230u16..300).prop_map(|(b, l)| Some(PadSpec { before_chain: b, len: l }))].boxed(),
            prop_oneof![3 => Just(false), 1 => Just(true)].boxed(),
            prop_oneof![7 => Just(false), 1 => Just(true)].boxed(),
        )
    };
    head.prop_flat_map(move |(letters, rb, pad, via_tfm, high)| {
        let outside = rb == RbSpec::Outside;
        let n = letters as usize;
        (
            proptest::collection::vec(proptest::collection::vec(instr_strategy(letters, outside, rich), 0..=4), n + 1),
            proptest::collection::vec(label_strategy(), n + 1),
            proptest::collection::vec((proptest::collection::vec(0..letters, 1..=6), mode_strategy()), 5),
        )
            .prop_map(move |(chains, labels, words)| CaseSpec {
                letters,
                chains,
                labels,
                rb,
                pad,
                // a padded program is mostly sent through the TFM route: that is where entry
                // points above 255 need redirection
                via_tfm: via_tfm || (pad.is_some() && words[0].0[0] != 0),
                high,
                via_pl: words[1].0[0] == 0 && words[1].1.right_boundary_override < 4,
                words,
            })
    })
}

pub struct Built {
    pub program: Program,
    pub entrypoints: HashMap<Char, u16>,
    pub font: RawFont,
    pub letters: Vec<u8>,
    pub shared_instruction: bool,
    pub uses_skip: bool,
}

fn design_size() -> FixWord {
    FixWord::ONE * 10
}

pub fn build(spec: &CaseSpec) -> Built {
    let n = (spec.letters as usize).clamp(1, 4);
    let mut letters: Vec<u8> = LETTERS[..n].to_vec();
    if spec.high {
        letters[n - 1] = HIGH;
    }
    let mut rights = letters.clone();
    if spec.rb == RbSpec::Outside {
        rights.push(OUTSIDE);
    }
    let mut flat: Vec<Instruction> = vec![];
    let mut chain_start = vec![0usize; n + 1];
    let mut pad_start = None;
    for (i, start) in chain_start.iter_mut().enumerate() {
        if let Some(p) = spec.pad {
            if p.before_chain as usize % (n + 1) == i {
                pad_start = Some(flat.len());
                let len = p.len.clamp(1, 400) as usize;
                for j in 0..len {
                    flat.push(Instruction {
                        next_instruction: if j + 1 == len { None } else { Some(0) },
                        right_char: Char(PAD_RIGHT),
                        operation: Operation::Kern(FixWord(((j % 7) as i32 + 1) << 14)),
                    });
                }
            }
        }
        *start = flat.len();
        let chain = spec.chains.get(i).map(|c| c.as_slice()).unwrap_or(&[]);
        for (j, ins) in chain.iter().enumerate() {
            let last = j + 1 == chain.len();
            let next = if last {
                match ins.next % 20 {
                    0..=15 => None,
                    16..=18 => Some(0),
                    _ => Some(1),
                }
            } else {
                match ins.next % 20 {
                    0..=15 => Some(0),
                    16..=17 => Some(1),
                    18 => Some(2),
                    _ => None,
                }
            };
            let operation = match ins.op {
                OpSpec::Kern(k) => Operation::Kern(FixWord((k as i32) << 16)),
                OpSpec::Lig { form, insert } => Operation::Ligature {
                    char_to_insert: Char(if insert as usize == n { EXTRA } else { letters[insert as usize % n] }),
                    post_lig_operation: FORMS[form as usize % 8],
                    post_lig_tag_invalid: false,
                },
            };
            flat.push(Instruction { next_instruction: next, right_char: Char(rights[ins.right as usize % rights.len()]), operation });
        }
    }
    // Well-formedness (what PLtoTF emits and TFtoPL/TeX accept): every continuation stays
    // inside the program; the last instruction stops.
    let total = flat.len();
    let mut uses_skip = false;
    for (k, ins) in flat.iter_mut().enumerate() {
        if let Some(s) = ins.next_instruction {
            if k + s as usize + 1 >= total {
                ins.next_instruction = None;
            } else if s > 0 {
                uses_skip = true;
            }
        }
    }
    let mut entrypoints: HashMap<Char, u16> = HashMap::new();
    let mut left_boundary = None;
    for i in 0..=n {
        let at = match spec.labels.get(i).copied().unwrap_or(LabelSpec::Own) {
            LabelSpec::Own => Some(chain_start[i]),
            LabelSpec::At(p) => Some(pick_idx(p, total.max(1))),
            LabelSpec::Absent => None,
        };
        let Some(at) = at.filter(|a| *a < total) else { continue };
        if i == n {
            left_boundary = Some(at as u16);
        } else {
            entrypoints.insert(Char(letters[i]), at as u16);
        }
    }
    if let Some(p) = pad_start {
        entrypoints.insert(Char(PAD_LEFT), p as u16);
    }
    let program = Program {
        instructions: flat,
        left_boundary_char_entrypoint: left_boundary,
        right_boundary_char: match spec.rb {
            RbSpec::Absent => None,
            RbSpec::Inside(i) => Some(Char(letters[i as usize % n])),
            RbSpec::Outside => Some(Char(OUTSIDE)),
        },
        passthrough: Default::default(),
    };
    let mut ordered: Vec<(Char, u16)> = entrypoints.iter().map(|(c, e)| (*c, *e)).collect();
    ordered.sort();
    let font = RawFont::from_program(&program, ordered, &[]);
    // do two left symbols share an instruction?
    let mut owner: BTreeMap<usize, usize> = BTreeMap::new();
    let mut shared = false;
    for (li_, l) in font.lefts().into_iter().enumerate() {
        if l == Some(PAD_LEFT) {
            continue;
        }
        let start = match l {
            None => font.left_boundary_entry().unwrap(),
            Some(c) => font.entries()[&c],
        };
        for k in font.chain(start) {
            if let Some(o) = owner.insert(k, li_) {
                if o != li_ {
                    shared = true;
                }
            }
        }
    }
    Built { program, entrypoints, font, letters, shared_instruction: shared, uses_skip }
}

fn mode_of(m: ModeSpec, letters: &[u8]) -> (bool, Option<u8>) {
    let o = match m.right_boundary_override {
        6 | 7 => Some(letters[(m.right_boundary_override as usize) % letters.len()]),
        8 => Some(OUTSIDE),
        _ => None,
    };
    (m.disable_left_boundary, o)
}

// ------------------------------------------------------------------------------------------
// Driving the implementation

fn impl_items(compiled: &CompiledProgram, word: &str, default_run: bool, disable_left: bool, rbo: Option<u8>) -> Result<Vec<RunItem>, String> {
    const LIMIT: usize = 100_000;
    let r = panics::catch(|| {
        if default_run {
            compiled.run(word).take(LIMIT + 1).collect::<Vec<RunItem>>()
        } else {
            compiled
                .run_with_options(word.chars(), RunOptions { disable_left_boundary: disable_left, right_boundary_override: rbo.map(|c| c as char) })
                .take(LIMIT + 1)
                .collect::<Vec<RunItem>>()
        }
    });
    match r {
        Ok(v) if v.len() > LIMIT => Err(format!("RunIter yields more than {LIMIT} items for a word of {} characters", word.len())),
        Ok(v) => Ok(v),
        Err(p) => Err(format!("panic at {}: {}", p.site(), p.message)),
    }
}

fn impl_skeleton(items: &[RunItem]) -> Vec<Glyph> {
    items
        .iter()
        .map(|i| match i {
            RunItem::Char(c) => Glyph::Char(*c as u32 as u8),
            RunItem::Kern(k) => Glyph::Kern(k.0),
            RunItem::Ligature(l) => Glyph::Lig(l.c as u32 as u8),
        })
        .collect()
}

fn impl_spelled(items: &[RunItem]) -> String {
    let mut s = String::new();
    for i in items {
        match i {
            RunItem::Char(c) => s.push(*c),
            RunItem::Ligature(l) => s.push_str(&l.original),
            RunItem::Kern(_) => {}
        }
    }
    s
}

/// The implementation's output in the model's vocabulary (originals and boundary bits included).
fn impl_as_items(items: &[RunItem]) -> Vec<(Glyph, Vec<u8>, bool, bool)> {
    items
        .iter()
        .map(|i| match i {
            RunItem::Char(c) => (Glyph::Char(*c as u32 as u8), vec![], false, false),
            RunItem::Kern(k) => (Glyph::Kern(k.0), vec![], false, false),
            RunItem::Ligature(l) => (Glyph::Lig(l.c as u32 as u8), codes(&l.original), l.includes_left_boundary, l.includes_right_boundary),
        })
        .collect()
}

fn model_as_items(items: &[Item], ds: FixWord) -> Vec<(Glyph, Vec<u8>, bool, bool)> {
    items
        .iter()
        .map(|i| match i {
            Item::Char(c) => (Glyph::Char(*c), vec![], false, false),
            Item::Kern(k) => (Glyph::Kern(k.to_scaled(ds).0), vec![], false, false),
            Item::Lig { c, original, left_boundary, right_boundary } => (Glyph::Lig(*c), original.clone(), *left_boundary, *right_boundary),
        })
        .collect()
}

fn render_glyphs(g: &[Glyph]) -> String {
    let mut s = String::new();
    for x in g {
        match x {
            Glyph::Char(c) => s.push(*c as char),
            Glyph::Lig(c) => s.push_str(&format!("<{}>", *c as char)),
            Glyph::Kern(k) => s.push_str(&format!("[{}sp]", k)),
        }
    }
    s
}

fn render_run_items(items: &[RunItem]) -> String {
    let mut s = String::new();
    for i in items {
        match i {
            RunItem::Char(c) => s.push(*c),
            RunItem::Kern(k) => s.push_str(&format!("[{}sp]", k.0)),
            RunItem::Ligature(l) => s.push_str(&format!("<{}:{}{}{}>", l.c, if l.includes_left_boundary { "|" } else { "" }, l.original, if l.includes_right_boundary { "|" } else { "" })),
        }
    }
    s
}

fn pair_name(p: (Option<u8>, u8)) -> String {
    format!("({},{})", p.0.map(|c| (c as char).to_string()).unwrap_or("^".into()), p.1 as char)
}

// ------------------------------------------------------------------------------------------
// What the model predicts, with or without named deviations

#[derive(Clone, Debug, PartialEq, Eq)]
struct Prediction {
    diverging: BTreeSet<(Option<u8>, u8)>,
    undecided: bool,
    /// per run: glyph skeleton (None when the model does not finish)
    runs: Vec<Option<Vec<Glyph>>>,
}

struct RunPlan {
    word: Vec<u8>,
    default_run: bool,
    disable_left: bool,
    rbo: Option<u8>,
}

fn plans(spec: &CaseSpec, letters: &[u8]) -> Vec<RunPlan> {
    let mut v = vec![];
    for (w, m) in &spec.words {
        let word: Vec<u8> = w.iter().map(|i| letters[*i as usize % letters.len()]).collect();
        if word.is_empty() {
            continue;
        }
        v.push(RunPlan { word: word.clone(), default_run: true, disable_left: false, rbo: None });
        let (d, o) = mode_of(*m, letters);
        v.push(RunPlan { word, default_run: false, disable_left: d, rbo: o });
    }
    v
}

fn universe(font: &RawFont, letters: &[u8]) -> Vec<(Option<u8>, u8)> {
    let mut out = vec![];
    for l in font.lefts() {
        let mut rs: BTreeSet<u8> = font.rights_of(l).into_iter().collect();
        rs.extend(letters.iter().copied());
        if let Some(b) = font.right_boundary_char() {
            rs.insert(b);
        }
        for r in rs {
            out.push((l, r));
        }
    }
    out
}

fn predict(font: &RawFont, letters: &[u8], plans: &[RunPlan], limits: Limits, with_runs: bool) -> (Prediction, Vec<Option<(Vec<Item>, li::RunStats)>>) {
    let mut diverging = BTreeSet::new();
    let mut undecided = false;
    for (l, r) in universe(font, letters) {
        match font.run_pair(l, r, limits) {
            Outcome::Finished { .. } => {}
            Outcome::Diverges(_) => {
                diverging.insert((l, r));
            }
            Outcome::Undecided { .. } => undecided = true,
        }
    }
    let mut runs = vec![];
    let mut full = vec![];
    if with_runs && diverging.is_empty() && !undecided {
        for p in plans {
            let opts = li::RunOptions { left_boundary: !p.disable_left, right_boundary: p.rbo.or(font.right_boundary_char()) };
            match font.run_word(&p.word, opts, limits) {
                Outcome::Finished { items, stats } => {
                    runs.push(Some(li::skeleton(&items, |k| k.to_scaled(design_size()).0)));
                    full.push(Some((items, stats)));
                }
                _ => {
                    runs.push(None);
                    full.push(None);
                }
            }
        }
    }
    (Prediction { diverging, undecided, runs }, full)
}

/// Deviation flags this property knows how to model.
fn deviation_for(flag: &str) -> Option<Deviations> {
    match flag {
        "phantom_ligature_in_chain" => Some(Deviations { tftopl_phantom_ligature: true }),
        _ => None,
    }
}

fn tfm_round_trip(b: &Built) -> Result<tfm::File, String> {
    let mut file = tfm::File::default();
    file.header = tfm::Header::tfm_default();
    file.header.design_size = design_size();
    file.widths = vec![FixWord::ZERO, FixWord::ONE];
    let mut chars: Vec<u8> = b.letters.clone();
    chars.extend([OUTSIDE, PAD_LEFT, PAD_RIGHT, EXTRA]);
    for c in chars {
        file.char_dimens.insert(
            Char(c),
            tfm::CharDimensions { width_index: tfm::WidthIndex::Valid(std::num::NonZeroU8::new(1).unwrap()), height_index: 0, depth_index: 0, italic_index: 0 },
        );
    }
    file.smallest_char = Char(b'a');
    file.replace_lig_kern_program(b.program.clone(), b.entrypoints.clone());
    let bytes = file.serialize();
    let (r, _warnings) = tfm::File::deserialize(&bytes);
    r.map_err(|e| format!("the serialised TFM file does not deserialise: {e:?}"))
}

fn limits() -> Limits {
    Limits::default()
}

fn oracle(ctx: &Ctx, spec: &CaseSpec, case: &mut Case) -> Verdict {
    let v = oracle_inner(ctx, spec, case);
    // one count per case and class
    case.classes.sort();
    case.classes.dedup();
    v
}

fn oracle_inner(ctx: &Ctx, spec: &CaseSpec, case: &mut Case) -> Verdict {
    let b = build(spec);
    let plans = plans(spec, &b.letters);
    let listing = li::render_font(&b.font);
    case.note = Some(format!("{}  words: {}", listing, plans.iter().filter(|p| p.default_run).map(|p| text(&p.word)).collect::<Vec<_>>().join(",")));
    case.class(if spec.via_tfm {
        "route:tfm"
    } else if spec.via_pl {
        "route:pl"
    } else {
        "route:direct"
    });
    case.class_if(b.program.instructions.len() > 255, "program>255 instructions");
    case.class_if(b.shared_instruction, "two labels enter one chain");
    case.class_if(b.uses_skip, "SKIP n>0");
    case.class(match spec.rb {
        RbSpec::Absent => "bchar:none",
        RbSpec::Inside(_) => "bchar:in alphabet",
        RbSpec::Outside => "bchar:outside alphabet",
    });
    case.class_if(b.program.left_boundary_char_entrypoint.is_some(), "left boundary program");
    case.class_if(spec.high, "a letter with code > 127");
    case.class_if(b.program.instructions.iter().any(|i| matches!(i.operation, Operation::Ligature { char_to_insert, .. } if char_to_insert.0 == EXTRA)), "inserts a character that has no program");

    // the implementation
    let (compiled, errors, font_eff) = if spec.via_tfm {
        let mut file = match panics::catch(|| tfm_round_trip(&b)) {
            Ok(Ok(f)) => f,
            Ok(Err(m)) => return Verdict::Fail(format!("{m}\nprogram: {listing}")),
            Err(p) => return Verdict::Fail(format!("panic while packing/serialising the program at {}: {}\nprogram: {listing}", p.site(), p.message)),
        };
        let (c, e) = match panics::catch(|| CompiledProgram::compile_from_tfm_file(&mut file)) {
            Ok(x) => x,
            Err(p) => return Verdict::Fail(format!("compile_from_tfm_file panics at {}: {}\nprogram: {listing}", p.site(), p.message)),
        };
        let f2 = RawFont::from_tfm_file(&file);
        case.class_if(f2.entries().iter().any(|(c, e)| file.lig_kern_entrypoints().get(&Char(*c)).map(|e8| *e8 as usize != *e).unwrap_or(false)), "entry point redirected");
        (c, e, f2)
    } else if spec.via_pl {
        let mut pl = tfm::pl::File::default();
        pl.header.design_size = design_size();
        let mut chars: Vec<u8> = b.letters.clone();
        chars.extend([OUTSIDE, PAD_LEFT, PAD_RIGHT, EXTRA]);
        for c in chars {
            pl.char_dimens.insert(Char(c), tfm::pl::CharDimensions { width: Some(FixWord::ONE), ..Default::default() });
        }
        pl.replace_lig_kern_program(b.program.clone(), b.entrypoints.clone());
        match panics::catch(|| CompiledProgram::compile_from_pl_file(&pl)) {
            Ok((c, e)) => (c, e, b.font.clone()),
            Err(p) => return Verdict::Fail(format!("compile_from_pl_file panics at {}: {}\nprogram: {listing}", p.site(), p.message)),
        }
    } else {
        let mut ordered: Vec<(Char, u16)> = b.entrypoints.iter().map(|(c, e)| (*c, *e)).collect();
        ordered.sort();
        match panics::catch(|| CompiledProgram::compile(&b.program, design_size(), &[], ordered.into_iter().collect())) {
            Ok((c, e)) => (c, e, b.font.clone()),
            Err(p) => return Verdict::Fail(format!("compile panics at {}: {}\nprogram: {listing}", p.site(), p.message)),
        }
    };

    // the model on the instructions as generated
    let lim = limits();
    let (pred, full) = predict(&b.font, &b.letters, &plans, lim, true);
    let exact = b.font.step_bound(1).map(|x| x <= lim.cap).unwrap_or(false);
    case.class(if exact { "termination decided exactly (2^(P+1) <= cap)" } else { "termination by cap 10^5 + repeated configuration" });
    if pred.undecided {
        case.class("termination undecided");
        return Verdict::Skip("termination undecided within the step cap");
    }
    if spec.via_tfm {
        // packing, serialising and reading back must not change the meaning of the raw program
        let (pred2, _) = predict(&font_eff, &b.letters, &plans, lim, true);
        if pred2 != pred {
            return Verdict::Fail(format!(
                "the raw program means something else after replace_lig_kern_program + serialize + deserialize\nbefore: {listing}\nafter:  {}\nbefore: diverging {:?} runs {:?}\nafter:  diverging {:?} runs {:?}",
                li::render_font(&font_eff),
                pred.diverging.iter().map(|p| pair_name(*p)).collect::<Vec<_>>(),
                pred.runs.iter().map(|r| r.as_ref().map(|g| render_glyphs(g))).collect::<Vec<_>>(),
                pred2.diverging.iter().map(|p| pair_name(*p)).collect::<Vec<_>>(),
                pred2.runs.iter().map(|r| r.as_ref().map(|g| render_glyphs(g))).collect::<Vec<_>>(),
            ));
        }
    }

    // observations of the implementation
    let impl_loop = !errors.is_empty();
    let reported: Vec<(Option<u8>, u8)> = errors.iter().map(|e| (e.starting_pair.0.map(|c| c.0), e.starting_pair.1 .0)).collect();
    let mut impl_runs: Vec<Option<Vec<Glyph>>> = vec![];
    let mut impl_raw: Vec<Vec<RunItem>> = vec![];
    if !impl_loop {
        for p in &plans {
            let word = text(&p.word);
            match impl_items(&compiled, &word, p.default_run, p.disable_left, p.rbo) {
                Ok(items) => {
                    impl_runs.push(Some(impl_skeleton(&items)));
                    impl_raw.push(items);
                }
                Err(m) => return Verdict::Fail(format!("{m}\nprogram: {listing}\nword: {word} (left boundary {}, right boundary override {:?})", !p.disable_left, p.rbo.map(|c| c as char))),
            }
        }
    }

    let agrees = |pr: &Prediction| -> Result<(), String> {
        let model_loop = !pr.diverging.is_empty();
        if model_loop != impl_loop {
            return Err(if model_loop {
                format!("compile reports no infinite loop, but the instructions for {} never terminate", pr.diverging.iter().map(|p| pair_name(*p)).collect::<Vec<_>>().join(" "))
            } else {
                format!("compile reports an infinite loop starting with {} but every pair terminates", reported.iter().map(|p| pair_name(*p)).collect::<Vec<_>>().join(" "))
            });
        }
        for r in &reported {
            if !pr.diverging.contains(r) {
                return Err(format!("compile reports an infinite loop starting with {}, but that pair terminates (diverging pairs: {})", pair_name(*r), pr.diverging.iter().map(|p| pair_name(*p)).collect::<Vec<_>>().join(" ")));
            }
        }
        if model_loop {
            return Ok(());
        }
        for (i, p) in plans.iter().enumerate() {
            let Some(want) = &pr.runs[i] else {
                return Err(format!("model does not finish on word {} although every pair terminates (model defect)", text(&p.word)));
            };
            let got = impl_runs[i].as_ref().unwrap();
            if got != want {
                return Err(format!(
                    "glyph/kern sequence differs for word {:?} ({}left boundary {}, right boundary {})\ninterpreter: {}\ncompiled:    {}",
                    text(&p.word),
                    if p.default_run { "run(), " } else { "run_with_options(), " },
                    if p.disable_left { "off" } else { "on" },
                    match p.rbo {
                        Some(c) => format!("overridden by {}", c as char),
                        None => "of the font".to_string(),
                    },
                    render_glyphs(want),
                    render_glyphs(got)
                ));
            }
        }
        Ok(())
    };

    if let Err(msg) = agrees(&pred) {
        // Is it exactly one of the listed known deviations (or a combination)?
        let flags: Vec<String> = ctx.known_flags().into_iter().filter(|f| deviation_for(f).is_some()).collect();
        for f in &flags {
            let dev = deviation_for(f).unwrap();
            let fd = font_eff.clone().with_deviations(dev);
            let (pd, _) = predict(&fd, &b.letters, &plans, lim, true);
            if !pd.undecided && agrees(&pd).is_ok() {
                return Verdict::Known(format!("flag:{f}"));
            }
        }
        return Verdict::Fail(format!("{msg}\nprogram: {listing}\nroute: {}", if spec.via_tfm { "TFM file" } else if spec.via_pl { "pl::File" } else { "direct" }));
    }

    if impl_loop {
        case.class("loop");
        case.class_if(pred.diverging.iter().any(|p| p.0.is_none()), "loop at the left boundary");
        return Verdict::pass(true);
    }
    case.class("loop-free");

    // the recorded characters spell the word; per-ligature originals are an observation only
    let mut nontrivial = false;
    for (i, p) in plans.iter().enumerate() {
        let word = text(&p.word);
        let spelled = impl_spelled(&impl_raw[i]);
        if spelled != word {
            return Verdict::Fail(format!(
                "plain characters plus ligature originals spell {:?}, not the word {:?} (left boundary {}, right boundary override {:?})\ncompiled: {}\nprogram: {listing}",
                spelled,
                word,
                !p.disable_left,
                p.rbo.map(|c| c as char),
                render_run_items(&impl_raw[i])
            ));
        }
        let (items, stats) = full[i].as_ref().unwrap();
        if li::spelled(items) != p.word {
            return Verdict::Fail(format!("model defect: the interpreter's originals spell {:?} for {:?}", text(&li::spelled(items)), word));
        }
        if impl_as_items(&impl_raw[i]) != model_as_items(items, design_size()) {
            case.class("obs: per-ligature originals/boundary bits differ from TeX's (not part of the property)");
        }
        case.class_if(stats.reentered, "ligature result re-enters a pair with a rule");
        case.class_if(stats.left_boundary_rule, "left boundary rule fires");
        case.class_if(stats.right_boundary_rule, "right boundary rule fires");
        case.class_if(stats.kern_steps > 0, "kern fires");
        case.class_if(stats.lig_steps >= 4, ">=4 ligature steps in a word");
        for (fi, name) in ["=:", "=:|", "=:|>", "|=:", "|=:>", "|=:|", "|=:|>", "|=:|>>"].iter().enumerate() {
            if stats.forms & (1 << fi) != 0 {
                case.class(match *name {
                    "=:" => "form =:",
                    "=:|" => "form =:|",
                    "=:|>" => "form =:|>",
                    "|=:" => "form |=:",
                    "|=:>" => "form |=:>",
                    "|=:|" => "form |=:|",
                    "|=:|>" => "form |=:|>",
                    _ => "form |=:|>>",
                });
            }
        }
        case.class_if(!p.default_run && p.disable_left, "mode: left boundary off");
        case.class_if(!p.default_run && p.rbo.is_some(), "mode: right boundary overridden");
        nontrivial |= stats.reentered || stats.left_boundary_rule || stats.right_boundary_rule;
    }
    Verdict::pass(nontrivial)
}

// ------------------------------------------------------------------------------------------
// Calibration: a tiny reader for the unit-test tables of the repository

#[derive(Clone, Debug, PartialEq)]
enum Tok {
    Id(String),
    Ch(char),
    Str(String),
    Num(i64),
    P(char),
}

fn lex(src: &str) -> Vec<Tok> {
    let b: Vec<char> = src.chars().collect();
    let mut i = 0;
    let mut out = vec![];
    while i < b.len() {
        let c = b[i];
        if c.is_whitespace() {
            i += 1;
        } else if c == '/' && b.get(i + 1) == Some(&'/') {
            while i < b.len() && b[i] != '\n' {
                i += 1;
            }
        } else if c == '"' {
            let mut s = String::new();
            i += 1;
            while i < b.len() && b[i] != '"' {
                if b[i] == '\\' && i + 1 < b.len() {
                    i += 1;
                    s.push(match b[i] {
                        'n' => '\n',
                        't' => '\t',
                        x => x,
                    });
                } else {
                    s.push(b[i]);
                }
                i += 1;
            }
            i += 1;
            out.push(Tok::Str(s));
        } else if c == '\'' && b.get(i + 2) == Some(&'\'') {
            out.push(Tok::Ch(b[i + 1]));
            i += 3;
        } else if c.is_ascii_digit() {
            let mut n = 0i64;
            while i < b.len() && (b[i].is_ascii_digit() || b[i] == '_') {
                if b[i] != '_' {
                    n = n * 10 + b[i].to_digit(10).unwrap() as i64;
                }
                i += 1;
            }
            out.push(Tok::Num(n));
        } else if c.is_alphabetic() || c == '_' {
            let mut s = String::new();
            while i < b.len() && (b[i].is_alphanumeric() || b[i] == '_') {
                s.push(b[i]);
                i += 1;
            }
            out.push(Tok::Id(s));
        } else {
            out.push(Tok::P(c));
            i += 1;
        }
    }
    out
}

struct Rd {
    t: Vec<Tok>,
    i: usize,
}

impl Rd {
    fn peek(&self) -> Option<&Tok> {
        self.t.get(self.i)
    }
    fn next(&mut self) -> Result<Tok, String> {
        let t = self.t.get(self.i).cloned().ok_or("unexpected end")?;
        self.i += 1;
        Ok(t)
    }
    fn p(&mut self, c: char) -> Result<(), String> {
        match self.next()? {
            Tok::P(x) if x == c => Ok(()),
            t => Err(format!("expected {c:?}, found {t:?} at token {}", self.i)),
        }
    }
    fn eat(&mut self, c: char) -> bool {
        if self.peek() == Some(&Tok::P(c)) {
            self.i += 1;
            true
        } else {
            false
        }
    }
    fn id(&mut self) -> Result<String, String> {
        match self.next()? {
            Tok::Id(s) => Ok(s),
            t => Err(format!("expected identifier, found {t:?} at token {}", self.i)),
        }
    }
    fn kw(&mut self, k: &str) -> Result<(), String> {
        let s = self.id()?;
        if s == k {
            Ok(())
        } else {
            Err(format!("expected {k}, found {s} at token {}", self.i))
        }
    }
    fn ch(&mut self) -> Result<char, String> {
        match self.next()? {
            Tok::Ch(c) => Ok(c),
            t => Err(format!("expected char literal, found {t:?} at token {}", self.i)),
        }
    }
    fn st(&mut self) -> Result<String, String> {
        match self.next()? {
            Tok::Str(s) => Ok(s),
            t => Err(format!("expected string literal, found {t:?} at token {}", self.i)),
        }
    }
    fn num(&mut self) -> Result<i64, String> {
        match self.next()? {
            Tok::Num(n) => Ok(n),
            t => Err(format!("expected number, found {t:?} at token {}", self.i)),
        }
    }
    /// `a::b::c` → last segment
    fn path(&mut self) -> Result<String, String> {
        let mut s = self.id()?;
        while self.peek() == Some(&Tok::P(':')) {
            self.p(':')?;
            self.p(':')?;
            s = self.id()?;
        }
        Ok(s)
    }
    /// `X::ONE` or `X::ONE * k`
    fn one_times(&mut self) -> Result<i64, String> {
        let last = self.path()?;
        if last != "ONE" {
            return Err(format!("expected ..::ONE, found {last}"));
        }
        if self.eat('*') {
            self.num()
        } else {
            Ok(1)
        }
    }
    fn vec_open(&mut self) -> Result<(), String> {
        self.kw("vec")?;
        self.p('!')?;
        self.p('[')
    }
}

#[derive(Clone, Debug, PartialEq, Eq, Serialize, Deserialize)]
pub enum GItem {
    Char(u8),
    /// multiples of 1pt
    Kern(i64),
    Lig { c: u8, original: String, lb: bool, rb: bool },
}

#[derive(Clone, Debug, Serialize, Deserialize)]
pub struct RunGolden {
    pub name: String,
    pub program: String,
    pub input: String,
    pub want: Vec<GItem>,
}

fn parse_run_goldens(src: &str) -> Result<Vec<RunGolden>, String> {
    let at = src.find("\n    tests!(").ok_or("no tests!( invocation")?;
    let mut r = Rd { t: lex(&src[at..]), i: 0 };
    r.kw("tests")?;
    r.p('!')?;
    r.p('(')?;
    let mut out = vec![];
    while !r.eat(')') {
        r.p('(')?;
        let name = r.id()?;
        r.p(',')?;
        let program = r.st()?;
        r.p(',')?;
        let input = r.st()?;
        r.p(',')?;
        r.vec_open()?;
        let mut want = vec![];
        while !r.eat(']') {
            let kind = r.id()?;
            r.p('(')?;
            match kind.as_str() {
                "Char" => want.push(GItem::Char(r.ch()? as u32 as u8)),
                "Kern" => want.push(GItem::Kern(r.one_times()?)),
                "Ligature" => {
                    r.kw("L")?;
                    r.p('{')?;
                    let (mut c, mut original, mut lb, mut rb) = (0u8, String::new(), false, false);
                    while !r.eat('}') {
                        let f = r.id()?;
                        r.p(':')?;
                        match f.as_str() {
                            "c" => c = r.ch()? as u32 as u8,
                            "original" => {
                                original = r.st()?;
                                r.p('.')?;
                                r.kw("into")?;
                                r.p('(')?;
                                r.p(')')?;
                            }
                            "includes_left_boundary" => lb = r.id()? == "true",
                            "includes_right_boundary" => rb = r.id()? == "true",
                            o => return Err(format!("unknown field {o}")),
                        }
                        r.eat(',');
                    }
                    want.push(GItem::Lig { c, original, lb, rb });
                }
                o => return Err(format!("unknown item {o} in {name}")),
            }
            r.p(')')?;
            r.eat(',');
        }
        r.eat(',');
        r.p(')')?;
        r.eat(',');
        out.push(RunGolden { name, program, input, want });
    }
    Ok(out)
}

#[derive(Clone, Debug, Serialize, Deserialize)]
pub enum GInstr {
    Kern { next: Option<u8>, right: u8, k: i64 },
    Lig { next: Option<u8>, right: u8, insert: u8, form: String },
}

/// (char, is_lig)
type GC = (u8, bool);

#[derive(Clone, Debug, Serialize, Deserialize)]
pub enum GOp {
    C(u8, bool),
    Kern(i64),
}

#[derive(Clone, Debug, Serialize, Deserialize)]
pub struct CompileGolden {
    pub name: String,
    pub instrs: Vec<GInstr>,
    pub entries: Vec<(u8, u16)>,
    pub want: Vec<(u8, u8, Vec<GOp>, GC)>,
}

fn parse_opt_u8(r: &mut Rd) -> Result<Option<u8>, String> {
    match r.id()?.as_str() {
        "None" => Ok(None),
        "Some" => {
            r.p('(')?;
            let n = r.num()?;
            r.p(')')?;
            Ok(Some(n as u8))
        }
        o => Err(format!("expected None/Some, found {o}")),
    }
}

fn parse_c(r: &mut Rd) -> Result<GC, String> {
    // `C::char(Char::A)` or `C { c: Char::Z, is_lig: true, }`
    r.kw("C")?;
    if r.eat('{') {
        let (mut c, mut lig) = (0u8, false);
        while !r.eat('}') {
            let f = r.id()?;
            r.p(':')?;
            match f.as_str() {
                "c" => c = r.path()?.bytes().next().unwrap(),
                "is_lig" => lig = r.id()? == "true",
                o => return Err(format!("unknown field {o}")),
            }
            r.eat(',');
        }
        Ok((c, lig))
    } else {
        r.p(':')?;
        r.p(':')?;
        r.kw("char")?;
        r.p('(')?;
        let c = r.path()?.bytes().next().unwrap();
        r.p(')')?;
        Ok((c, false))
    }
}

fn parse_compile_goldens(src: &str) -> Result<Vec<CompileGolden>, String> {
    let at = src.find("\n    success_tests!(").ok_or("no success_tests!( invocation")?;
    let mut r = Rd { t: lex(&src[at..]), i: 0 };
    r.kw("success_tests")?;
    r.p('!')?;
    r.p('(')?;
    let mut out = vec![];
    while !r.eat(')') {
        r.p('(')?;
        let name = r.id()?;
        r.p(',')?;
        r.vec_open()?;
        let mut instrs = vec![];
        while !r.eat(']') {
            let f = r.id()?;
            r.p('(')?;
            let next = parse_opt_u8(&mut r)?;
            r.p(',')?;
            let right = r.ch()? as u32 as u8;
            r.p(',')?;
            match f.as_str() {
                "new_kern" => {
                    let k = r.one_times()?;
                    instrs.push(GInstr::Kern { next, right, k });
                }
                "new_lig" => {
                    let insert = r.ch()? as u32 as u8;
                    r.p(',')?;
                    let form = r.id()?;
                    instrs.push(GInstr::Lig { next, right, insert, form });
                }
                o => return Err(format!("unknown constructor {o}")),
            }
            r.eat(',');
            r.p(')')?;
            r.eat(',');
        }
        r.p(',')?;
        r.vec_open()?;
        let mut entries = vec![];
        while !r.eat(']') {
            r.p('(')?;
            let c = r.ch()? as u32 as u8;
            r.p(',')?;
            let e = r.num()? as u16;
            r.p(')')?;
            r.eat(',');
            entries.push((c, e));
        }
        r.p(',')?;
        r.vec_open()?;
        let mut want = vec![];
        while !r.eat(']') {
            r.p('(')?;
            let l = r.ch()? as u32 as u8;
            r.p(',')?;
            let rr = r.ch()? as u32 as u8;
            r.p(',')?;
            r.vec_open()?;
            let mut ops = vec![];
            while !r.eat(']') {
                r.kw("IntermediateOp")?;
                r.p(':')?;
                r.p(':')?;
                let k = r.id()?;
                r.p('(')?;
                match k.as_str() {
                    "C" => {
                        let (c, lig) = parse_c(&mut r)?;
                        ops.push(GOp::C(c, lig));
                    }
                    "Kern" => ops.push(GOp::Kern(r.one_times()?)),
                    o => return Err(format!("unknown op {o}")),
                }
                r.p(')')?;
                r.eat(',');
            }
            r.p(',')?;
            let last = parse_c(&mut r)?;
            r.eat(',');
            r.p(')')?;
            r.eat(',');
            want.push((l, rr, ops, last));
        }
        r.eat(',');
        r.p(')')?;
        r.eat(',');
        out.push(CompileGolden { name, instrs, entries, want });
    }
    Ok(out)
}

fn repo_dir() -> String {
    std::env::var("VP_REPO").unwrap_or_else(|_| "/repo".to_string())
}

fn read_repo(rel: &str) -> String {
    let p = format!("{}/{}", repo_dir(), rel);
    std::fs::read_to_string(&p).unwrap_or_else(|e| {
        eprintln!("C05: cannot read {p}: {e}");
        std::process::exit(2)
    })
}

fn form_by_name(n: &str) -> Option<PostLigOperation> {
    use PostLigOperation::*;
    Some(match n {
        "RetainBothMoveNowhere" => RetainBothMoveNowhere,
        "RetainBothMoveToInserted" => RetainBothMoveToInserted,
        "RetainBothMoveToRight" => RetainBothMoveToRight,
        "RetainRightMoveToInserted" => RetainRightMoveToInserted,
        "RetainRightMoveToRight" => RetainRightMoveToRight,
        "RetainLeftMoveNowhere" => RetainLeftMoveNowhere,
        "RetainLeftMoveToInserted" => RetainLeftMoveToInserted,
        "RetainNeitherMoveToInserted" => RetainNeitherMoveToInserted,
        _ => return None,
    })
}

fn golden_as_items(w: &[GItem]) -> Vec<(Glyph, Vec<u8>, bool, bool)> {
    w.iter()
        .map(|g| match g {
            GItem::Char(c) => (Glyph::Char(*c), vec![], false, false),
            GItem::Kern(k) => (Glyph::Kern((*k as i32) << 16), vec![], false, false),
            GItem::Lig { c, original, lb, rb } => (Glyph::Lig(*c), original.bytes().collect(), *lb, *rb),
        })
        .collect()
}

fn run_golden_oracle(ligaroo: &str, g: &RunGolden, case: &mut Case) -> Verdict {
    let source = ligaroo.replace("(LIGTABLE", &format!("(LIGTABLE\n{}", g.program));
    let pl = tfm::pl::File::from_pl_source_code(&source).0;
    let mut eps: Vec<(Char, u16)> = pl.lig_kern_entrypoints(false).into_iter().collect();
    eps.sort();
    let font = RawFont::from_program(&pl.lig_kern_program, eps, &[]);
    case.note = Some(format!("{}: {} on {:?}", g.name, li::render_font(&font), g.input));
    let opts = li::RunOptions { left_boundary: true, right_boundary: font.right_boundary_char() };
    let out = font.run_word(g.input.as_bytes(), opts, limits());
    let Some((items, stats)) = out.finished() else {
        return Verdict::Fail(format!("model does not finish on unit test {}: {:?}", g.name, out));
    };
    let want = golden_as_items(&g.want);
    let got = model_as_items(items, pl.header.design_size);
    if got != want {
        return Verdict::Fail(format!("MODEL DISAGREES WITH A TeX-VERIFIED GOLDEN (unit test {}): model {} golden {:?}", g.name, li::render_items(items), g.want));
    }
    Verdict::pass(stats.reentered || stats.left_boundary_rule || stats.right_boundary_rule)
}

fn compile_golden_oracle(g: &CompileGolden, case: &mut Case) -> Verdict {
    let mut instructions = vec![];
    for i in &g.instrs {
        instructions.push(match i {
            GInstr::Kern { next, right, k } => Instruction { next_instruction: *next, right_char: Char(*right), operation: Operation::Kern(FixWord::ONE * (*k as i32)) },
            GInstr::Lig { next, right, insert, form } => {
                let Some(f) = form_by_name(form) else { return Verdict::Fail(format!("unknown form {form}")) };
                Instruction { next_instruction: *next, right_char: Char(*right), operation: Operation::Ligature { char_to_insert: Char(*insert), post_lig_operation: f, post_lig_tag_invalid: false } }
            }
        });
    }
    let program = Program { instructions, ..Default::default() };
    let font = RawFont::from_program(&program, g.entries.iter().map(|(c, e)| (Char(*c), *e)), &[]);
    case.note = Some(format!("{}: {}", g.name, li::render_font(&font)));
    // the pairs that own an instruction are exactly the keys of the golden table
    let mut have = BTreeSet::new();
    for l in font.lefts() {
        for r in font.rights_of(l) {
            if font.lookup(l, r).is_some() {
                have.insert((l.unwrap(), r));
            }
        }
    }
    let keys: BTreeSet<(u8, u8)> = g.want.iter().map(|w| (w.0, w.1)).collect();
    if have != keys {
        return Verdict::Fail(format!("MODEL DISAGREES WITH A GOLDEN ({}): pairs with an instruction {:?}, golden table has {:?}", g.name, have, keys));
    }
    let mut nontrivial = false;
    for (l, r, ops, last) in &g.want {
        let out = font.run_pair(Some(*l), *r, limits());
        let Some((items, stats)) = out.finished() else {
            return Verdict::Fail(format!("model does not finish on pair ({},{}) of {}", *l as char, *r as char, g.name));
        };
        nontrivial |= stats.reentered;
        let got = li::skeleton(items, |k| k.to_scaled(FixWord::ONE).0);
        let mut want: Vec<Glyph> = ops
            .iter()
            .map(|o| match o {
                GOp::C(c, false) => Glyph::Char(*c),
                GOp::C(c, true) => Glyph::Lig(*c),
                GOp::Kern(k) => Glyph::Kern((*k as i32) << 16),
            })
            .collect();
        want.push(if last.1 { Glyph::Lig(last.0) } else { Glyph::Char(last.0) });
        if got != want {
            return Verdict::Fail(format!("MODEL DISAGREES WITH A GOLDEN ({} pair ({},{})): model {} golden {}", g.name, *l as char, *r as char, render_glyphs(&got), render_glyphs(&want)));
        }
    }
    Verdict::pass(nontrivial)
}

// lang.rs: the compact notation `ab -> a^xb` of the parse_compact unit tests spells a form out
// (retained characters, `_` for a deleted one, `^` after the character under the cursor).

#[derive(Clone, Debug, Serialize, Deserialize)]
pub struct CompactGolden {
    pub text: String,
    pub form: String,
}

fn parse_compact_goldens(src: &str) -> Vec<CompactGolden> {
    let Some(at) = src.find("\n    parse_compact_operation_tests!(") else { return vec![] };
    let toks = lex(&src[at..]);
    let mut cur: Option<String> = None;
    let mut out = vec![];
    let mut i = 0;
    while i < toks.len() {
        match &toks[i] {
            Tok::Str(s) if s.contains(" -> ") => cur = Some(s.clone()),
            Tok::Id(id) if id == "PostLigOperation" => {
                if let (Some(Tok::P(':')), Some(Tok::P(':')), Some(Tok::Id(name))) = (toks.get(i + 1), toks.get(i + 2), toks.get(i + 3)) {
                    if let Some(text) = cur.take() {
                        out.push(CompactGolden { text, form: name.clone() });
                    }
                }
            }
            _ => {}
        }
        i += 1;
    }
    out
}

fn compact_golden_oracle(g: &CompactGolden, case: &mut Case) -> Verdict {
    case.note = Some(format!("{} = {}", g.text, g.form));
    let words: Vec<&str> = g.text.split_whitespace().collect();
    if words.len() != 3 {
        return Verdict::Fail(format!("cannot read compact golden {:?}", g.text));
    }
    let lr: Vec<char> = words[0].chars().collect();
    let third: Vec<char> = words[2].chars().collect();
    let elems: Vec<char> = third.iter().copied().filter(|c| *c != '^').collect();
    let caret = third.iter().position(|c| *c == '^').unwrap_or(0);
    if lr.len() != 2 || elems.len() != 3 || caret == 0 {
        return Verdict::Fail(format!("cannot read compact golden {:?}", g.text));
    }
    let keep_left = elems[0] != '_';
    let keep_right = elems[2] != '_';
    // the cursor stands on element caret-1; the first surviving element is 0 or 1
    let advance = (caret - 1 - if keep_left { 0 } else { 1 }) as u8;
    let Some(op) = form_by_name(&g.form) else { return Verdict::Fail(format!("unknown form {}", g.form)) };
    let got = li::lig_form(op);
    let want = li::LigForm { keep_left, keep_right, advance };
    if got != want {
        return Verdict::Fail(format!("MODEL DISAGREES WITH A GOLDEN: {} is {:?} in the model, the unit test {:?} says {:?}", g.form, got, g.text, want));
    }
    // and the interpreter leaves exactly the spelled list
    let left = if lr[0] == '|' { None } else { Some(lr[0] as u32 as u8) };
    let program = Program {
        instructions: vec![Instruction {
            next_instruction: None,
            right_char: Char(lr[1] as u32 as u8),
            operation: Operation::Ligature { char_to_insert: Char(elems[1] as u32 as u8), post_lig_operation: op, post_lig_tag_invalid: false },
        }],
        left_boundary_char_entrypoint: if left.is_none() { Some(0) } else { None },
        ..Default::default()
    };
    let font = RawFont::from_program(&program, left.map(|c| (Char(c), 0u16)), &[]);
    let out = font.run_pair(left, lr[1] as u32 as u8, limits());
    let Some((items, _)) = out.finished() else { return Verdict::Fail(format!("model does not finish on {:?}", g.text)) };
    let got: String = li::skeleton(items, |_| 0)
        .iter()
        .map(|x| match x {
            Glyph::Char(c) | Glyph::Lig(c) => *c as char,
            Glyph::Kern(_) => '?',
        })
        .collect();
    let want: String = elems.iter().filter(|c| **c != '_' && !(left.is_none() && **c == '|')).collect();
    if got != want {
        return Verdict::Fail(format!("MODEL DISAGREES WITH A GOLDEN: {:?} leaves {:?} in the model", g.text, got));
    }
    Verdict::pass(false)
}

// Corpus: TFtoPL's recorded verdict about infinite loops.

#[derive(Clone, Debug, Serialize, Deserialize)]
pub struct CorpusFile {
    pub tfm: String,
    pub expect_loop: bool,
}

fn corpus_files() -> Vec<CorpusFile> {
    let mut out = vec![];
    for dir in ["computer-modern", "ctan", "originals", "fuzz"] {
        let d = format!("{}/crates/tfm/corpus/{}", repo_dir(), dir);
        let Ok(rd) = std::fs::read_dir(&d) else { continue };
        let mut names: Vec<String> = rd.filter_map(|e| e.ok()).map(|e| e.file_name().to_string_lossy().to_string()).filter(|n| n.ends_with(".tfm")).collect();
        names.sort();
        for n in names {
            let stem = n.trim_end_matches(".tfm");
            let stderr = std::fs::read_to_string(format!("{d}/{stem}.stderr.txt")).unwrap_or_default();
            if stderr.contains("All ligatures will be cleared") {
                continue; // PLtoTF direction: the .tfm is the cleaned output
            }
            out.push(CorpusFile { tfm: format!("{dir}/{n}"), expect_loop: stderr.contains("Infinite ligature loop") });
        }
    }
    out
}

fn corpus_oracle(c: &CorpusFile, case: &mut Case) -> Verdict {
    let path = format!("{}/crates/tfm/corpus/{}", repo_dir(), c.tfm);
    let Ok(bytes) = std::fs::read(&path) else { return Verdict::Skip("corpus file unreadable") };
    let (r, _) = match panics::catch(|| tfm::File::deserialize(&bytes)) {
        Ok(x) => x,
        Err(_) => return Verdict::Skip("deserialize panics (C10's business)"),
    };
    let Ok(mut file) = r else { return Verdict::Skip("not a TFM file TFtoPL reads") };
    // TFtoPL looks for loops after its repairs (nonexistent characters replaced, bad labels
    // removed); these repairs are pinned by the repository's TFtoPL end-to-end tests.
    if panics::catch(|| file.validate_and_fix()).is_err() {
        return Verdict::Skip("validate_and_fix panics (C10's business)");
    }
    // TFtoPL semantics: phantom ligatures count
    let font = RawFont::from_tfm_file(&file).with_deviations(Deviations { tftopl_phantom_ligature: true });
    let mut diverging = vec![];
    for l in font.lefts() {
        for r in font.rights_of(l) {
            match font.run_pair(l, r, limits()) {
                Outcome::Finished { .. } => {}
                Outcome::Diverges(_) => diverging.push((l, r)),
                Outcome::Undecided { .. } => return Verdict::Skip("termination undecided within the step cap"),
            }
        }
    }
    case.note = Some(format!("{} loop={}", c.tfm, c.expect_loop));
    case.class_if(c.expect_loop, "TFtoPL reports a loop");
    if diverging.is_empty() == c.expect_loop {
        return Verdict::Fail(format!(
            "MODEL DISAGREES WITH TFtoPL on {}: TFtoPL {} an infinite loop, model finds diverging pairs {:?}",
            c.tfm,
            if c.expect_loop { "reports" } else { "does not report" },
            diverging.iter().map(|p| pair_name(*p)).collect::<Vec<_>>()
        ));
    }
    Verdict::pass(c.expect_loop)
}

// cmr10

fn cmr10() -> &'static (CompiledProgram, RawFont, FixWord) {
    static CELL: std::sync::OnceLock<(CompiledProgram, RawFont, FixWord)> = std::sync::OnceLock::new();
    CELL.get_or_init(|| {
        let path = format!("{}/crates/tfm/corpus/computer-modern/cmr10.tfm", repo_dir());
        let bytes = std::fs::read(&path).unwrap_or_else(|e| {
            eprintln!("C05: cannot read {path}: {e}");
            std::process::exit(2)
        });
        let mut file = tfm::File::deserialize(&bytes).0.unwrap_or_else(|e| {
            eprintln!("C05: cmr10.tfm does not deserialise: {e:?}");
            std::process::exit(2)
        });
        let font = RawFont::from_tfm_file(&file);
        let ds = file.header.design_size;
        let (c, e) = CompiledProgram::compile_from_tfm_file(&mut file);
        if !e.is_empty() {
            eprintln!("C05: cmr10 reported to contain a loop");
            std::process::exit(2)
        }
        (c, font, ds)
    })
}

const CMR_ALPHABET: &[u8] = b"fil-`'!?AVka";

/// Facts about cmr10 known from cmr10.pl / The TeXbook (glyph codes in octal).
fn cmr10_facts() -> Vec<(&'static str, Vec<Glyph>)> {
    vec![
        ("ff", vec![Glyph::Lig(0o13)]),
        ("fi", vec![Glyph::Lig(0o14)]),
        ("fl", vec![Glyph::Lig(0o15)]),
        ("ffi", vec![Glyph::Lig(0o16)]),
        ("ffl", vec![Glyph::Lig(0o17)]),
        ("--", vec![Glyph::Lig(0o173)]),
        ("---", vec![Glyph::Lig(0o174)]),
        ("``", vec![Glyph::Lig(0o134)]),
        ("''", vec![Glyph::Lig(0o42)]),
        ("!`", vec![Glyph::Lig(0o74)]),
        ("?`", vec![Glyph::Lig(0o76)]),
        ("il", vec![Glyph::Char(b'i'), Glyph::Char(b'l')]),
        // (A,V): KRN R -0.111112 of a 10pt design size = -1.11112pt = -72819sp
        ("AV", vec![Glyph::Char(b'A'), Glyph::Kern(-72819), Glyph::Char(b'V')]),
    ]
}

fn cmr_word(i: u64) -> Vec<u8> {
    let n = CMR_ALPHABET.len() as u64;
    let (len, mut k) = if i < n {
        (1, i)
    } else if i < n + n * n {
        (2, i - n)
    } else {
        (3, i - n - n * n)
    };
    let mut w = vec![];
    for _ in 0..len {
        w.push(CMR_ALPHABET[(k % n) as usize]);
        k /= n;
    }
    w
}

/// Model against facts about cmr10 (calibration; the implementation is not involved).
fn cmr_fact_oracle(i: usize, case: &mut Case) -> Verdict {
    let (_, font, ds) = cmr10();
    let (w, fg) = cmr10_facts().swap_remove(i);
    case.note = Some(format!("cmr10 {w:?}"));
    let opts = li::RunOptions { left_boundary: true, right_boundary: font.right_boundary_char() };
    let out = font.run_word(w.as_bytes(), opts, limits());
    let Some((items, stats)) = out.finished() else { return Verdict::Fail(format!("model does not finish on cmr10 word {w:?}")) };
    let got = li::skeleton(items, |k| k.to_scaled(*ds).0);
    if got != fg {
        return Verdict::Fail(format!("MODEL DISAGREES WITH cmr10 FACT {w:?}: model {} expected {}", render_glyphs(&got), render_glyphs(&fg)));
    }
    if li::spelled(items) != w.as_bytes() {
        return Verdict::Fail(format!("MODEL: originals of {w:?} spell {:?}", li::spelled(items)));
    }
    Verdict::pass(stats.reentered)
}

/// Compiled cmr10 against the interpreter on short words (a real font as a differential case).
fn cmr_oracle(word: &[u8], case: &mut Case) -> Verdict {
    let (compiled, font, ds) = cmr10();
    let w = String::from_utf8(word.to_vec()).unwrap();
    case.note = Some(format!("cmr10 {w:?}"));
    let mut nontrivial = false;
    for disable_left in [false, true] {
        let opts = li::RunOptions { left_boundary: !disable_left, right_boundary: font.right_boundary_char() };
        let out = font.run_word(word, opts, limits());
        let Some((items, stats)) = out.finished() else { return Verdict::Fail(format!("model does not finish on cmr10 word {w:?}")) };
        nontrivial |= stats.reentered;
        let want = li::skeleton(items, |k| k.to_scaled(*ds).0);
        let got = match impl_items(compiled, &w, false, disable_left, None) {
            Ok(x) => x,
            Err(m) => return Verdict::Fail(m),
        };
        if impl_skeleton(&got) != want {
            return Verdict::Fail(format!("cmr10 word {w:?}: interpreter {} compiled {}", render_glyphs(&want), render_run_items(&got)));
        }
        if impl_spelled(&got) != w {
            return Verdict::Fail(format!("cmr10 word {w:?}: compiled output spells {:?}: {}", impl_spelled(&got), render_run_items(&got)));
        }
    }
    Verdict::pass(nontrivial)
}

// ------------------------------------------------------------------------------------------

pub fn run(ctx: &Ctx) {
    ctx.rule("cases = lig/kern program (alphabet of 2, 3 or 4 letters, one of them optionally a code above 127; per left symbol and for the left boundary a chain of 0-4 instructions: right character, kern or one of the eight ligature forms =: =:| =:|> |=: |=:> |=:| |=:|> |=:|>> with an inserted letter (rarely a character that has no program), continue/SKIP n/STOP; labels may stand anywhere so several symbols enter one chain; optional right boundary character inside or outside the alphabet; optional 230-300 instruction padding block so entry points exceed 255; handed to compile directly, through pl::File, or through a serialised and re-read TFM file) x 5 words of 1-6 letters, each run with run() and with one generated run_with_options mode (left boundary off, right boundary overridden). Oracle: moving-cursor interpreter of the raw instructions after TeX 1034-1040; every pair (left symbol that has a program incl. the left boundary, right character) is evaluated on its own for termination. non-trivial = some pair diverges, or in some word a rule fires on a pair containing a character inserted by an earlier ligature step, or a left/right boundary rule fires; distinct = by generated case");
    ctx.assume("programs are well formed as PLtoTF writes them: every SKIP lands inside the program and the last instruction stops; stop words (skip byte > 128) are never reachable inside a chain except the ones pack_entrypoints itself creates");
    ctx.assume("all characters of words, right characters and inserted characters exist in the font (TeX 1036 drops nonexistent word characters before the lig/kern loop; TFtoPL repairs nonexistent instruction operands)");
    ctx.assume("termination: a run with more than symbols*2^(P+1) ligature steps (P = pairs owning a ligature instruction) diverges - exact; when that bound exceeds the fixed cap of 10^5 steps a repeated (cursor symbol, unread list) configuration proves divergence, finishing proves termination, anything else is skipped and counted");
    ctx.assume("kern amounts are compared after the same FixWord::to_scaled(design size 10pt) (decided by C17)");
    ctx.assume("per-ligature original strings and the includes_left/right_boundary bits are compared with TeX's only as an observation class; the property demands the glyph/kern sequence and that plain characters plus originals spell the word");
    ctx.assume("compile's report names a pair: each reported starting pair must itself diverge (a report for a terminating pair counts as a false report)");

    if ctx.is_generate() || matches!(&ctx.mode, Mode::Replay { sub, .. } if sub.starts_with("calib")) {
        // Calibration first: a model that disagrees with a golden is wrong.
        let run_src = read_repo("crates/tfm/src/ligkern/mod.rs");
        let ligaroo = read_repo("crates/tfm/src/ligkern/ligaroo.plst");
        let run_goldens = parse_run_goldens(&run_src).unwrap_or_else(|e| {
            eprintln!("C05: cannot read the unit-test table of ligkern/mod.rs: {e}");
            std::process::exit(2)
        });
        let compile_src = read_repo("crates/tfm/src/ligkern/compiler.rs");
        let compile_goldens = parse_compile_goldens(&compile_src).unwrap_or_else(|e| {
            eprintln!("C05: cannot read the unit-test table of ligkern/compiler.rs: {e}");
            std::process::exit(2)
        });
        if run_goldens.len() < 40 || compile_goldens.len() < 20 {
            eprintln!("C05: only {} + {} unit-test goldens found", run_goldens.len(), compile_goldens.len());
            std::process::exit(2);
        }
        ctx.extra("calib_unit_run", "goldens", serde_json::json!(run_goldens.len()));
        ctx.extra("calib_unit_compile", "goldens", serde_json::json!(compile_goldens.len()));
        run_list(ctx, "calib_unit_run", run_goldens, |g: &RunGolden, case| run_golden_oracle(&ligaroo, g, case));
        run_list(ctx, "calib_unit_compile", compile_goldens, |g: &CompileGolden, case| compile_golden_oracle(g, case));
        let compact = parse_compact_goldens(&read_repo("crates/tfm/src/ligkern/lang.rs"));
        if compact.len() < 8 {
            eprintln!("C05: only {} compact-notation goldens found in ligkern/lang.rs", compact.len());
            std::process::exit(2);
        }
        run_list(ctx, "calib_compact_forms", compact, |g: &CompactGolden, case| compact_golden_oracle(g, case));
        run_list(ctx, "calib_corpus_loops", corpus_files(), |c: &CorpusFile, case| corpus_oracle(c, case));
        let facts: Vec<usize> = (0..cmr10_facts().len()).collect();
        run_list(ctx, "calib_cmr10_facts", facts, |i: &usize, case| cmr_fact_oracle(*i, case));
    }

    let n = ctx.tier.pick(500_000u64, 11_000_000u64);
    run_generated(ctx, "ligkern", n, || case_strategy(4, true), |s: &CaseSpec, case| oracle(ctx, s, case));
    let n3 = ctx.tier.pick(350_000u64, 7_000_000u64);
    run_generated(ctx, "ligkern_exact3", n3, || case_strategy(3, false), |s: &CaseSpec, case| oracle(ctx, s, case));
    let n2 = ctx.tier.pick(150_000u64, 1_000_000u64);
    run_generated(ctx, "ligkern_dense2", n2, || case_strategy(2, false), |s: &CaseSpec, case| oracle(ctx, s, case));

    // a real font: every word of 1-3 characters over a slice of cmr10's alphabet, plus a few words
    let n = CMR_ALPHABET.len() as u64;
    let mut words: Vec<Vec<u8>> = (0..n + n * n + n * n * n).map(cmr_word).collect();
    words.extend(["difficult", "waffle", "office", "shuffle", "fluffiest", "AVAVA", "``fi''", "a---k"].iter().map(|w| w.as_bytes().to_vec()));
    run_list(ctx, "cmr10_words", words, |w: &Vec<u8>, case| cmr_oracle(w, case));
}
